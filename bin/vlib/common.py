"""Shared machinery of /verif/bin/check: building the two sides from the current working tree,
running cases on both, verdicts, evidence, known findings."""

import fcntl
import hashlib
import json
import os
import re
import shutil
import subprocess
import sys
import time

VERIF = os.path.dirname(os.path.dirname(os.path.dirname(os.path.abspath(__file__))))
REPO = os.environ.get("VERIF_REPO", "/repo")
BUILD = os.path.join(VERIF, "build")
LEAN = os.path.join(VERIF, "lean")
HARNESS = os.path.join(VERIF, "harness")
GOENV = dict(os.environ, GOFLAGS="-mod=mod", GOPROXY="off", GOSUMDB="off", GOTOOLCHAIN="local", CGO_ENABLED=os.environ.get("CGO_ENABLED", "0"))
ALLOWED_AXIOMS = {"propext", "Classical.choice", "Quot.sound"}


class BuildLock:
    def __init__(self, name):
        os.makedirs(BUILD, exist_ok=True)
        self.path = os.path.join(BUILD, name + ".lock")

    def __enter__(self):
        self.f = open(self.path, "w")
        fcntl.flock(self.f, fcntl.LOCK_EX)
        return self

    def __exit__(self, *a):
        fcntl.flock(self.f, fcntl.LOCK_UN)
        self.f.close()


def sh(cmd, cwd=None, env=None, timeout=1800, inp=None):
    p = subprocess.run(cmd, cwd=cwd, env=env, stdout=subprocess.PIPE, stderr=subprocess.PIPE, timeout=timeout, input=inp)
    return p.returncode, p.stdout.decode("utf-8", "replace"), p.stderr.decode("utf-8", "replace")


def repo_fingerprint():
    """hash of the Go sources of the working tree (what the harness is built from)"""
    h = hashlib.sha256()
    base = os.path.join(REPO, "pkg", "lmd")
    for name in sorted(os.listdir(base)):
        if name.endswith(".go") and not name.endswith("_test.go"):
            with open(os.path.join(base, name), "rb") as f:
                h.update(name.encode())
                h.update(f.read())
    for name in sorted(os.listdir(os.path.join(HARNESS, "inpkg"))):
        with open(os.path.join(HARNESS, "inpkg", name), "rb") as f:
            h.update(f.read())
    for root, _, files in list(os.walk(os.path.join(HARNESS, "cmd"))) + list(os.walk(os.path.join(HARNESS, "backend"))):
        for name in sorted(files):
            with open(os.path.join(root, name), "rb") as f:
                h.update(f.read())
    h.update(repr(sorted(CLOCK_PATCHES.items())).encode())
    return h.hexdigest()[:16]


# textual replacements applied to COPIES of working-tree files (injected through the overlay): the few places
# where lmd reads the wall clock for its bookkeeping are routed through verifNow(), so that the harness can
# let time pass.  Every pattern must occur exactly the stated number of times, otherwise the tie is broken.
CLOCK_PATCHES = {
    "main.go": [("return float64(time.Now().UnixNano()) / float64(time.Second)", "return float64(verifNow().UnixNano()) / float64(time.Second)", 1)],
    "datastoreset.go": [("float64(time.Now().Unix()-MinFullScanInterval)", "float64(verifNow().Unix()-MinFullScanInterval)", 1),
                        ('time.Now().Format("4")', 'verifNow().Format("4")', 1),
                        # Go walks the map of changed timeperiods in a random order; which refresh an aborted run still did would
                        # differ from run to run.  The harness build walks it by name (the model does the same); the orders are
                        # symmetric under renaming the periods.  Optional: a tree that words the loop differently keeps its own order.
                        ("for name, state := range changedTimeperiods {", "for _, name := range verifSortedKeys(changedTimeperiods) {\n\t\tstate := changedTimeperiods[name]", -1)],
    "peer.go": [('time.Now().Format("4")', 'verifNow().Format("4")', 2),
                ("diff := time.Since(ts)", "diff := verifNow().Sub(ts)", 1),
                # the update loop looks at the clock every 500 ms; the concurrency soak lets virtual time run faster and shortens this
                ("ticker := time.NewTicker(UpdateLoopTickerInterval)", "ticker := time.NewTicker(verifTickerInterval())", 1)],
    # cluster mode: the harness runs the availability checks of the nodes itself; the defaults (check every 10 s, wait 3 s for
    # partners that do not answer) become settings of the harness
    "nodes.go": [("n.loopInterval = 10", "n.loopInterval = verifNodeLoopInterval()", 1),
                 ("n.heartbeatTimeout = 3", "n.heartbeatTimeout = verifHeartbeatTimeout()", 1)],
}


class OverlayError(Exception):
    pass


def write_overlay():
    """overlay.json: every file of harness/inpkg becomes zz_verif_<name> inside the package;
    clock-patched copies replace main.go / datastoreset.go / peer.go"""
    repl = {}
    odir = os.path.join(BUILD, "overlay")
    os.makedirs(odir, exist_ok=True)
    for name, patches in CLOCK_PATCHES.items():
        src = os.path.join(REPO, "pkg", "lmd", name)
        text = open(src, encoding="utf-8").read()
        for old, new, count in patches:
            if count < 0:
                if text.count(old) != 1:
                    continue
            elif text.count(old) != count:
                raise OverlayError("clock hook: expected %d occurrence(s) of %r in %s, found %d" % (count, old, name, text.count(old)))
            text = text.replace(old, new)
        dst = os.path.join(odir, name)
        with open(dst, "w", encoding="utf-8") as f:
            f.write(text)
        repl[src] = dst
    for name in sorted(os.listdir(os.path.join(HARNESS, "inpkg"))):
        if name.endswith(".go"):
            repl[os.path.join(REPO, "pkg", "lmd", "zz_verif_" + name)] = os.path.join(HARNESS, "inpkg", name)
    path = os.path.join(BUILD, "overlay.json")
    with open(path, "w") as f:
        json.dump({"Replace": repl}, f)
    return path


def build_harness(race=False):
    """build lmdharness from /repo's working tree; returns (binary, error)"""
    os.makedirs(BUILD, exist_ok=True)
    with BuildLock("harness"):
        fp = repo_fingerprint() + ("-race" if race else "")
        binary = os.path.join(BUILD, "lmdharness" + ("-race" if race else ""))
        stamp = binary + ".stamp"
        if os.path.exists(binary) and os.path.exists(stamp) and open(stamp).read() == fp:
            return binary, None
        for stale in (binary, stamp):
            if os.path.exists(stale):
                os.remove(stale)
        shutil.copy(os.path.join(REPO, "pkg", "lmd", "go.sum"), os.path.join(HARNESS, "go.sum"))
        try:
            overlay = write_overlay()
        except OverlayError as e:
            return None, str(e)
        cmd = ["go", "build", "-tags", "verif", "-overlay", overlay, "-o", binary]
        env = dict(GOENV)
        if race:
            cmd += ["-race", "-gcflags=all=-d=checkptr=0"]
            env["CGO_ENABLED"] = "1"
        cmd.append("./cmd/lmdharness")
        rc, out, err = sh(cmd, cwd=HARNESS, env=env)
        if rc != 0:
            return None, (out + err)[-4000:]
        with open(stamp, "w") as f:
            f.write(fp)
        return binary, None


def dump_schema(binary):
    path = os.path.join(BUILD, "schema.json")
    rc, out, err = sh([binary, "dump-schema"])
    if rc != 0:
        raise RuntimeError("dump-schema failed: " + err[-2000:])
    with BuildLock("schema"):
        with open(path + ".tmp", "w") as f:
            f.write(out)
        os.replace(path + ".tmp", path)
    return path, json.loads(out)


def lake_build(targets):
    with BuildLock("lake"):
        rc, out, err = sh(["lake", "build"] + targets, cwd=LEAN, timeout=3600)
    return rc, out + err


def model_binary():
    return os.path.join(LEAN, ".lake", "build", "bin", "lmdmodel")


def audit_axioms(prop_id):
    """run Lmd/Audit/<ID>.lean: one `#print axioms` per property theorem; returns (theorems, problems)"""
    path = os.path.join(LEAN, "Lmd", "Audit", prop_id + ".lean")
    if not os.path.exists(path):
        return [], ["no audit file for " + prop_id]
    with BuildLock("lake"):
        rc, out, err = sh(["lake", "env", "lean", path], cwd=LEAN, timeout=1800)
    text = out + err
    theorems, problems = [], []
    if rc != 0:
        problems.append("audit file failed: " + text[-1500:])
    for m in re.finditer(r"'([^']+)' (depends on axioms: \[([^\]]*)\]|does not depend on any axioms)", text):
        name = m.group(1)
        axioms = [a.strip() for a in (m.group(3) or "").split(",") if a.strip()]
        theorems.append({"theorem": name, "axioms": axioms})
        bad = [a for a in axioms if a not in ALLOWED_AXIOMS]
        if bad:
            problems.append("%s uses axioms %s" % (name, bad))
    return theorems, problems


FORBIDDEN = re.compile(r"\b(sorry|admit|native_decide|bv_decide|implemented_by|unsafe)\b|^axiom |maxHeartbeats 0")


def grep_gate():
    """no sorry / admit / axiom / native_decide ... outside comments in the Lean sources"""
    problems = []
    for root, dirs, files in os.walk(LEAN):
        dirs[:] = [d for d in dirs if d != ".lake"]
        for name in files:
            if not name.endswith(".lean"):
                continue
            path = os.path.join(root, name)
            in_block = 0
            for ln, line in enumerate(open(path, encoding="utf-8"), 1):
                code = line
                # strip block comments (non-nested is enough for our sources) and line comments
                out = ""
                i = 0
                while i < len(code):
                    if code.startswith("/-", i):
                        in_block += 1
                        i += 2
                    elif code.startswith("-/", i) and in_block:
                        in_block -= 1
                        i += 2
                    elif in_block:
                        i += 1
                    elif code.startswith("--", i):
                        break
                    else:
                        out += code[i]
                        i += 1
                if FORBIDDEN.search(out):
                    problems.append("%s:%d: %s" % (os.path.relpath(path, VERIF), ln, line.strip()))
    return problems


# ---------------------------------------------------------------------------------------------
# running cases

def _run_once(binary, lines, scratch, timeout):
    inp = "\n".join(json.dumps(l) for l in lines) + "\n"
    env = dict(os.environ, VERIF_SCRATCH=scratch, GOMEMLIMIT="4GiB")
    try:
        p = subprocess.run([binary, "run"], input=inp.encode(), stdout=subprocess.PIPE, stderr=subprocess.PIPE, env=env, timeout=timeout)
        rc, out, err, timed_out = p.returncode, p.stdout.decode("utf-8", "replace"), p.stderr.decode("utf-8", "replace"), False
    except subprocess.TimeoutExpired as e:
        rc, out, err, timed_out = -9, (e.stdout or b"").decode("utf-8", "replace"), (e.stderr or b"").decode("utf-8", "replace"), True
    if rc == 0 and re.search(r"\]\s*Panic:|^panic:|^fatal error:", err, re.M):
        rc = 1     # the process ended before the panicking goroutine reached its os.Exit
    results = {}
    for l in out.split("\n"):
        try:
            r = json.loads(l)
        except ValueError:
            continue
        if r.get("op") == "dataset":
            if "error" in r:
                results[("dataset", r["id"])] = r
            continue
        results[r["id"]] = r
    return rc, results, err, timed_out


def panic_excerpt(err):
    keep = [l for l in err.splitlines() if "Panic:" in l or "panic:" in l or "fatal error" in l]
    m = re.search(r"Stacktrace:(.*?)(?:created by|\Z)", err, re.S)
    stack = ""
    if m:
        stack = "\n".join(x for x in m.group(1).splitlines() if ".go:" in x or "lmd." in x)[:1200]
    if not stack:
        # Daemon.logPanicExit prints the stack without a heading: take the code locations that follow the panic line
        lines = err.splitlines()
        for i, l in enumerate(lines):
            if "Panic:" in l or "panic:" in l or "fatal error" in l:
                stack = "\n".join(x.strip() for x in lines[i + 1:i + 80] if ".go:" in x or "lmd." in x)[:1500]
                break
    return ("\n".join(keep[:3]) + "\n" + stack)[:2400]


OBSERVATION_OPS = ("query", "session")
WORLD_START_OPS = ("dataset", "world")


def _prefix_for(lines, idx):
    """the context (non-observation) lines from the last world start up to, not including, position idx"""
    start = 0
    for i in range(idx, -1, -1):
        if lines[i].get("op") in WORLD_START_OPS:
            start = i
            break
    return [l for l in lines[start:idx] if l.get("op") not in OBSERVATION_OPS]


def run_impl(binary, lines, scratch, timeout=600):
    """feed JSON lines to lmdharness.  lmd's worker goroutines end a panic with os.Exit *after* releasing
    the request's wait group, so the process may die a few cases after the one that panicked: on a
    crash the last few started cases are re-run alone (with the context lines of their world) to find
    the culprit, the rest continues in a fresh process.  Returns {id: result}."""
    results = {}
    pending = list(lines)
    guard = 0
    while pending and guard < 400:
        guard += 1
        rc, res, err, timed_out = _run_once(binary, pending, scratch, timeout)
        if rc == 0 and not timed_out:
            for k, r in res.items():
                results.setdefault(k, r)
            break
        if os.environ.get("VERIF_DEBUG"):
            open("/scratch/impl_err_%d.log" % guard, "w").write(err)
            sys.stderr.write("run_impl: rc=%s timed_out=%s\n" % (rc, timed_out))
        started = [int(m.group(1)) for m in re.finditer(r"@start (\d+)", err)]
        pos = {l["id"]: i for i, l in enumerate(pending) if "id" in l}
        started = [s for s in started if s in pos]
        if not started:
            for l in pending:
                if l.get("op") not in WORLD_START_OPS and l.get("id") not in results:
                    results[l["id"]] = {"id": l["id"], "crash": True, "stderr": panic_excerpt(err) or err[-1500:], "outside_case": True}
            break
        suspects = started[-4:]
        first_suspect_pos = pos[suspects[0]]
        for cid, r in res.items():
            if isinstance(cid, tuple) or (cid in pos and pos[cid] < first_suspect_pos):
                results.setdefault(cid, r)
        poisoned_from = None
        for sid in suspects:
            if sid in results:
                continue
            i = pos[sid]
            solo = _prefix_for(pending, i) + [pending[i]]
            rc1, res1, err1, to1 = _run_once(binary, solo, scratch, min(timeout, 180))
            if rc1 == 0 and not to1 and sid in res1:
                results[sid] = res1[sid]
            else:
                results[sid] = {"id": sid, "crash": True, "timeout": to1, "stderr": panic_excerpt(err1) or err1[-1500:]}
                if pending[i].get("op") not in OBSERVATION_OPS and poisoned_from is None:
                    poisoned_from = i     # a context step crashed: the rest of this world cannot be continued
        last_pos = pos[started[-1]]
        if poisoned_from is not None:
            # skip to the next world start
            j = poisoned_from + 1
            while j < len(pending) and pending[j].get("op") not in WORLD_START_OPS:
                if "id" in pending[j] and pending[j]["id"] not in results:
                    results[pending[j]["id"]] = {"id": pending[j]["id"], "skipped": True, "error": "an earlier step of this world crashed"}
                j += 1
            pending = pending[j:]
            continue
        rest = pending[last_pos + 1:]
        pending = _prefix_for(pending, last_pos + 1) + rest if rest else []
    return results


def _parse_model_out(text):
    results = {}
    for l in text.split("\n"):
        try:
            r = json.loads(l)
        except ValueError:
            continue
        if isinstance(r, dict) and "id" in r:
            results[r["id"]] = r
    return results


def run_model(schema_path, lines, timeout=1200, batch_timeout=240, line_timeout=20):
    """the model's answers by id.  The whole stream is tried first; when that takes too long (the reference regex engine is
    quadratic on some inputs) the lines are fed one at a time and a line the model does not answer within line_timeout
    is answered 'unsupported' (the case is then not compared) - a slow model is not a verdict about the code."""
    inp = "\n".join(json.dumps(l) for l in lines) + "\n"
    try:
        p = subprocess.run([model_binary(), schema_path], input=inp.encode(), stdout=subprocess.PIPE, stderr=subprocess.PIPE, timeout=min(timeout, batch_timeout))
        if p.returncode != 0:
            raise RuntimeError("lmdmodel failed: " + p.stderr.decode("utf-8", "replace")[-2000:])
        return _parse_model_out(p.stdout.decode("utf-8", "replace"))
    except subprocess.TimeoutExpired:
        pass
    import select
    results = {}
    skipped = set()

    def start(upto):
        proc = subprocess.Popen([model_binary(), schema_path], stdin=subprocess.PIPE, stdout=subprocess.PIPE, stderr=subprocess.DEVNULL)
        # rebuild the state: everything before, except the lines that were too slow
        for k in range(upto):
            if k in skipped:
                continue
            if not feed(proc, lines[k], None, 300):
                raise RuntimeError("lmdmodel: replaying the context after a slow line failed")
        return proc

    def feed(proc, line, sink, limit):
        proc.stdin.write((json.dumps(line) + "\n" + json.dumps({"op": "ping", "id": 0}) + "\n").encode())
        proc.stdin.flush()
        end = time.time() + limit
        buf = b""
        while True:
            left = end - time.time()
            if left <= 0:
                return False
            r, _, _ = select.select([proc.stdout], [], [], left)
            if not r:
                return False
            chunk = os.read(proc.stdout.fileno(), 1 << 16)
            if not chunk:
                return False
            buf += chunk
            while b"\n" in buf:
                l, buf = buf.split(b"\n", 1)
                try:
                    obj = json.loads(l.decode("utf-8", "replace"))
                except ValueError:
                    continue
                if isinstance(obj, dict) and "pong" in obj:
                    return True
                if sink is not None and isinstance(obj, dict) and "id" in obj:
                    sink[obj["id"]] = obj

    proc = start(0)
    for k, line in enumerate(lines):
        if feed(proc, line, results, line_timeout):
            continue
        proc.kill()
        skipped.add(k)
        if "id" in line:
            results[line["id"]] = {"id": line["id"], "op": line.get("op"), "parse": "unsupported", "unsupported": True, "why": "the model did not answer within %d s" % line_timeout}
        proc = start(k + 1)
    proc.stdin.close()
    proc.kill()
    return results


# ---------------------------------------------------------------------------------------------
# canonical forms

def canon(v):
    """canonical text of a JSON value: numbers rounded to 6 decimals, object keys sorted"""
    if isinstance(v, bool):
        return "true" if v else "false"
    if isinstance(v, (int, float)):
        r = round(float(v), 6)
        if r == int(r):
            return str(int(r))
        return repr(r)
    if v is None:
        return "null"
    if isinstance(v, str):
        return json.dumps(v, ensure_ascii=False)
    if isinstance(v, list):
        return "[" + ",".join(canon(x) for x in v) + "]"
    if isinstance(v, dict):
        return "{" + ",".join(json.dumps(k, ensure_ascii=False) + ":" + canon(v[k]) for k in sorted(v)) + "}"
    return json.dumps(v)


def accept_window(pool, offset, limit, result):
    """pool: list of (class, canon row); is `result` a valid window [offset, offset+limit) of a sort of pool?"""
    rest = pool[offset:] if offset <= len(pool) else []
    expected = len(rest) if limit is None else min(limit, len(rest))
    if len(result) != expected:
        return False, "length %d, expected %d" % (len(result), expected)
    avail = {}
    for c, r in pool:
        avail[(c, r)] = avail.get((c, r), 0) + 1
    for i, row in enumerate(result):
        c = rest[i][0]
        if avail.get((c, row), 0) <= 0:
            return False, "row %d %s is not a row of tie class %d" % (i, row[:200], c)
        avail[(c, row)] -= 1
    return True, ""


# ---------------------------------------------------------------------------------------------
# findings, evidence, verdict output

def load_known_findings():
    path = os.path.join(VERIF, "known_findings.json")
    if not os.path.exists(path):
        return []
    return json.load(open(path)).get("findings", [])


def write_evidence(prop_id, tier, seed, level, coverage, assumptions, wall, violations):
    os.makedirs(os.path.join(VERIF, "evidence"), exist_ok=True)
    ev = {"property_id": prop_id, "tier": tier, "seed": seed, "level": level, "coverage": coverage,
          "assumptions": assumptions, "wall_s": round(wall, 2), "violations": violations}
    path = os.path.join(VERIF, "evidence", prop_id + ".json")
    with open(path + ".tmp", "w") as f:
        json.dump(ev, f, indent=1, ensure_ascii=False)
    os.replace(path + ".tmp", path)
    return path


def write_replay(prop_id, seed, payload):
    os.makedirs(os.path.join(VERIF, "replays"), exist_ok=True)
    name = "%s-seed%s-%s.json" % (prop_id, seed, hashlib.sha256(json.dumps(payload, sort_keys=True).encode()).hexdigest()[:10])
    path = os.path.join(VERIF, "replays", name)
    with open(path, "w") as f:
        json.dump(payload, f, indent=1, ensure_ascii=False)
    return path


def case_hash(obj):
    return hashlib.sha256(json.dumps(obj, sort_keys=True).encode()).hexdigest()[:16]
