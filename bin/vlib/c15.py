"""C15: commands reach exactly the selected backends, in order.

Client sessions (COMMAND lines mixed with GET requests, keep-alive on and off, Backends headers) are sent over a
real socket to the real ClientConnection of a daemon whose peers are wired to scripted backends that record the
commands of every connection.  What the client reads, what every backend received (per connection), the peer
bookkeeping afterwards and the next update tick are compared with Lmd.sessionEvents / Lmd.peerSend."""

import json
import os
import random
import re

from . import common, gen, queryfam, worldgen, worldfam

T0 = 1700000000

ARGS = ["SCHEDULE_FORCED_HOST_CHECK;h1;1700000000", "ACKNOWLEDGE_SVC_PROBLEM;h 1;svc;2;1;1;alice;some comment", "DISABLE_NOTIFICATIONS", "X;ü;€", "a:b:c", "400: looks like a reply",
        "TAB\there", "  two  spaces", "CHANGE_CUSTOM_HOST_VAR;h;_V;" + "v" * 300, "[brackets] ;; ;", "GET hosts", "COMMAND [1] nested"]
HARMLESS = ["ResponseHeader: fixed16", "OutputFormat: json", "Localtime: 1700000000", "AuthUser: alice", "Limit: 5", "Columns: name", "ColumnHeaders: off", "Sort: name asc", "WaitTrigger: all"]
BAD_CHUNKS = ["COMMAND nobracket\n\n", "COMMAND [x] y\n\n", "COMMAND [] y\n\n", "COMMAND\n\n", "COMMAND [1] a\nFilter: name = x\n\n", "COMMAND [1] a\nStats: state = 0\n\n", "COMMAND [1] a\nNoSuchHeader: 1\n\n",
              "COMMAND [1] a\nnocolon\n\n", "COMMAND [1] a\nKeepAlive: maybe\n\n", "COMMAND [1] a\nLimit: -1\n\n", "GARBAGE\n\n", "GET nosuchtable\n\n", "GET hosts\nLimit: x\n\n", "COMMAND [1] a\nAnd: 1\n\n"]
REPLIES = ["400: bad command", "404: host not found", "400:nospace", "abc: not a number", "452: ", "no colon at all", "500: a: b: c", " 401 : spaces "]
GETS = ["GET sites\nColumns: peer_key status\nResponseHeader: fixed16\nOutputFormat: json\n", "GET hosts\nColumns: name state peer_key\nResponseHeader: fixed16\nOutputFormat: wrapped_json\n"]

HEADER_RE = re.compile(r"^(\d{3}) +(\d+)\n$")


def split_output(raw):
    """the bytes the client read: fixed16 framed answers and plain lines"""
    data = raw.encode("utf-8", "surrogateescape") if isinstance(raw, str) else raw
    segs = []
    i = 0
    while i < len(data):
        head = data[i:i + 16]
        m = HEADER_RE.match(head.decode("latin-1")) if len(head) == 16 else None
        if m:
            size = int(m.group(2))
            body = data[i + 16:i + 16 + size]
            segs.append(("answer", int(m.group(1)), body.decode("utf-8", "replace"), len(body) == size))
            i += 16 + size
        else:
            j = data.find(b"\n", i)
            if j < 0:
                j = len(data) - 1
            segs.append(("line", data[i:j].decode("utf-8", "replace")))
            i = j + 1
    return segs


def gen_session(rng, ids, allow_bad):
    chunks = []
    nreq = rng.choice([1, 2, 3, 4, 6, 9])
    ts = 1700000000
    for k in range(nreq):
        r = rng.random()
        if r < 0.68:
            ts += rng.choice([0, 1, 5])
            arg = rng.choice(ARGS)
            if rng.random() < 0.12:
                # a check result with a long output: the command line is longer than the 4 KiB the connection's reader holds at once
                arg = "PROCESS_SERVICE_CHECK_RESULT;host_%d;svc;0;%s" % (k, ("out=%d;/srv/data/volume " % k) * rng.choice([150, 230, 400]))
            first = "COMMAND%s[%d] %s" % (rng.choice([" ", " ", " ", "  "]), ts, arg)
            if rng.random() < 0.1:
                first += rng.choice([" ", "  ", "\t"])
            hdrs = []
            if rng.random() < 0.5:
                sel = [i for i in ids if rng.random() < 0.6]
                if rng.random() < 0.15:
                    sel.append("nosuch")
                if rng.random() < 0.1 and sel:
                    sel.append(sel[0])
                rng.shuffle(sel)
                hdrs.append("Backends: " + " ".join(sel))
            if rng.random() < 0.45:
                hdrs.append("KeepAlive: " + rng.choice(["on", "on", "off"]))
            if rng.random() < 0.2:
                hdrs.append(rng.choice(HARMLESS))
            rng.shuffle(hdrs)
            chunks.append(first + "\n" + "".join(h + "\n" for h in hdrs) + "\n")
        elif r < 0.93 or not allow_bad:
            g = rng.choice(GETS)
            if rng.random() < 0.3:
                g += "Backends: " + " ".join(i for i in ids if rng.random() < 0.7) + "\n"
            if rng.random() < 0.8:
                g += "KeepAlive: on\n"
            chunks.append(g + "\n")
        else:
            chunks.append(rng.choice(BAD_CHUNKS))
    return chunks


def run(ctx, spec, out):
    rng = random.Random("C15-%d" % ctx["seed"])
    v = out.v
    schema = ctx["schema"]
    nworlds = 30 if ctx["tier"] == "quick" else 400
    slow_budget = 0 if ctx["tier"] == "quick" else 6     # scenarios with a waiting sender (real seconds each)
    impl_lines, model_lines = [], []
    worlds = []
    nid = 0
    for wi in range(nworlds):
        nb = rng.choice([1, 2, 2, 3])
        wbs, states = [], {}
        wflags = {}
        for i in range(nb):
            wb, flags = worldfam.small_world(rng, schema, {"nhosts": [1, 2]})
            wb["id"], wb["name"] = "b%d" % i, "Backend %d" % i
            wb["sources"] = ["self"]
            wbs.append(wb)
            wflags[wb["id"]] = flags
        ids = [wb["id"] for wb in wbs]
        cfg = {"update_interval": rng.choice([5, 7, 10]), "stale_backend_timeout": rng.choice([10, 30]), "idle_timeout": 100000, "idle_interval": 1800,
               "max_parallel_peer_connections": 1, "backend_keepalive": False, "net_timeout": 5, "connect_timeout": 2}
        h = worldfam.History(schema, nid)
        h.both({"op": "clock", "seconds": T0})
        h.both({"op": "world", "world": {"config": cfg, "backends": wbs}})
        plan = {}
        for pid in ids:
            kind = rng.choice(["up", "up", "up", "up", "down", "rejecting", "closeearly", "failafter", "broken"])
            wbp = [w for w in wbs if w["id"] == pid][0]
            if kind == "broken" and ("Icinga2" in wflags[pid] or not wbp["tables"]["hosts"]["rows"]):
                kind = "up"
            plan[pid] = kind
            if kind == "down":
                h.both({"op": "mode", "backend": pid, "mode": "refuse"})
            h.both({"op": "init", "peer": pid}, "state")
            if kind == "rejecting":
                h.both({"op": "mode", "backend": pid, "cmd_reply": rng.choice(REPLIES)})
            elif kind == "closeearly":
                # half of the closing backends drop the connection with the rest of the request unread: the sender then reads
                # "connection reset by peer" instead of the end of the stream (the model knows no difference: the command was sent)
                h.both({"op": "mode", "backend": pid, "mode": "closeearly", "reset": rng.random() < 0.5})
            elif kind == "failafter":
                h.both({"op": "mode", "backend": pid, "fail_after": rng.choice([0, 1, 2, 3]), "fail_mode": "closeearly", "reset": rng.random() < 0.5})
            elif kind == "broken":
                # the backend lists one host more than lmd stored (no restart): the next full scan flags it broken
                row = json.loads(json.dumps(wbp["tables"]["hosts"]["rows"][-1]))
                row["name"] = "zz-more"
                h.both({"op": "mutate", "backend": pid, "changes": [{"table": "hosts", "add": row}]})
                h.both({"op": "advance", "seconds": 61})
                h.both({"op": "tick", "peer": pid}, "state")
        for pid in ids:
            h.both({"op": "backend_log", "backend": pid})      # drop what the synchronisation logged
        sessions = []
        for si in range(rng.choice([1, 2, 3])):
            h.both({"op": "advance", "seconds": rng.choice([1, 2, 3])})
            chunks = gen_session(rng, ids, allow_bad=rng.random() < 0.25)
            env, timeout = {}, 12.0
            sid = h.both({"op": "cmdsession", "text": "".join(chunks), "timeout": timeout, "env": env})
            logs = {pid: h.both({"op": "backend_log", "backend": pid}) for pid in ids}
            sts = {pid: h.both({"op": "state", "peer": pid}, "state") for pid in ids}
            # the backends answer again before the update runs: a peer in warning state would make the next sender wait (thorough tier)
            for pid in ids:
                if plan[pid] in ("closeearly", "failafter"):
                    h.both({"op": "mode", "backend": pid, "mode": "ok", "fail_after": 1000000, "fail_mode": "closeearly"})
            ticks = {pid: h.both({"op": "tick", "peer": pid}, "state") for pid in ids}
            for pid in ids:
                if plan[pid] == "closeearly" and si == 0 and rng.random() < 0.5:
                    h.both({"op": "mode", "backend": pid, "mode": "closeearly"})
            sessions.append({"id": sid, "chunks": chunks, "logs": logs, "states": sts, "ticks": ticks, "timeout": timeout})
        worlds.append((h, wbs, plan, sessions))
        nid = h.n
        impl_lines += h.impl
        model_lines += h.model
    # scenarios with a sender that waits (real seconds): connection refused then recovery, second failure, stale, never synchronised
    scenarios = ["recover", "retries_exceeded", "goes_down", "pending_then_up", "warning_then_up", "background_delivery"]
    nslow = 2 if ctx["tier"] == "quick" else 18
    for k in range(nslow):
        kind = scenarios[(k + ctx["seed"]) % len(scenarios)]
        if ctx["tier"] == "quick" and k == 1:
            # the scenario in which the sender outlives its client runs on every change (unless the rotation chose it already)
            kind = "background_delivery" if scenarios[ctx["seed"] % len(scenarios)] != "background_delivery" else "recover"
        wb, flags = worldfam.small_world(rng, schema, {"nhosts": [1, 2]})
        wb["id"], wb["name"], wb["sources"] = "b0", "Backend 0", ["self"]
        ui = rng.choice([5, 7])
        stale = 30 if kind != "goes_down" else 8
        cfg = {"update_interval": ui, "stale_backend_timeout": stale, "idle_timeout": 100000, "idle_interval": 1800,
               "max_parallel_peer_connections": 1, "backend_keepalive": False, "net_timeout": 5, "connect_timeout": 2}
        h = worldfam.History(schema, nid)
        h.both({"op": "clock", "seconds": T0})
        h.both({"op": "world", "world": {"config": cfg, "backends": [wb]}})
        ncmd = rng.choice([1, 2, 3])
        chunks = ["COMMAND [%d] %s\n\n" % (T0 + i, rng.choice(ARGS)) for i in range(ncmd)]
        after = []
        if kind == "pending_then_up":
            env = {"b0": ["tick"]}
        elif kind == "background_delivery":
            # the sender outlives the client: 202 after 9.5 s, the peer recovers later, the batch must then arrive once
            h.both({"op": "init", "peer": "b0"}, "state")
            h.both({"op": "advance", "seconds": ui + 1})
            h.both({"op": "mode", "backend": "b0", "mode": "garbage"})
            h.both({"op": "tick", "peer": "b0"}, "state")
            env = {}
            after = [{"op": "mode", "backend": "b0", "mode": "ok"}, {"op": "advance", "seconds": ui + 1}, {"op": "tick", "peer": "b0"}, {"op": "sleep", "timeout": 1.6}]
        else:
            h.both({"op": "init", "peer": "b0"}, "state")
            h.both({"op": "advance", "seconds": ui + 1})
            if kind == "recover":
                h.both({"op": "mode", "backend": "b0", "mode": "refuse"})
                env = {"b0": ["mode:ok", "tick"]}
            elif kind == "retries_exceeded":
                h.both({"op": "mode", "backend": "b0", "mode": "refuse"})
                env = {"b0": ["mode:ok", "tick+mode:refuse"]}
            elif kind == "goes_down":
                h.both({"op": "advance", "seconds": stale})
                h.both({"op": "mode", "backend": "b0", "mode": "refuse"})
                env = {"b0": ["tick"]}
            else:
                # warning_then_up: an update fails, the next one succeeds while the sender waits
                h.both({"op": "mode", "backend": "b0", "mode": "garbage"})
                h.both({"op": "tick", "peer": "b0"}, "state")
                h.both({"op": "advance", "seconds": ui + 1})
                env = {"b0": ["mode:ok", "tick"]}
        h.both({"op": "backend_log", "backend": "b0"})
        sid = h.both({"op": "cmdsession", "text": "".join(chunks), "timeout": 12.0, "env": env})
        logs = {"b0": h.both({"op": "backend_log", "backend": "b0"})}
        sts = {"b0": h.both({"op": "state", "peer": "b0"}, "state")}
        late = None
        if after:
            for line in after:
                h.both(line, "state" if line["op"] == "tick" else None)
            late = h.both({"op": "backend_log", "backend": "b0"})
        worlds.append((h, [wb], {"b0": "slow:" + kind}, [{"id": sid, "chunks": chunks, "logs": logs, "states": sts, "ticks": {}, "timeout": 12.0, "late_log": late}]))
        nid = h.n
        impl_lines += h.impl
        model_lines += h.model
    impl, model = worldfam.run_lines(ctx, impl_lines, model_lines)
    for h, wbs, plan, sessions in worlds:
        judge_world(v, h, wbs, plan, sessions, impl, model)
    out.extra_cov["worlds"] = nworlds
    out.extra_cov["backend_kinds"] = {k: sum(1 for _, _, p, _ in worlds for x in p.values() if x == k) for k in ("up", "down", "rejecting", "closeearly", "failafter", "broken")}


def expected_lines(result, last_errors):
    o = result.get("outcome")
    if o == "sent":
        return None
    if o == "rejected":
        return ["%d: %s" % (result.get("code", 0), result.get("msg", ""))]
    if o == "last_error":
        return ["500: %s" % e for e in last_errors.get(result["peer"], [""])]
    if o == "retries_exceeded":
        return ["500: sending command failed, number of retries exceeded"]
    if o == "waiting":
        return ["@timeout"]
    return ["?"]


def judge_world(v, h, wbs, plan, sessions, impl, model):
    case = {"text": json.dumps([s["chunks"] for s in sessions])[:300], "dataset": None, "extra": {"history": h.steps, "lines": h.impl, "plan": plan}}
    v.stats["evaluated"] += 1
    ok = True
    # a sender that is still waiting when the client gives up delivers later, in the background ("will continue in
    # background"): what happens in this world after such a session is not compared
    cutoff = None
    for s in sessions:
        if s.get("late_log"):
            continue
        m = model.get(s["id"]) or {}
        if any(r.get("outcome") == "waiting" for ev in m.get("events") or [] if ev["ev"] == "flush" for r in ev["results"]):
            cutoff = s["id"]
            v.bump("worlds cut after a waiting sender")
            break
    for i, (cid, kind, what) in enumerate(h.checks):
        if cutoff is not None and cid > cutoff:
            break
        if not worldfam.compare_state(v, case, i, what, impl.get(cid), model.get(cid)):
            ok = False
            break
    ncmds = 0
    for s in sessions:
        if cutoff is not None and s["id"] > cutoff:
            break
        a, m = impl.get(s["id"]) or {}, model.get(s["id"]) or {}
        ncmds += sum(1 for c in s["chunks"] if c.startswith("COMMAND ["))
        if a.get("crash"):
            v.violations.append(("crash", case, "the daemon crashed in a command session: %s" % a.get("stderr", "")[-400:]))
            return
        if m.get("unsupported"):
            v.stats["unsupported"] += 1
            continue
        if "events" not in m or "out" not in a:
            v.corr_broken.append((case, "missing result impl=%s model=%s" % (str(a)[:200], str(m)[:200])))
            continue
        waits = any(r.get("outcome") == "waiting" for ev in m["events"] if ev["ev"] == "flush" for r in ev["results"])
        nwaits = sum(1 for ev in m["events"] if ev["ev"] == "flush" and any(r.get("outcome") == "waiting" for r in ev["results"]))
        if a.get("timeout") and waits and 9.5 * nwaits > s.get("timeout", 5.0) - 1.5:
            v.bump("skipped: sender waits longer than the session was given")
            continue
        if a.get("timeout"):
            v.violations.append(("property", case, "the session did not end: %r" % a.get("out", "")[:200]))
            continue
        # (1) what every backend received, per connection
        waiting_peers = {r["peer"] for ev in m["events"] if ev["ev"] == "flush" for r in ev["results"] if r.get("outcome") == "waiting"}
        for pid, lid in s["logs"].items():
            if pid in waiting_peers:
                continue
            got = (impl.get(lid) or {}).get("batches") or []
            want = (model.get(lid) or {}).get("batches") or []
            if got != want:
                flat_got, flat_want = [c for b in got for c in b], [c for b in want for c in b]
                kind = "property" if (flat_got != flat_want and plan.get(pid) in ("up", "down", "rejecting", "broken")) else "corr"
                msg = "backend %s (%s) received %s, expected %s" % (pid, plan.get(pid), json.dumps(got)[:600], json.dumps(want)[:600])
                if kind == "property":
                    v.violations.append(("property", case, msg))
                else:
                    v.corr_broken.append((case, msg))
                ok = False
        if s.get("late_log"):
            got = (impl.get(s["late_log"]) or {}).get("batches") or []
            want = (model.get(s["late_log"]) or {}).get("batches") or []
            if got != want:
                v.violations.append(("property", case, "the client was told the commands continue in the background; after the backend recovered it had received %s, expected %s" % (json.dumps(got)[:400], json.dumps(want)[:400])))
                ok = False
        # (2) what the client read
        last_errors = {}
        for pid in s["logs"]:
            errs = []
            for src in (impl.get(s["states"][pid]) or {}, ):
                errs.append((src.get("state") or {}).get("last_error", ""))
            last_errors[pid] = errs
        segs = split_output(a["out"])
        pos = 0
        why = None
        for ev in m["events"]:
            kind = ev["ev"]
            if kind == "flush":
                cands = []
                for r in ev["results"]:
                    e = expected_lines(r, last_errors)
                    if e:
                        cands += e
                if "@timeout" in cands:
                    cands = ["202: sending command timed out but will continue in background"]
                if not cands:
                    continue
                hit = None
                for c in sorted(cands, key=lambda c: -c.count("\n")):
                    want = c.split("\n")
                    got = [x[1] if x[0] == "line" else None for x in segs[pos:pos + len(want)]]
                    if got == want:
                        hit = len(want)
                        break
                if hit is None:
                    why = "after sending commands the client should read one of %s, it read %s" % (cands, str(segs[pos:pos + 3])[:300])
                    break
                pos += hit
            elif kind == "answer":
                if pos >= len(segs) or segs[pos][0] != "answer" or not segs[pos][3]:
                    why = "request %d should be answered, the client read %s" % (ev["idx"], str(segs[pos:pos + 1])[:300])
                    break
                qcase = {"text": ev["text"], "optimize": True, "dataset": {"world": wbs}, "has_header_row": False, "dataset_hash": common.case_hash([h.steps, ev["idx"]]),
                         "extra": {"lines": h.impl, "session": s["chunks"]}}
                queryfam.evaluate_case(v, qcase, {"code": segs[pos][1], "body": segs[pos][2]}, ev["res"], set())
                v.stats["evaluated"] -= 1
                pos += 1
            elif kind in ("parse_error", "empty_request"):
                if pos >= len(segs) or segs[pos][0] != "line" or not segs[pos][1].startswith("bad request"):
                    why = "a request that does not parse should be answered with a bad request text, the client read %s" % str(segs[pos:pos + 1])[:300]
                    break
                pos += 1
        if why is None and pos != len(segs):
            why = "the client read more than expected: %s" % str(segs[pos:])[:300]
        if why:
            v.violations.append(("property", case, why + " (events %s)" % json.dumps([e if e["ev"] != "answer" else {"ev": "answer", "idx": e["idx"]} for e in m["events"]])[:600]))
            ok = False
    hh = common.case_hash(h.steps)
    if ncmds >= 2 and len(wbs) >= 1 and hh not in v.distinct:
        v.distinct.add(hh)
        v.stats["nontrivial"] += 1
    v.bump("commands", ncmds)
    if len(v.samples) < 3:
        v.samples.append({"plan": plan, "sessions": [s["chunks"] for s in sessions][:2]})
