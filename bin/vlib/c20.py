"""C20: a configuration reload keeps serving and applies exactly the changes.

A daemon is started the way mainLoop starts it (real initializeListeners / initializePeers, real update loops and
unix listeners) against scripted backends; the reload sequence of mainLoop is then run with edited configurations
(no-op, add / remove / rename a connection, point it at another backend or at a dead address, reorder, add / remove
a listener) while a client keeps querying.  Compared with Lmd.reloadPeers: the peer map (order, which Peer objects
were kept and which are new, names, sources, state, number of queries each peer sent - an unchanged peer sends none),
the open listeners, the sites table and host rows served through a real listener, and every answer the hammering
client got for the unchanged backends while the reload ran."""

import json
import os
import random

from . import common, gen, queryfam, worldfam

T0 = 1700000000
SITES = "GET sites\nColumns: peer_key peer_name status\nOutputFormat: wrapped_json\n\n"
HOSTS = "GET hosts\nColumns: peer_key name state\nOutputFormat: wrapped_json\n\n"


def run(ctx, spec, out):
    rng = random.Random("C20-%d" % ctx["seed"])
    v = out.v
    schema = ctx["schema"]
    nworlds = 12 if ctx["tier"] == "quick" else 150
    lines, worlds = [], []
    nid = 0
    for wi in range(nworlds):
        pool = {}
        pool_flags = {}

        def backend(i):
            if i not in pool:
                wb, fl = worldfam.small_world(rng, schema, {"nhosts": [1, 2]})
                pool_flags[i] = fl
                wb["id"], wb["name"], wb["sources"], wb["flags"] = "b%d" % i, "Backend %d" % i, ["self"], []
                pool[i] = wb
            return pool[i]

        def conn(c):
            wb = backend(int(c["id"][1:]))
            return {"id": c["id"], "name": c["name"], "sources": list(c["sources"]), "flags": list(c.get("flags", [])), "tables": wb["tables"]}

        conns = [{"id": "b%d" % i, "name": "Backend %d" % i, "sources": ["self"]} for i in range(rng.choice([1, 2, 2, 3]))]
        listen = ["l1"] if rng.random() < 0.7 else ["l1", "l2"]
        h = worldfam.History(schema, nid)
        h.both({"op": "clock", "seconds": T0})
        cfg = {"max_parallel_peer_connections": 1, "backend_keepalive": False, "idle_timeout": 100000, "net_timeout": 5, "connect_timeout": 2}
        h.both({"op": "daemon", "config": cfg, "backends": [conn(c) for c in conns], "listen": listen})
        steps = [{"kind": "start", "state": h.both({"op": "dstate"}), "conns": json.loads(json.dumps(conns)), "listen": list(listen), "queries": observe(h, listen, conns), "closed": []}]
        nextid = len(conns)
        script = ["sources2", "noop", "trim", "noop", "sources2", "trim"] if wi == 0 else None
        for si in range(len(script) if script else rng.choice([2, 4, 6])):
            old_conns, old_listen = json.loads(json.dumps(conns)), list(listen)
            kind = script[si] if script else rng.choice(["noop", "add", "remove", "rename", "resource", "reorder", "listener", "noop", "readd", "multi", "sources2", "trim", "trim", "flags"])
            edits = [kind] if kind != "multi" else [rng.choice(["add", "remove", "rename", "resource", "reorder", "listener", "sources2", "trim"]) for _ in range(2)]
            for e in edits:
                if e == "add" and len(conns) < 4:
                    conns.insert(rng.randrange(len(conns) + 1), {"id": "b%d" % nextid, "name": "Backend %d" % nextid, "sources": ["self"]})
                    nextid += 1
                elif e == "readd":
                    gone = [i for i in pool if "b%d" % i not in [c["id"] for c in conns]]
                    if gone and len(conns) < 4:
                        i = rng.choice(gone)
                        conns.append({"id": "b%d" % i, "name": "Backend %d" % i, "sources": ["self"]})
                elif e == "remove" and len(conns) > 1:
                    victim = rng.choice(conns)
                    # nobody may stay wired to a backend that disappears from the configuration (the model reads its objects from the peer)
                    if not any(c["sources"] == ["other:" + victim["id"]] for c in conns):
                        conns.remove(victim)
                elif e == "rename":
                    c = rng.choice(conns)
                    c["name"] = rng.choice(["Renamed", "Site é", c["name"] + " x", "Backend 0"])
                elif e == "resource":
                    c = rng.choice(conns)
                    others = [o["id"] for o in conns if o["id"] != c["id"] and o["sources"] == ["self"]]
                    choice = rng.choice(["other", "dead", "self"])
                    if any(o["sources"] == ["other:" + c["id"]] for o in conns):
                        choice = "self"
                    if choice == "other" and others:
                        c["sources"] = ["other:" + rng.choice(others)]
                    elif choice == "dead":
                        c["sources"] = ["dead"]
                    else:
                        c["sources"] = ["self"]
                elif e == "flags":
                    # the flags of a connection are part of its definition: a changed list means a new peer
                    # (a flag the backend has anyway: a flag it does not have makes lmd ask for columns the backend rejects)
                    cands = [c for c in conns if c["sources"][0] == "self" and "Naemon" in pool_flags.get(int(c["id"][1:]), [])]
                    if cands:
                        c = rng.choice(cands)
                        c["flags"] = [] if c.get("flags") else ["naemon"]
                elif e == "sources2":
                    # a second address: a dead one before or behind the backend's own
                    c = rng.choice(conns)
                    if c["sources"] == ["self"] and not any(o["sources"] == ["other:" + c["id"]] for o in conns):
                        # (the dead address behind the working one: which address a new peer tries first, and when it tries the
                        # next, is a matter of its update loop's timing, not of the reload)
                        c["sources"] = ["self", "dead"]
                elif e == "trim":
                    # the last of several addresses is taken away (the list only gets shorter)
                    cands = [c for c in conns if len(c["sources"]) > 1]
                    if cands:
                        c = rng.choice(cands)
                        c["sources"] = c["sources"][:-1]
                    else:
                        c = rng.choice(conns)
                        if c["sources"] == ["self"] and not any(o["sources"] == ["other:" + c["id"]] for o in conns):
                            c["sources"] = ["self", "dead"]
                elif e == "reorder":
                    rng.shuffle(conns)
                elif e == "listener":
                    if len(listen) == 1:
                        listen.append("l2" if "l2" not in listen else "l3")
                    else:
                        listen.remove(rng.choice(listen))
            # the clock stays frozen: the update loops of the running peers tick, but nothing is ever due, so every query a
            # backend receives is caused by the reload
            stay = [l for l in listen if l in old_listen]
            unchanged = [c["id"] for c in conns if c in old_conns]
            hammer = None
            if stay and unchanged:
                hammer = {"listener": stay[0], "text": "GET hosts\nColumns: peer_key name state\nBackends: %s\nOutputFormat: json\n\n" % " ".join(unchanged)}
                pre = h.both({"op": "dquery", "listener": stay[0], "text": hammer["text"], "optimize": True})
                hammer["pre"] = pre
            line = {"op": "reload", "backends": [conn(c) for c in conns], "listen": list(listen)}
            if hammer:
                line.update({"listener": hammer["listener"], "text": hammer["text"]})
            rid = h.both(line)
            st = h.both({"op": "dstate"})
            closed = [l for l in old_listen if l not in listen]
            closed_ids = [h.both({"op": "dquery", "listener": l, "text": SITES, "optimize": True}) for l in closed]
            steps.append({"kind": "+".join(edits), "reload": rid, "state": st, "conns": json.loads(json.dumps(conns)), "listen": list(listen), "old_conns": old_conns,
                          "queries": observe(h, listen, conns), "closed": closed_ids, "hammer": hammer})
        h.both({"op": "dstop"})
        worlds.append((h, steps, pool))
        nid = h.n
        lines += h.impl
    scratch = os.path.join(common.BUILD, "scratch-%d" % os.getpid())
    impl = common.run_impl(ctx["binary"], lines, scratch, timeout=2400)
    model = common.run_model(ctx["schema_path"], [dict(l, text=l["text"]) if False else l for l in lines if l["op"] not in ("dstop",)])
    for h, steps, pool in worlds:
        judge(v, h, steps, pool, impl, model)
    out.extra_cov["worlds"] = nworlds


OPTIONAL = {"text": None}


def observe(h, listen, conns):
    ids = []
    if OPTIONAL["text"] is None:
        # the columns a backend only has with certain capabilities: what a kept peer found out about its backend when it
        # connected must survive the reload
        cols = [c["name"] for c in h.schema.cols("hosts") if c.get("optional") and c["storage"] == "LocalStore"]
        OPTIONAL["text"] = "GET hosts\nColumns: peer_key name %s\nOutputFormat: wrapped_json\n\n" % " ".join(cols)
    for l in listen[:1]:
        ids.append(h.both({"op": "dquery", "listener": l, "text": OPTIONAL["text"], "optimize": True}))
    for l in listen:
        ids.append(h.query_d(l, SITES) if hasattr(h, "query_d") else h.both({"op": "dquery", "listener": l, "text": SITES, "optimize": True}))
        ids.append(h.both({"op": "dquery", "listener": l, "text": HOSTS, "optimize": True}))
    return ids


def judge(v, h, steps, pool, impl, model):
    v.stats["evaluated"] += 1
    case = {"text": json.dumps([s["kind"] for s in steps]), "dataset": None, "extra": {"lines": h.impl, "edits": [s["kind"] for s in steps]}}
    objects = {}       # impl object token -> model generation
    gens = {}
    for si, s in enumerate(steps):
        a, m = impl.get(s["state"]) or {}, model.get(s["state"]) or {}
        what = "after step %d (%s)" % (si, s["kind"])
        if a.get("crash") or any((impl.get(i) or {}).get("crash") for i in [s.get("reload")] if i):
            v.violations.append(("crash", case, "the daemon crashed %s: %s" % (what, (a.get("stderr") or "")[-300:])))
            return
        if "peers" not in a or "peers" not in m:
            v.corr_broken.append((case, "%s: missing state impl=%s model=%s" % (what, str(a)[:200], str(m)[:200])))
            return
        if s.get("reload") and not (impl.get(s["reload"]) or {}).get("settled"):
            v.violations.append(("property", case, "%s: a peer did not finish its synchronisation within 8 s" % what))
            return
        ap, mp = a["peers"], m["peers"]
        want_ids = [c["id"] for c in s["conns"]]
        if [p["id"] for p in ap] != want_ids:
            v.violations.append(("property", case, "%s: the peer map is %s, the configuration has %s" % (what, [p["id"] for p in ap], want_ids)))
            return
        if [p["id"] for p in mp] != want_ids:
            v.corr_broken.append((case, "%s: model peer map %s" % (what, [p["id"] for p in mp])))
            return
        for p, q, c in zip(ap, mp, s["conns"]):
            tok, g = p["object"], q["gen"]
            if objects.setdefault(tok, g) != g or gens.setdefault(g, tok) != tok:
                kept_impl = tok in objects and objects[tok] != g
                v.violations.append(("property", case, "%s: backend %s %s" % (what, p["id"], "kept its old peer although its definition changed" if kept_impl else "got a new peer although its definition is unchanged")))
                return
            src = os.path.basename((p.get("source") or [""])[0]).replace(".sock", "")
            if p["name"] != c["name"] or src != q["source"]:
                v.violations.append(("property", case, "%s: backend %s runs with name %r source %s, configured: %r %s" % (what, p["id"], p["name"], src, c["name"], q["source"])))
                return
            if p["status"] != q["status"] or p["has_data"] != q["has_data"]:
                v.violations.append(("property", case, "%s: backend %s status %s data %s, expected status %s data %s" % (what, p["id"], p["status"], p["has_data"], q["status"], q["has_data"])))
                return
            if p["queries"] != q["queries"]:
                kind = "property" if c in (s.get("old_conns") or []) else "corr"
                msg = "%s: backend %s was sent %s queries in total, expected %s%s" % (what, p["id"], p["queries"], q["queries"], " (an unchanged backend is not contacted by a reload)" if kind == "property" else "")
                if kind == "property":
                    v.violations.append(("property", case, msg))
                else:
                    v.corr_broken.append((case, msg))
                return
        if sorted(x.replace("listen-", "").replace(".sock", "") for x in a.get("listeners") or []) != sorted(m.get("listeners") or []):
            v.violations.append(("property", case, "%s: open listeners %s, configured %s" % (what, a.get("listeners"), m.get("listeners"))))
            return
        for cid in s["closed"]:
            r = impl.get(cid) or {}
            if not r.get("dial_error"):
                v.violations.append(("property", case, "%s: a listener that was removed from the configuration still answers" % what))
                return
        for qid in s["queries"]:
            r, mm = impl.get(qid) or {}, model.get(qid)
            if r.get("dial_error") or mm is None:
                v.violations.append(("property", case, "%s: a configured listener does not answer: %s" % (what, r.get("dial_error"))))
                return
            line = [l for l in h.impl if l["id"] == qid][0]
            qcase = {"text": line["text"], "optimize": True, "dataset": None, "has_header_row": False, "dataset_hash": common.case_hash([h.steps, qid]), "extra": {"lines": [l for l in h.impl if l["id"] <= qid], "step": what}}
            before = len(v.violations) + len(v.corr_broken)
            queryfam.evaluate_case(v, qcase, {"code": 200, "body": r.get("out", "")}, mm, set())
            v.stats["evaluated"] -= 1
            if len(v.violations) + len(v.corr_broken) > before:
                return
        hm = s.get("hammer")
        if hm:
            r = impl.get(s["reload"]) or {}
            pre = (impl.get(hm["pre"]) or {}).get("out")
            try:
                want = sorted(json.dumps(x) for x in json.loads(pre))
            except (TypeError, ValueError):
                want = None
            if r.get("hammer_errors"):
                v.violations.append(("property", case, "%s: a listener that stays configured refused a client during the reload: %s" % (what, r["hammer_errors"][:2])))
                return
            for ans in r.get("hammer_answers") or []:
                try:
                    got = sorted(json.dumps(x) for x in json.loads(ans))
                except ValueError:
                    got = None
                if want is not None and got != want:
                    v.violations.append(("property", case, "%s: while the reload ran a client asking for the unchanged backends read %s instead of %s" % (what, ans[:300], pre[:300])))
                    return
            v.bump("hammer answers", r.get("hammer_asked", 0))
    hh = common.case_hash(h.steps)
    if len(steps) >= 3 and hh not in v.distinct:
        v.distinct.add(hh)
        v.stats["nontrivial"] += 1
    for s in steps[1:]:
        v.bump("edit:" + s["kind"])
    if len(v.samples) < 3:
        v.samples.append({"edits": [s["kind"] for s in steps], "final": steps[-1]["conns"]})
