"""C09: no request and no backend reply can take the daemon down.

(i) exhaustive: every table x every column x every request construct, on a dataset that contains host comments /
    downtimes (missing service reference), backends of different flavours (optional columns absent);
(ii) a grammar based stream of malformed requests;
(iii) WaitTrigger / WaitObject / WaitCondition forms;
(iv) a real Peer against a scripted backend that misbehaves at every successive query of the initial
     synchronisation and of update runs.
Verdict per input: the worker process is alive, the request was answered (or refused) within the time limit,
and a control query afterwards is answered correctly."""

import json
import os
import random

from . import common, gen, worldgen, worldfam, queryfam

CONTROL = "GET hosts\nColumns: name\nOutputFormat: json\nSort: name asc\n\n"


def constructs(table, col):
    name = col["name"]
    yield "Columns: %s" % name
    yield "Columns: %s\nFilter: %s = x" % (name, name)
    yield "Columns: %s\nFilter: %s = 1" % (name, name)
    yield "Columns: %s\nFilter: %s = " % (name, name)
    yield "Columns: %s\nFilter: %s ~~ a" % (name, name)
    # patterns the optimiser cannot turn into a substring match: the compiled expression is used
    yield "Columns: %s\nFilter: %s ~ ^a.*b$\nFilter: %s !~~ A|B\nOr: 2" % (name, name, name)
    yield "Stats: %s ~~ ^x+$\nStats: %s !~ [ab]c" % (name, name)
    yield "Columns: %s\nFilter: %s >= 5" % (name, name)
    yield "Columns: %s\nFilter: %s !>= x" % (name, name)
    yield "Columns: %s\nFilter: %s < 3\nNegate:" % (name, name)
    yield "Columns: %s\nSort: %s asc" % (name, name)
    yield "Columns: name\nSort: %s desc\nLimit: 1" % name
    yield "Stats: sum %s" % name
    yield "Stats: avg %s\nStats: min %s\nStats: max %s" % (name, name, name)
    yield "Stats: %s = 1" % name
    yield "Stats: %s != x\nStats: %s ~ a\nStatsOr: 2" % (name, name)
    yield "Columns: %s\nStats: state = 0" % name
    yield "Columns: %s\nOutputFormat: wrapped_json\nColumnHeaders: on" % name
    if col["dtype"] == "CustomVarCol":
        yield "Columns: %s\nFilter: %s = FOO bar" % (name, name)
        yield "Columns: %s\nFilter: %s ~ FOO" % (name, name)
        yield "Columns: name\nSort: %s FOO asc" % name
        # variables the crash dataset has: A with a value, B as a name without a value (fewer values than names)
        yield "Columns: %s\nFilter: %s = B x\nFilter: %s != A 1\nOr: 2" % (name, name, name)
        yield "Columns: name\nSort: %s B desc\nSort: %s A asc" % (name, name)
        yield "Stats: %s ~~ B ^x+$\nStats: %s = A 1" % (name, name)


MALFORMED = [
    # a group over an aggregation (ended the daemon before fix 57)
    "GET services\nStats: avg latency\nStats: state = 0\nStatsOr: 2\n\n", "GET services\nStats: state = 0\nStats: sum latency\nStatsAnd: 2\n\n",
    "GET hosts\nStats: min latency\nStats: max latency\nStatsAnd: 2\nStatsNegate:\n\n", "GET hosts\nStats: state = 0\nStats: state = 1\nStatsOr: 2\nStats: avg latency\nStatsAnd: 2\n\n",
    "", "\n", "GET", "GET \n\n", "GET hosts", "GET  hosts\n\n", "GET Hosts\n\n", "get hosts\n\n", "GET hosts\nColumns\n\n", "GET hosts\n: x\n\n",
    "GET hosts\nFilter:\n\n", "GET hosts\nFilter: name\n\n", "GET hosts\nFilter: name =\n\n", "GET hosts\nFilter: name ?? x\n\n", "GET hosts\nFilter: state = abc\n\n",
    "GET hosts\nFilter: state = 99999999999999999999999999\n\n", "GET hosts\nFilter: state = -99999999999999999999\n\n", "GET hosts\nFilter: state = 1e400\n\n",
    "GET hosts\nFilter: state = NaN\n\n", "GET hosts\nFilter: latency = inf\n\n", "GET hosts\nFilter: name ~ (\n\n", "GET hosts\nFilter: name ~ [a\n\n", "GET hosts\nFilter: name ~~ *\n\n",
    "GET hosts\nFilter: name ~ " + "(" * 2000 + "\n\n", "GET hosts\nFilter: name ~ " + "a?" * 600 + "a" * 600 + "\n\n", "GET hosts\nAnd: 2\n\n", "GET hosts\nOr: -1\n\n", "GET hosts\nAnd: x\n\n",
    "GET hosts\nAnd: 99999999999999999999\n\n", "GET hosts\nNegate:\n\n", "GET hosts\nStatsNegate:\n\n", "GET hosts\nStatsAnd: 1\n\n", "GET hosts\nStats: \n\n", "GET hosts\nStats: sum\n\n",
    "GET hosts\nStats: sum nosuch\n\n", "GET hosts\nStats: avg name\n\n", "GET hosts\nStats: min groups\n\n", "GET hosts\nStats: max custom_variables\n\n", "GET hosts\nStats: state = 0\nStatsAnd: 0\n\n",
    "GET hosts\nStats: state = 0\nStatsAnd: 1\nStats: state = 0\nStats: has_been_checked = 1\nStatsAnd: 2\n\n",
    "GET hosts\nLimit: -1\n\n", "GET hosts\nLimit: 99999999999999999999\n\n", "GET hosts\nOffset: x\n\n", "GET hosts\nColumns: name\nLimit: 0\nOffset: 5\n\n",
    "GET hosts\nSort:\n\n", "GET hosts\nSort: name up\n\n", "GET hosts\nSort: nosuch asc\n\n", "GET hosts\nSort: custom_variables\n\n", "GET hosts\nSort: a b c d\n\n",
    "GET hosts\nOutputFormat: xml\n\n", "GET hosts\nResponseHeader: fixed17\n\n", "GET hosts\nKeepAlive: maybe\n\n", "GET hosts\nAuthUser:\n\n", "GET hosts\nBackends:\n\n",
    "GET hosts\nBackends: nope\n\n", "GET hosts\nBackends: nope nope\nOutputFormat: json\n\n", "GET nosuchtable\n\n", "GET log\nColumns: time\nSort: message asc\n\n", "GET log\nColumns: time peer_key\n\n",
    "GET columns\n\n", "GET tables\nColumns: name\n\n", "GET sites\n\n", "GET backends\nColumns: key flags configtool\n\n", "GET status\n\n", "GET hostsbygroup\n\n", "GET servicesbygroup\nFilter: servicegroup_name = x\n\n",
    "COMMAND [0] test\n\n", "COMMAND test\n\n", "COMMAND [abc] x\n\n", "GET hosts\nColumns: " + "name " * 5000 + "\n\n", "GET hosts\nFilter: name = " + "x" * 100000 + "\n\n",
    "GET hosts\n" + "Filter: state = 0\n" * 3000 + "And: 3000\n\n", "\x00\x01\x02\xff\xfe binary\n\n", "GET hosts\nFilter: name = \x00\xff\n\n", "GET hosts\nColumns: name\nFilter: name = a\nOr: 1\nAnd: 1\nNegate:\nNegate:\n\n",
    "GET services\nWaitTrigger: all\nWaitObject: nosemicolon\nWaitTimeout: 30\n\n", "GET services\nWaitTrigger: all\nWaitObject: a;b\nWaitCondition: state = 0\nWaitTimeout: 30\n\n",
    "GET hosts\nWaitTrigger: check\nWaitObject: nosuchhost\nWaitTimeout: 30\n\n", "GET hosts\nWaitTrigger: check\nWaitCondition: state = 0\nWaitConditionNegate:\nWaitTimeout: 30\n\n",
    "GET hosts\nWaitCondition: state\n\n", "GET hosts\nWaitTimeout: 0\n\n", "GET comments\nWaitTrigger: all\nWaitObject: 1\nWaitTimeout: 30\n\n", "GET hostgroups\nWaitTrigger: all\nWaitObject: x\nWaitCondition: name = x\nWaitTimeout: 30\n\n",
    "GET contacts\nFilter: custom_variables = FOO bar\n\n", "GET comments\nFilter: service_custom_variables = FOO bar\n\n", "GET downtimes\nColumns: service_custom_variables host_custom_variables\n\n",
]


COMMAND_HEADERS = [
    "Filter: name = a", "Filter: state = 0", "Filter: x", "Filter:", "And: 1", "Or: 2", "Negate:", "Stats: state = 0", "Stats: sum state", "Stats: avg name", "Stats:",
    "StatsAnd: 1", "StatsOr: 2", "StatsNegate:", "Sort: name asc", "Sort: custom_variables X desc", "Sort:", "Limit: 1", "Limit: -1", "Offset: 3", "Backends: a", "Backends:",
    "Columns: name state", "Columns:", "ResponseHeader: fixed16", "ResponseHeader: off", "OutputFormat: json", "OutputFormat: wrapped_json", "OutputFormat: x", "WaitTimeout: 10",
    "WaitTrigger: all", "WaitObject: a;b", "WaitObject: a", "WaitCondition: state = 0", "WaitCondition: name", "WaitConditionAnd: 1", "WaitConditionOr: 1", "WaitConditionNegate:",
    "KeepAlive: on", "KeepAlive: x", "ColumnHeaders: on", "Localtime: 1", "AuthUser: alice", "AuthUser:", "Unknown: x", "nocolon",
    "Filter: name = a\nFilter: state = 1\nOr: 2\nNegate:", "Stats: state = 0\nStats: state = 1\nStatsAnd: 2", "WaitTrigger: all\nWaitObject: a\nWaitCondition: state = 0\nWaitTimeout: 5",
]


def crash_dataset(rng):
    ds = gen.gen_dataset(rng, {"nbackends": [3], "nhosts": [2, 3], "nsvcs": [1, 2]})
    # make sure host comments / downtimes (no service reference) exist, and flavours differ
    for i, b in enumerate(ds["backends"]):
        # the flavour (flags and the optional columns that go with them) is the generator's choice: overriding the flags
        # afterwards would leave columns in the data that the importer rejects for that flavour
        # value shapes a backend may send: fewer custom variable values than names, and the other way round
        for tname in ("hosts", "services"):
            t = b["tables"][tname]
            if "custom_variable_names" in t["cols"] and "custom_variable_values" in t["cols"] and t["rows"]:
                ni, vi = t["cols"].index("custom_variable_names"), t["cols"].index("custom_variable_values")
                t["rows"][0][ni], t["rows"][0][vi] = ["A", "B"], ["1"]
                if len(t["rows"]) > 1:
                    t["rows"][1][ni], t["rows"][1][vi] = ["A"], ["1", "2"]
        hosts = b["tables"]["hosts"]["rows"]
        if hosts:
            hn = hosts[0][b["tables"]["hosts"]["cols"].index("name")]
            ct = b["tables"]["comments"]
            ct["rows"].append([9000 + i] + [hn, ""] + ["alice", "host comment", 1, 1, 0, 0, 0, 0, 1, 0])
            dt = b["tables"]["downtimes"]
            dt["rows"].append([9100 + i] + [hn, ""] + ["alice", "host downtime", 1, 1, 2, 1, 60, 0, 1, 0])
    return ds


def run(ctx, spec, out):
    rng = random.Random("C09-%d" % ctx["seed"])
    v = out.v
    schema = ctx["schema"]
    scratch = os.path.join(common.BUILD, "scratch-%d" % os.getpid())
    ds = crash_dataset(rng)
    lines = [{"op": "dataset", "id": 1, "dataset": ds}]
    cases = {}
    n = 1

    def add(text, kind, optimize=True):
        nonlocal n
        n += 1
        lines.append({"op": "query", "id": n, "text": text, "optimize": optimize})
        cases[n] = {"text": text, "optimize": optimize, "dataset": ds, "extra": {"kind": kind}}
        return n

    # (i) exhaustive dispatch enumeration
    tables = [t["name"] for t in schema.raw["tables"]]
    step = 1 if ctx["tier"] == "thorough" else 1
    controls = []
    for table in tables:
        if table == "log":
            continue
        for col in schema.cols(table):
            for body in constructs(table, col):
                add("GET %s\n%s\n\n" % (table, body), "dispatch")
        controls.append(add(CONTROL, "control"))
    # (ii) malformed requests, both parse modes
    for text in MALFORMED:
        if "WaitTrigger" in text or text.startswith("GET log"):
            continue      # these contact the (absent) backend of the imported peers: run in their own dataset below
        add(text, "malformed", True)
        add(text, "malformed", False)
    for _ in range(300 if ctx["tier"] == "quick" else 3000):
        base = rng.choice([gen.gen_data_query(rng, schema, ds, {"depth": [0, 1, 2], "sort": 0.3, "limit": 0.3}), gen.gen_stats_query(rng, schema, ds, {})])
        b = bytearray(base.replace("GET log", "GET hosts").encode("utf-8"))
        for _ in range(rng.choice([1, 2, 4])):
            if len(b) == 0:
                break
            r = rng.random()
            if r < 0.4 and len(b) > 10:
                i = rng.randrange(len(b))
                b[i] = rng.choice([0, 10, 32, 58, 126, 255, b[i] ^ 0x20])
            elif r < 0.6 and len(b) > 10:
                i = rng.randrange(len(b))
                del b[i:i + rng.choice([1, 3, 10])]
            elif r < 0.8:
                i = rng.randrange(len(b))
                b[i:i] = rng.choice([b"Negate:\n", b"And: 2\n", b"StatsAnd: 3\n", b"Or: 0\n", b"\n", b"Filter: \n", b"Sort: x\n", b"Limit: 18446744073709551616\n"])
            else:
                b = b[:rng.randrange(len(b))]
        add(b.decode("utf-8", "replace"), "mutated")
    # (ii-b) COMMAND requests carrying every header a GET request may carry (a command has no table)
    for hdr in COMMAND_HEADERS:
        for first in ("COMMAND [0] X", "COMMAND [1700000000] SCHEDULE_FORCED_HOST_CHECK;h;1"):
            add("%s\n%s\n\n" % (first, hdr), "command-header")
    for text in ["COMMAND\n\n", "COMMAND \n\n", "COMMAND [x] y\n\n", "COMMAND [] y\n\n", "COMMAND [1]\n\n", "COMMAND  [1] y \n\n", "COMMAND [1] y\nGET hosts\n\n", "COMMAND [1] \xff\x00\n\n"]:
        add(text, "command-header")
    controls.append(add(CONTROL, "control"))
    impl = common.run_impl(ctx["binary"], lines, scratch, timeout=900)
    model = common.run_model(ctx["schema_path"], [l for l in lines if l["id"] == 1 or l["id"] in controls])
    judge(v, cases, impl, model, controls)

    # (iii) Wait* forms: each in its own dataset, they contact the (absent) backend of the imported peers
    wl, wcases = [], {}
    n = 0
    for text in [t for t in MALFORMED if "WaitTrigger" in t or t.startswith("GET log")]:
        n += 1
        wl.append({"op": "dataset", "id": n, "dataset": ds})
        n += 1
        wl.append({"op": "query", "id": n, "text": text, "optimize": True})
        wcases[n] = {"text": text, "optimize": True, "dataset": ds, "extra": {"kind": "wait"}}
        n += 1
        wl.append({"op": "query", "id": n, "text": "GET sites\nColumns: key\nOutputFormat: json\n\n", "optimize": True})
        wcases[n] = {"text": "GET sites\nColumns: key\nOutputFormat: json\n\n", "optimize": True, "dataset": ds, "extra": {"kind": "control-after-wait"}}
    wimpl = common.run_impl(ctx["binary"], wl, scratch, timeout=300)
    judge(v, wcases, wimpl, {}, [])

    # (iv) misbehaving backend at every successive query of init and of an update run
    faults(ctx, v, rng)

    # (v) Wait* requests against a real peer, each followed by an update run and plain queries: a wait request must not leave
    # anything behind (a lock, a channel) that stops the next update or the next client
    waits_then_updates(ctx, v, rng)


def waits_then_updates(ctx, v, rng):
    schema = ctx["schema"]
    scratch = os.path.join(common.BUILD, "scratch-%d" % os.getpid())
    lines, checks = [], []
    n = 0
    forms = [("hosts", "WaitObject: %(host)s\nWaitCondition: state = 0"), ("hosts", "WaitObject: %(host)s\nWaitCondition: state = 77"), ("hosts", "WaitObject: no-such-host\nWaitCondition: state = 0"),
             ("hosts", "WaitObject: no-such-host"), ("hosts", "WaitCondition: state = 77"), ("hosts", ""),
             ("services", "WaitObject: %(host)s;%(svc)s\nWaitCondition: state = 0"), ("services", "WaitObject: %(host)s;no such service\nWaitCondition: state = 0"),
             ("services", "WaitObject: nosemicolon\nWaitCondition: state = 0"), ("services", "WaitObject: no-such-host;x"), ("services", "WaitCondition: state = 77"),
             ("hostgroups", "WaitObject: nogroup\nWaitCondition: name = x"), ("comments", "WaitObject: 99999\nWaitCondition: id = 1"), ("contacts", "WaitObject: nobody")]
    reps = 1 if ctx["tier"] == "quick" else 4
    worlds = []
    for table, form in forms * reps:
        wb, flags = worldfam.small_world(rng, schema, {"nhosts": [2, 3]})
        hosts = wb["tables"]["hosts"]["rows"]
        svcs = wb["tables"]["services"]["rows"]
        names = {"host": (svcs[0]["host_name"] if svcs and table == "services" else hosts[0]["name"]) if hosts else "x", "svc": svcs[0]["description"] if svcs else "none"}
        text = "GET %s\nColumns: %s\nWaitTrigger: %s\n%s\nWaitTimeout: %d\nOutputFormat: json\n\n" % (
            table, "name" if table in ("hosts", "hostgroups", "contacts") else ("description" if table == "services" else "id"),
            rng.choice(["all", "check", "state", "log", "downtime", "comment", "command", "program"]), form % names, rng.choice([50, 200]))
        text = text.replace("\n\nWaitTimeout", "\nWaitTimeout")
        pid = wb["id"]
        seq = [{"op": "clock", "seconds": worldfam.T0},
               {"op": "world", "world": {"config": {"max_parallel_peer_connections": 1, "backend_keepalive": False, "net_timeout": 3, "connect_timeout": 2, "update_interval": 5}, "backends": [wb]}},
               {"op": "init", "peer": pid},
               {"op": "query", "text": text, "optimize": True, "what": "wait request"},
               {"op": "advance", "seconds": 61},
               {"op": "tick", "peer": pid, "what": "update run after the wait request"},
               {"op": "query", "text": "GET hosts\nColumns: name state\nOutputFormat: json\n\n", "optimize": True, "what": "hosts query after the wait request and an update"},
               {"op": "query", "text": "GET services\nColumns: description state\nOutputFormat: json\n\n", "optimize": True, "what": "services query after the wait request and an update"},
               {"op": "query", "text": text, "optimize": True, "what": "the wait request again"},
               {"op": "advance", "seconds": 10},
               {"op": "tick", "peer": pid, "what": "second update run"}]
        wl, wchecks = [], []
        for l in seq:
            n += 1
            what = l.pop("what", None)
            wl.append(dict(l, id=n))
            if what:
                wchecks.append((n, what))
        worlds.append((text, wl, wchecks))

    # every world runs in a process of its own with a short time limit: a request that leaves a lock behind shows as a later
    # step that never returns, and re-running that step alone (without the request before it) would not show it again
    def one(arg):
        k, (text, wl, wchecks) = arg
        return common._run_once(ctx["binary"], wl, "%s-w%d" % (scratch, k), 45)
    import concurrent.futures
    with concurrent.futures.ThreadPoolExecutor(8) as ex:
        outcomes = list(ex.map(one, enumerate(worlds)))
    for (text, wl, wchecks), (rc, res, err, timed_out) in zip(worlds, outcomes):
        for cid, what in wchecks:
            v.stats["evaluated"] += 1
            r = res.get(cid)
            case = {"text": text, "dataset": None, "extra": {"kind": "wait-then-update", "what": what, "lines": wl}}
            if r is None:
                v.violations.append(("crash", case, "%s: the worker did not answer (%s): %s" % (what, "it hangs: no answer within 45 s" if timed_out else "it ended, status %s" % rc, common.panic_excerpt(err) or err[-400:])))
                break
            if what.startswith(("hosts query", "services query")) and r.get("code") != 200:
                v.violations.append(("property", case, "%s: answered %s %s" % (what, r.get("code"), str(r.get("body"))[:200])))
                break
            if "update run" in what and r.get("err"):
                v.violations.append(("property", case, "%s failed although the backend is fine: %s" % (what, r.get("err"))))
                break
            v.bump("wait-then-update step ok")
            if cid % 3 == 0:
                v.stats["nontrivial"] += 1


def judge(v, cases, impl, model, controls):
    for cid, case in cases.items():
        v.stats["evaluated"] += 1
        r = impl.get(cid)
        kind = case["extra"]["kind"]
        v.bump("kind:" + kind)
        if r is None:
            v.violations.append(("crash", case, "no answer from the worker"))
            continue
        if r.get("crash"):
            v.violations.append(("crash", case, "the worker process ended (%s): %s" % ("timeout" if r.get("timeout") else "crash", r.get("stderr", "")[-500:])))
            continue
        if r.get("skipped"):
            continue
        code = r.get("code")
        v.bump("code:%s" % code)
        if kind in ("dispatch", "mutated", "malformed", "command-header") and cid % 7 == 0:
            h = common.case_hash(case["text"])
            if h not in v.distinct:
                v.distinct.add(h)
                v.stats["nontrivial"] += 1
        if code == 200 and kind != "wait":
            try:
                json.loads(r.get("body", ""))
            except ValueError:
                v.violations.append(("property", case, "status 200 with a body that is not JSON: %r" % r.get("body", "")[:200]))
        if cid in controls:
            m = model.get(cid)
            if m is not None:
                queryfam.evaluate_case(v, dict(case, has_header_row=False), r, m, set())
                v.stats["evaluated"] -= 1
        if len(v.samples) < 4 and kind in ("malformed", "mutated"):
            v.samples.append({"request": case["text"][:200], "status": code})


def faults(ctx, v, rng):
    schema = ctx["schema"]
    scratch = os.path.join(common.BUILD, "scratch-%d" % os.getpid())
    modes = ["closeearly", "garbage", "badheader", "truncate", "error500", "badjson", "wrongwidth"]
    lines, checks = [], []
    n = 0
    nwalk = 14 if ctx["tier"] == "quick" else 40
    for mode in modes:
        for fail_at in range(0, nwalk):
            flavour, flags = worldgen.pick_flavour(rng)
            wb, flags = worldfam.small_world(rng, schema, {"nhosts": [2], "flavour": (flavour, flags)})
            n += 1
            lines.append({"op": "clock", "id": n, "seconds": worldfam.T0})
            n += 1
            lines.append({"op": "world", "id": n, "world": {"config": {"max_parallel_peer_connections": rng.choice([1, 3]), "backend_keepalive": False, "net_timeout": 3, "connect_timeout": 2}, "backends": [wb]}})
            pid = wb["id"]
            if fail_at < nwalk // 2:
                # fault during the initial synchronisation
                n += 1
                lines.append({"op": "mode", "id": n, "backend": pid, "fail_after": fail_at, "fail_mode": mode})
                n += 1
                lines.append({"op": "init", "id": n, "peer": pid})
                checks.append((n, "init with %s at query %d" % (mode, fail_at)))
            else:
                n += 1
                lines.append({"op": "init", "id": n, "peer": pid})
                n += 1
                lines.append({"op": "advance", "id": n, "seconds": 61})
                n += 1
                lines.append({"op": "mode", "id": n, "backend": pid, "fail_after": fail_at - nwalk // 2, "fail_mode": mode})
                n += 1
                lines.append({"op": "tick", "id": n, "peer": pid})
                checks.append((n, "update with %s at query %d" % (mode, fail_at - nwalk // 2)))
            n += 1
            lines.append({"op": "mode", "id": n, "backend": pid, "mode": "ok", "fail_after": 100000000, "fail_mode": "ok"})
            n += 1
            lines.append({"op": "advance", "id": n, "seconds": 10})
            n += 1
            lines.append({"op": "tick", "id": n, "peer": pid})
            checks.append((n, "recovery tick after %s" % mode))
            n += 1
            lines.append({"op": "query", "id": n, "text": "GET sites\nColumns: key status\nOutputFormat: json\n\n", "optimize": True})
            checks.append((n, "control query after %s" % mode))
    impl = common.run_impl(ctx["binary"], lines, scratch, timeout=900)
    for cid, what in checks:
        v.stats["evaluated"] += 1
        r = impl.get(cid)
        case = {"text": what, "dataset": None, "extra": {"kind": "backend-fault", "what": what}}
        if r is None or r.get("crash"):
            v.violations.append(("crash", case, "%s: the worker process ended: %s" % (what, str(r)[:600])))
        elif r.get("skipped"):
            continue
        else:
            v.bump("fault-step ok")
            if cid % 5 == 0:
                v.stats["nontrivial"] += 1
