"""C18: cluster nodes partition the backends.  Nodes.redistribute is driven in-package for every cluster
shape with 1-4 nodes, 0-8 backends, every non-empty online subset and every own index, and compared with
Lmd.redistribute; the partition and evenness statements of the property are checked on the implementation's
output directly."""

import itertools
import json
import os
import random

from . import common, gen, queryfam, worldfam, worldgen


def run(ctx, spec, out):
    v = out.v
    impl_lines, model_lines, cases = [], [], {}
    n = 0
    maxb = 8 if ctx["tier"] == "quick" else 12
    for nodes in range(1, 5):
        for online in itertools.product([False, True], repeat=nodes):
            if not any(online):
                continue
            for nb in range(0, maxb + 1):
                backends = ["b%d" % i for i in range(nb)]
                for own in range(nodes):
                    if not online[own]:
                        continue
                    n += 1
                    spec_ = {"online": list(online), "own": own, "backends": backends, "previous": []}
                    impl_lines.append({"op": "redistribute", "id": n, "text": json.dumps(spec_)})
                    model_lines.append({"op": "redistribute", "id": n, "online": list(online), "backends": backends})
                    cases[n] = spec_
    # the harness needs a dataset-less process: ops are handled by extraOp only when an instance exists; create a tiny world
    scratch = os.path.join(common.BUILD, "scratch-%d" % os.getpid())
    tiny = {"op": "dataset", "id": 0, "dataset": {"backends": []}}
    impl = common.run_impl(ctx["binary"], impl_lines, scratch)
    model = common.run_model(ctx["schema_path"], model_lines)
    known = {f.get("quirk") for f in common.load_known_findings() if f.get("property") == "C18" and f.get("status", "open") == "open"}
    for cid, c in cases.items():
        v.stats["evaluated"] += 1
        a, m = impl.get(cid) or {}, model.get(cid) or {}
        case = {"text": json.dumps(c), "dataset": None, "extra": c}
        if a.get("crash") or "node_backends" not in a:
            v.violations.append(("crash", case, "redistribute did not return: %s" % str(a)[:300]))
            continue
        online, backends = c["online"], c["backends"]
        nb = a["node_backends"] or {}
        per_node = [nb.get("n%d" % i) or [] for i in range(len(online))]
        want = m.get("assigned")
        quotas = m.get("quotas") or []
        if want is None:
            v.corr_broken.append((case, "no model answer"))
            continue
        got_cmp = [per_node[i] if quotas[i] > 0 else [] for i in range(len(online))]
        ours = a.get("ours") or []
        if got_cmp != want or ours != want[c["own"]]:
            v.corr_broken.append((case, "assignment impl %s (ours %s) model %s" % (per_node, ours, want)))
        # the property itself, on the implementation's answer
        flat = [b for l in per_node for b in l]
        nontriv = len(backends) >= 2 and sum(online) >= 2
        if nontriv:
            v.stats["nontrivial"] += 1
        if sorted(flat) != sorted(backends):
            v.violations.append(("property", case, "backends are not assigned exactly once: %s" % per_node))
            continue
        if any(per_node[i] and not online[i] for i in range(len(online))):
            v.violations.append(("property", case, "an offline node was assigned backends: %s" % per_node))
            continue
        sizes = [len(per_node[i]) for i in range(len(online)) if online[i]]
        if max(sizes) - min(sizes) > 1:
            if "uneven" in known:
                v.known_hits["uneven"] = v.known_hits.get("uneven", 0) + 1
            else:
                v.violations.append(("property", case, "assignment is not as even as the counts allow: %s" % sizes))
        if len(v.samples) < 3 and nontriv:
            v.samples.append({"online": online, "backends": backends, "assigned": per_node})
    out.extra_cov["exhaustive"] = True
    out.extra_cov["configurations"] = len(cases)
    cluster_part(ctx, v, out)


# ---------------------------------------------------------------------------------------------
# running clusters: 2-3 daemons with http listeners configured as nodes of one cluster over the same scripted backends.
# Nodes join, leave, are replaced and restart; after every node ran its availability check the assignment must be a
# partition of the backends over the reachable nodes (every node's view of it the same), and a request sent to any node
# must be answered like a single lmd that holds all backends (the model's answer on the union of the backends).

T0 = 1700000000
SCHEMA_QUERY = "GET columns\nColumns: table name\nOutputFormat: json\n\n"
# pass-through requests: judged against the answer of a single lmd over the same backends (times are unique, so a Sort by time is total)
LOG_QUERIES = ["GET log\nColumns: time message peer_key\nOutputFormat: json\n\n",
               "GET log\nColumns: message peer_key\nSort: time desc\nOutputFormat: json\n\n",
               "GET log\nColumns: peer_name message\nFilter: state >= 1\nSort: time asc\nOffset: 1\nOutputFormat: json\n\n",
               "GET log\nStats: state = 0\nStats: state = 1\nStats: max time\nOutputFormat: json\n\n",
               "GET log\nColumns: host_name\nStats: state >= 0\nStats: sum state\nOutputFormat: json\n\n"]


def cluster_part(ctx, v, out):
    rng = random.Random("C18-cluster-%d" % ctx["seed"])
    schema = ctx["schema"]
    nscen = 5 if ctx["tier"] == "quick" else 40
    nq = 14 if ctx["tier"] == "quick" else 30
    impl_lines, model_lines, scen = [], [], []
    n = 0

    def add(line, model=False):
        nonlocal n
        n += 1
        line = dict(line, id=n)
        impl_lines.append(line)
        if line["op"] in ("cluster", "cstart", "cstop", "ccheck", "cstate", "cquery", "creload"):
            # the model's nodes need the ids of the backends only (their objects come with the sync line)
            model_lines.append(dict(line, backends=[{"id": b["id"]} for b in line["backends"]]) if line["op"] == "cluster" else line)
        return n

    for si in range(nscen):
        k = rng.choice([2, 2, 3]) if ctx["tier"] == "quick" else rng.choice([2, 2, 3, 3, 4])
        nb = rng.choice([1, 2, 3, 4, 5])
        script = None
        if si == 0:
            # every run has the history in which the reachable set changes while its size stays the same
            k, nb, script = 3, rng.choice([3, 4, 5]), ["replace", "restart", "stop", "start"]
        ds = gen.gen_dataset(rng, {"nbackends": [nb], "nhosts": [1, 2, 3], "nsvcs": [0, 1, 2]})
        wbs, mbs = [], []
        for b in ds["backends"]:
            flavour, flags = worldgen.pick_flavour(rng)
            wb = worldgen.full_backend(schema, b, flavour, flags, rng)
            wbs.append(wb)
            mbs.append(worldgen.model_backend(schema, wb, flags))
        gds = {"backends": [{"id": mb["id"], "name": mb["name"], "flags": mb["flags"], "tables": mb["tables"]} for mb in mbs]}
        # a few log entries per backend, times unique over the whole cluster: the log table is not cached, every node asks its backends
        for bi, wb in enumerate(wbs):
            wb["tables"]["log"] = {"cols": ["time", "type", "message", "host_name", "state", "class"],
                                   "rows": [{"time": T0 - 1000 + 17 * bi + 100 * kk, "type": rng.choice(["HOST ALERT", "SERVICE ALERT"]), "message": "m %s %d" % (wb["id"], kk),
                                             "host_name": rng.choice(["h1", "h2"]), "state": rng.choice([0, 1, 2]), "class": 1} for kk in range(rng.choice([0, 1, 3]))]}
        cfg = {"max_parallel_peer_connections": 1, "backend_keepalive": False, "idle_timeout": 100000, "net_timeout": 5, "connect_timeout": 2}
        n += 1
        model_lines.append({"op": "sync", "id": n, "dataset": {"backends": mbs, "service_auth": "loose", "group_auth": "strict"}})
        order = list(range(k))
        rng.shuffle(order)
        first = order[:rng.choice([1, k])]
        if script:
            first = order[:2]
        add({"op": "clock", "seconds": T0})
        add({"op": "cluster", "config": cfg, "backends": wbs, "nodes": k, "start": first})
        running = set(first)
        steps = []

        def converge(what):
            # every running node looks at its partners; twice, so that what the first learned reaches the others
            for _ in range(2):
                for i in sorted(running):
                    add({"op": "ccheck", "node": i})
            states = {i: add({"op": "cstate", "node": i}) for i in sorted(running)}
            queries = []
            texts = []
            for _ in range(nq):
                r = rng.random()
                opts = {"depth": [0, 1, 2], "sort": 0.5, "limit": 0.4, "offset": 0.3, "authuser": 0.2, "backends": 0.3}
                texts.append(gen.gen_stats_query(rng, schema, gds, opts) if r < 0.3 else gen.gen_data_query(rng, schema, gds, opts))
            texts += ["GET hosts\nColumns: name state peer_key\nOutputFormat: wrapped_json\n\n", "GET hosts\n\n",
                      "GET services\nColumns: host_name description state\nSort: description desc\nSort: host_name asc\nLimit: 3\nOffset: 1\nOutputFormat: json\n\n",
                      "GET hosts\nStats: state = 0\nStats: avg latency\nStats: max last_check\nStats: min state\nOutputFormat: json\n\n",
                      "GET services\nColumns: host_name\nStats: state != 9\nStats: sum state\nOutputFormat: json\n\n",
                      "GET hosts\nColumns: name\nAuthUser: alice\nOutputFormat: json\n\n"]
            texts.append(SCHEMA_QUERY)
            texts += LOG_QUERIES
            for text in texts:
                node = rng.choice(sorted(running))
                nonlocal_n = add({"op": "cquery", "node": node, "text": text, "optimize": True})
                queries.append((nonlocal_n, node, text))
            steps.append({"what": what, "running": sorted(running), "states": states, "queries": queries})

        converge("start %s" % first)
        for ev in range(len(script) if script else rng.choice([1, 2, 3])):
            down = [i for i in range(k) if i not in running]
            choice = script[ev] if script else rng.choice(["stop", "start", "replace", "restart", "reload"])
            if choice == "reload":
                j = rng.choice(sorted(running))
                add({"op": "creload", "node": j})
                converge("node %d reloads its configuration" % j)
                continue
            if choice == "stop" and len(running) > 1:
                j = rng.choice(sorted(running))
                add({"op": "cstop", "node": j})
                running.discard(j)
                what = "node %d leaves" % j
            elif choice == "replace" and down and len(running) > 1:
                j = rng.choice(sorted(running))
                u = rng.choice(down)
                add({"op": "cstop", "node": j})
                running.discard(j)
                add({"op": "cstart", "node": u})
                running.add(u)
                what = "node %d leaves, node %d joins before anybody looks" % (j, u)
            elif choice == "restart" and len(running) > 1:
                j = rng.choice(sorted(running))
                add({"op": "cstop", "node": j})
                add({"op": "cstart", "node": j})
                what = "node %d restarts" % j
            elif down:
                u = rng.choice(down)
                add({"op": "cstart", "node": u})
                running.add(u)
                what = "node %d joins" % u
            else:
                continue
            converge(what)
        add({"op": "cend"})
        scen.append({"k": k, "backends": [wb["id"] for wb in wbs], "steps": steps, "dataset": {"world": wbs}, "first": len(impl_lines)})
    scratch = os.path.join(common.BUILD, "scratch-%d" % os.getpid())
    # scenarios are independent: one process each, several at a time
    chunks, cur = [], []
    for l in impl_lines:
        cur.append(l)
        if l["op"] == "cend":
            chunks.append(cur)
            cur = []
    import concurrent.futures

    def one(arg):
        i, chunk = arg
        out = None
        for attempt in range(3):
            out = common._run_once(ctx["binary"], chunk, "%s-c%d" % (scratch, i), 600)
            # the harness picks free ports for the nodes' listeners by asking the kernel, closing, and letting lmd listen again:
            # another process can take the port in between, lmd then ends with a listen error - an artefact, the history is run again
            if out[0] != 0 and ("address already in use" in out[2] or "listen error" in out[2]):
                retried.append(i)
                continue
            break
        return out
    retried = []
    with concurrent.futures.ThreadPoolExecutor(4) as ex:
        outs = list(ex.map(one, enumerate(chunks)))
    model = common.run_model(ctx["schema_path"], model_lines)
    # what a single lmd says about its schema (one node is not a cluster)
    base_lines = [{"op": "clock", "id": 1, "seconds": T0}, {"op": "cluster", "id": 2, "config": {"max_parallel_peer_connections": 1, "backend_keepalive": False}, "backends": scen[0]["dataset"]["world"][:1], "nodes": 1, "start": [0]},
                  {"op": "cquery", "id": 3, "node": 0, "text": SCHEMA_QUERY, "optimize": True}, {"op": "cend", "id": 4}]
    _, bres, _, _ = common._run_once(ctx["binary"], base_lines, scratch + "-base", 120)
    try:
        baseline = sorted(json.dumps(r) for r in json.loads((bres.get(3) or {}).get("body") or ""))
    except ValueError:
        baseline = None
    if not baseline:
        baseline = None
        v.corr_broken.append(({"text": SCHEMA_QUERY, "dataset": None}, "no answer of a single lmd for the columns table: %s" % str(bres.get(3))[:200]))
    # the log requests on a single lmd over the backends of every scenario
    log_base = {}
    for si_, sc_ in enumerate(scen):
        bl = [{"op": "clock", "id": 1, "seconds": T0}, {"op": "cluster", "id": 2, "config": {"max_parallel_peer_connections": 1, "backend_keepalive": False}, "backends": sc_["dataset"]["world"], "nodes": 1, "start": [0]}]
        for qi, text in enumerate(LOG_QUERIES):
            bl.append({"op": "cquery", "id": 10 + qi, "node": 0, "text": text, "optimize": True})
        bl.append({"op": "cend", "id": 99})
        _, lres, _, _ = common._run_once(ctx["binary"], bl, scratch + "-logbase", 120)
        for qi, text in enumerate(LOG_QUERIES):
            try:
                log_base[(si_, text)] = json.loads((lres.get(10 + qi) or {}).get("body") or "")
            except ValueError:
                pass
    totals = {"scenarios": nscen, "steps": 0, "queries": 0, "distributed_answers": 0}
    known = {f.get("id") for f in common.load_known_findings() if f.get("property") == "C18" and f.get("status", "open") == "open"}
    for sc_index, (sc, chunk, (rc, impl, err, timed_out)) in enumerate(zip(scen, chunks, outs)):
        case0 = {"text": "cluster of %d nodes, backends %s" % (sc["k"], sc["backends"]), "dataset": None, "extra": {"part": "cluster", "lines": chunk}}
        if rc != 0 or timed_out:
            v.violations.append(("crash", case0, "the cluster run ended (%s): %s" % ("timeout" if timed_out else "status %s" % rc, common.panic_excerpt(err) or err[-800:])))
            continue
        for st in sc["steps"]:
            totals["steps"] += 1
            v.stats["evaluated"] += 1
            case = dict(case0, text="%s; %s" % (case0["text"], st["what"]), extra=dict(case0["extra"], step=st["what"], lines=[l for l in chunk if l["id"] <= max(st["states"].values())]))
            views = {}
            bad = None
            for i, sid in st["states"].items():
                r = (impl.get(sid) or {}).get("state")
                if not r:
                    bad = "node %d gave no state: %s" % (i, str(impl.get(sid))[:200])
                    break
                views[i] = r
            if bad:
                v.violations.append(("crash", case, bad))
                continue
            assigned = {i: views[i]["assigned"] or [] for i in views}
            flat = sorted(b for i in assigned for b in assigned[i])
            problem = None
            if flat != sorted(sc["backends"]):
                problem = "after every node looked at its partners the backends are not assigned exactly once over the running nodes %s: %s" % (st["running"], assigned)
            else:
                sizes = [len(assigned[i]) for i in assigned]
                if max(sizes) - min(sizes) > 1:
                    problem = "the assignment is not as even as the counts allow: %s" % assigned
                for i in views:
                    online = sorted(views[i]["online"] or [])
                    if online != st["running"] and not problem:
                        problem = "node %d takes %s for reachable, running are %s" % (i, online, st["running"])
                    nbv = {int(kk): vv or [] for kk, vv in (views[i]["node_backends"] or {}).items() if not kk.startswith("?")}
                    for j in st["running"]:
                        if sorted(nbv.get(j, [])) != sorted(assigned[j]) and not problem:
                            problem = "node %d believes node %d serves %s, it serves %s" % (i, j, nbv.get(j), assigned[j])
            if problem:
                v.violations.append(("property", case, problem + " (step: %s)" % st["what"]))
                continue
            # correspondence: the views of the implementation's nodes are the views of Lmd.NodeView.check
            for i, sid in st["states"].items():
                mv = (model.get(sid) or {}).get("state")
                if mv is None:
                    v.corr_broken.append((case, "node %d: no view from the model: %s" % (i, str(model.get(sid))[:200])))
                    break
                iv = views[i]
                mine = {"online": sorted(iv["online"] or []), "assigned": iv["assigned"] or [], "node_backends": {kk: vv or [] for kk, vv in (iv["node_backends"] or {}).items()}}
                theirs = {"online": sorted(mv["online"] or []), "assigned": mv["assigned"] or [], "node_backends": {kk: vv or [] for kk, vv in (mv["node_backends"] or {}).items()}}
                if mine != theirs:
                    v.corr_broken.append((case, "node %d after '%s': implementation %s, model %s" % (i, st["what"], mine, theirs)))
                    break
            if len(st["running"]) >= 2 and len(sc["backends"]) >= 2:
                v.stats["nontrivial"] += 1
            v.bump("cluster step ok: %d of %d nodes" % (len(st["running"]), sc["k"]))
            for qid, node, text in st["queries"]:
                totals["queries"] += 1
                if len(st["running"]) > 1:
                    totals["distributed_answers"] += 1
                qcase = {"text": text, "optimize": True, "dataset": sc["dataset"], "has_header_row": queryfam.has_header_row(text), "dataset_hash": common.case_hash(sc["backends"]) + str(qid),
                         "extra": {"part": "cluster", "asked_node": node, "running": st["running"], "assignment": assigned, "step": st["what"], "lines": [l for l in chunk if l["id"] <= qid and l["op"] != "cquery"] + [l for l in chunk if l["id"] == qid]}}
                if text in LOG_QUERIES:
                    v.stats["evaluated"] += 1
                    want = log_base.get((sc_index, text))
                    try:
                        rows = json.loads((impl.get(qid) or {}).get("body") or "")
                    except ValueError:
                        rows = None
                    if want is None:
                        v.corr_broken.append((qcase, "no answer of a single lmd to compare with"))
                    elif rows is None:
                        v.violations.append(("property", qcase, "a node of the cluster did not answer the log request a single lmd answers: %s" % str(impl.get(qid))[:300]))
                    else:
                        ordered = "Sort:" in text
                        a = [json.dumps(r) for r in rows]
                        b = [json.dumps(r) for r in want]
                        if (a != b) if ordered else (sorted(a) != sorted(b)):
                            v.violations.append(("property", qcase, "log request: a node of the cluster answers %s, a single lmd over the same backends %s" % (str(rows)[:400], str(want)[:400])))
                        else:
                            v.bump("log request in a cluster ok")
                    continue
                if text == SCHEMA_QUERY:
                    # lmd's own schema: the same list whoever is asked, every line once
                    v.stats["evaluated"] += 1
                    try:
                        rows = json.loads((impl.get(qid) or {}).get("body") or "")
                    except ValueError:
                        rows = None
                    if not isinstance(rows, list) or not rows:
                        v.violations.append(("property", qcase, "the columns table was not answered: %s" % str(impl.get(qid))[:300]))
                    elif baseline is not None and sorted(json.dumps(r) for r in rows) != baseline:
                        v.violations.append(("property", qcase, "the columns table has %d lines when a node of this cluster is asked, %d on a single lmd: lmd's schema is the same whoever is asked" % (len(rows), len(baseline))))
                    continue
                before = len(v.violations)
                queryfam.evaluate_case(v, qcase, impl.get(qid), model.get(qid), set())
                if len(v.violations) > before and "cluster-sort-missing-list-value" in known and missing_list_sort_key(schema, text) \
                        and all("is not a row of tie class" in d for _, _, d in v.violations[before:]):
                    # listed finding: the rows are the right ones, their order differs where a list typed sort column has no value
                    del v.violations[before:]
                    v.known_hits["cluster-sort-missing-list-value"] = v.known_hits.get("cluster-sort-missing-list-value", 0) + 1
    totals["histories_run_again_for_a_taken_port"] = len(retried)
    out.extra_cov["cluster"] = totals


def missing_list_sort_key(schema, text):
    """the request sorts by a list typed column that some rows have no value for: an optional column (not every backend has it)
    or a column of a referenced object (host comments have no service)"""
    lines = text.split("\n")
    table = lines[0].split(" ", 1)[1].strip() if lines and lines[0].startswith("GET ") else ""
    for l in lines[1:]:
        if not l.lower().startswith("sort:"):
            continue
        name = l.split(":", 1)[1].strip().split(" ")[0].lower()
        try:
            c = schema.col(table, name)
        except Exception:
            continue
        if c and c["dtype"] in ("StringListCol", "Int64ListCol", "ServiceMemberListCol", "InterfaceListCol") and (c.get("optional") or c["storage"] == "RefStore"):
            return True
    return False
