"""C18: cluster nodes partition the backends.  Nodes.redistribute is driven in-package for every cluster
shape with 1-4 nodes, 0-8 backends, every non-empty online subset and every own index, and compared with
Lmd.redistribute; the partition and evenness statements of the property are checked on the implementation's
output directly."""

import itertools
import json
import os

from . import common


def run(ctx, spec, out):
    v = out.v
    impl_lines, model_lines, cases = [], [], {}
    n = 0
    maxb = 8 if ctx["tier"] == "quick" else 12
    for nodes in range(1, 5):
        for online in itertools.product([False, True], repeat=nodes):
            if not any(online):
                continue
            for nb in range(0, maxb + 1):
                backends = ["b%d" % i for i in range(nb)]
                for own in range(nodes):
                    if not online[own]:
                        continue
                    n += 1
                    spec_ = {"online": list(online), "own": own, "backends": backends, "previous": []}
                    impl_lines.append({"op": "redistribute", "id": n, "text": json.dumps(spec_)})
                    model_lines.append({"op": "redistribute", "id": n, "online": list(online), "backends": backends})
                    cases[n] = spec_
    # the harness needs a dataset-less process: ops are handled by extraOp only when an instance exists; create a tiny world
    scratch = os.path.join(common.BUILD, "scratch-%d" % os.getpid())
    tiny = {"op": "dataset", "id": 0, "dataset": {"backends": []}}
    impl = common.run_impl(ctx["binary"], impl_lines, scratch)
    model = common.run_model(ctx["schema_path"], model_lines)
    known = {f.get("quirk") for f in common.load_known_findings() if f.get("property") == "C18" and f.get("status", "open") == "open"}
    for cid, c in cases.items():
        v.stats["evaluated"] += 1
        a, m = impl.get(cid) or {}, model.get(cid) or {}
        case = {"text": json.dumps(c), "dataset": None, "extra": c}
        if a.get("crash") or "node_backends" not in a:
            v.violations.append(("crash", case, "redistribute did not return: %s" % str(a)[:300]))
            continue
        online, backends = c["online"], c["backends"]
        nb = a["node_backends"] or {}
        per_node = [nb.get("n%d" % i) or [] for i in range(len(online))]
        want = m.get("assigned")
        quotas = m.get("quotas") or []
        if want is None:
            v.corr_broken.append((case, "no model answer"))
            continue
        got_cmp = [per_node[i] if quotas[i] > 0 else [] for i in range(len(online))]
        ours = a.get("ours") or []
        if got_cmp != want or ours != want[c["own"]]:
            v.corr_broken.append((case, "assignment impl %s (ours %s) model %s" % (per_node, ours, want)))
        # the property itself, on the implementation's answer
        flat = [b for l in per_node for b in l]
        nontriv = len(backends) >= 2 and sum(online) >= 2
        if nontriv:
            v.stats["nontrivial"] += 1
        if sorted(flat) != sorted(backends):
            v.violations.append(("property", case, "backends are not assigned exactly once: %s" % per_node))
            continue
        if any(per_node[i] and not online[i] for i in range(len(online))):
            v.violations.append(("property", case, "an offline node was assigned backends: %s" % per_node))
            continue
        sizes = [len(per_node[i]) for i in range(len(online)) if online[i]]
        if max(sizes) - min(sizes) > 1:
            if "uneven" in known:
                v.known_hits["uneven"] = v.known_hits.get("uneven", 0) + 1
            else:
                v.violations.append(("property", case, "assignment is not as even as the counts allow: %s" % sizes))
        if len(v.samples) < 3 and nontriv:
            v.samples.append({"online": online, "backends": backends, "assigned": per_node})
    out.extra_cov["exhaustive"] = True
    out.extra_cov["configurations"] = len(cases)
