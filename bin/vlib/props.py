"""Per-property configuration: which Lean modules carry the theorems, which generator drives the
correspondence, and how the outcome becomes evidence and verdict lines."""

import json
import os
import random
import time

from . import common, gen, queryfam, c10, worldfam, c18, c09, c15, c16, c20, c14

TRUSTED_BASE = [
    "Lean 4.33.0 kernel (axioms limited to propext, Classical.choice, Quot.sound; audited per theorem on every run)",
    "the hand-written Lean model mirrors pkg/lmd; tied to the working tree by the correspondence run of this check (generated cases, impl vs model) and by the schema/operator tables regenerated from the running code (lmdharness dump-schema)",
    "the Go harness (overlay files in /verif/harness/inpkg, python canonicaliser) and the generators: coverage bounds what disagreement can be seen",
    "modelled, not verified: Go runtime, regexp (RE2) outside the reference subset, strings.ToLower/EqualFold outside ASCII+Latin-1, float64 rounding, jsoniter, djson",
]


class Outcome:
    def __init__(self, prop, tier, seed):
        self.prop, self.tier, self.seed = prop, tier, seed
        self.theorems = []
        self.proof_problems = []
        self.lean_ok = True
        self.lean_log = ""
        self.leanchecker = []
        self.v = queryfam.Verdicts(prop)
        self.extra_cov = {}
        self.level = "proof"
        self.spec = {}
        self.notes = []

    def lean_failed(self, log):
        self.lean_ok = False
        self.lean_log = log[-6000:]

    def set_proof(self, theorems, problems, ok, spec):
        self.theorems = theorems
        self.proof_problems = list(problems)
        self.spec = spec

    def finish_unbuildable(self, replay, t0):
        cov = {"obligations": 1, "discharged": 0, "checker_cmd": "go build -tags verif -overlay overlay.json ./cmd/lmdharness",
               "trusted_base": TRUSTED_BASE, "evaluations": 0, "distinct_nontrivial": 0, "samples": [],
               "explanation": "the harness did not compile against the working tree; the tie between model and code cannot be established"}
        common.write_evidence(self.prop, self.tier, self.seed, "proof", cov, [], time.time() - t0, 1)
        print("VIOLATION property=%s replay=%s no-failing-input-found" % (self.prop, replay))

    def finish(self, t0):
        v = self.v
        prop = self.prop
        findings = [f for f in common.load_known_findings() if f.get("property") == prop and f.get("status", "open") == "open"]
        lines = []
        nviol = 0
        # property violations with a concrete failing input
        seen = set()
        shrunk = 0
        for kind, case, detail in v.violations:
            key = (kind, detail[:80])
            seen.add(key)
            if nviol >= int(os.environ.get('VERIF_REPORT_MAX', '5')):
                break
            if shrunk < int(os.environ.get('VERIF_SHRINK_MAX', '2')) and kind in ("property", "crash") and case.get("dataset") and getattr(self, "ctx", None) and os.environ.get("VERIF_NO_SHRINK") != "1":
                shrunk += 1
                try:
                    ds2, text2 = queryfam.shrink_case(self.ctx, case["dataset"], case["text"], case.get("optimize", True), listed_quirks(prop), "violation")
                    case = dict(case, dataset=ds2, text=text2, extra=dict(case.get("extra") or {}, shrunk=True))
                except Exception as e:  # keep the unshrunk case
                    self.notes.append("shrinking failed: %s" % e)
            payload = {"property": prop, "kind": kind, "detail": detail, "request": case.get("text"), "optimize": case.get("optimize"),
                       "dataset": case.get("dataset"), "extra": case.get("extra")}
            path = common.write_replay(prop, self.seed, payload)
            lines.append("VIOLATION property=%s replay=%s" % (prop, path))
            lines.append("  what: " + " ".join(str(detail).split())[:400])
            nviol += 1
        total_viol = len(v.violations)
        if total_viol == 0 and v.corr_broken:
            case, detail = v.corr_broken[0]
            if case.get("dataset") and getattr(self, "ctx", None) and os.environ.get("VERIF_NO_SHRINK") != "1":
                try:
                    ds2, text2 = queryfam.shrink_case(self.ctx, case["dataset"], case["text"], case.get("optimize", True), listed_quirks(prop), "corr")
                    case = dict(case, dataset=ds2, text=text2, extra=dict(case.get("extra") or {}, shrunk=True))
                except Exception as e:
                    self.notes.append("shrinking failed: %s" % e)
            payload = {"property": prop, "kind": "correspondence", "correspondence": self.spec.get("correspondence", "Lmd model vs pkg/lmd"),
                       "detail": detail, "disagreements": len(v.corr_broken), "request": case.get("text"), "optimize": case.get("optimize"),
                       "dataset": case.get("dataset"), "extra": case.get("extra"),
                       "note": "model and implementation disagree on this case, but every explored case still satisfies the specification"}
            path = common.write_replay(prop, self.seed, payload)
            lines.append("VIOLATION property=%s replay=%s no-failing-input-found" % (prop, path))
            total_viol += 1
        exp_path = os.path.join(common.LEAN, "Lmd", "Audit", "expected.json")
        if os.path.exists(exp_path) and not self.spec.get("theorems_expected"):
            try:
                self.spec = dict(self.spec, theorems_expected=json.load(open(exp_path)).get(prop, []))
            except ValueError:
                self.proof_problems.append("Lmd/Audit/expected.json is not valid JSON")
        if not self.spec.get("theorems_expected") and not self.theorems:
            self.proof_problems.append("no property theorem is registered for %s" % prop)
        if total_viol == 0 and (not self.lean_ok or self.proof_problems):
            payload = {"property": prop, "kind": "proof-obligation", "problems": self.proof_problems, "lean_log": self.lean_log,
                       "note": "a theorem of this property no longer checks; no explored case fails"}
            path = common.write_replay(prop, self.seed, payload)
            lines.append("VIOLATION property=%s replay=%s no-failing-input-found" % (prop, path))
            total_viol += 1
        # known findings that showed up in this run
        for f in findings:
            q = f.get("quirk") or f.get("id")
            if v.known_hits.get(q):
                lines.append("KNOWN-FINDING: property=%s %s" % (prop, f.get("what", q)))
        obligations = max(1, len(self.spec.get("theorems_expected", [])) or len(self.theorems))
        discharged = 0
        if self.lean_ok:
            ok_names = {t["theorem"] for t in self.theorems if all(a in common.ALLOWED_AXIOMS for a in t["axioms"])}
            expected = self.spec.get("theorems_expected") or [t["theorem"] for t in self.theorems]
            discharged = len([n for n in expected if n in ok_names])
            missing = [n for n in expected if n not in ok_names]
            if missing and not self.proof_problems and total_viol == 0:
                payload = {"property": prop, "kind": "proof-obligation", "missing_theorems": missing}
                path = common.write_replay(prop, self.seed, payload)
                lines.append("VIOLATION property=%s replay=%s no-failing-input-found" % (prop, path))
                total_viol += 1
        cov = {
            "obligations": obligations,
            "discharged": discharged,
            "checker_cmd": "cd /verif/lean && lake build " + " ".join("Lmd.Props." + m for m in self.spec.get("lean_modules", [])) + " && lake env lean Lmd/Audit/%s.lean" % prop,
            "trusted_base": TRUSTED_BASE,
            "theorems": self.theorems,
            "leanchecker": self.leanchecker,
            "evaluations": v.stats["evaluated"],
            "distinct_nontrivial": v.stats["nontrivial"],
            "traces_validated_against_impl": v.stats["evaluated"] - v.stats["unsupported"],
            "rule": self.spec.get("rule", ""),
            "samples": v.samples[:4] if v.samples else [{"note": "no non-trivial sample in this run"}],
            "case_stats": v.stats,
            "distribution": dict(sorted(v.dist.items(), key=lambda kv: -kv[1])[:60]),
            "known_findings_hit": v.known_hits,
            "correspondence_disagreements": len(v.corr_broken),
            "exhaustive": False,
        }
        cov.update(self.extra_cov)
        common.write_evidence(prop, self.tier, self.seed, self.level, cov, self.spec.get("assumptions", []), time.time() - t0, total_viol)
        for l in lines:
            print(l)
        for n in self.notes:
            print("note: " + n)
        print("%s tier=%s seed=%d evaluated=%d nontrivial=%d unsupported=%d theorems=%d/%d known_hits=%s violations=%d wall=%.1fs" % (
            prop, self.tier, self.seed, v.stats["evaluated"], v.stats["nontrivial"], v.stats["unsupported"], discharged, obligations,
            json.dumps(v.known_hits), total_viol, time.time() - t0))
        return 1 if total_viol else 0


def listed_quirks(prop):
    return {f.get("quirk") for f in common.load_known_findings() if f.get("property") == prop and f.get("status", "open") == "open"}


def corpus_batches(prop):
    """minimised past failures and the literals of the counterexample theorems run first"""
    batches = []
    d = os.path.join(common.VERIF, "corpus", prop)
    if os.path.isdir(d):
        for name in sorted(os.listdir(d)):
            if name.endswith(".json"):
                c = json.load(open(os.path.join(d, name)))
                batches.append((c["dataset"], [{"text": q["text"], "optimize": q.get("optimize", True), "extra": {"corpus": name}} for q in c["queries"]]))
    for f in common.load_known_findings():
        if f.get("property") == prop and f.get("replay"):
            r = f["replay"]
            batches.append((r["dataset"], [{"text": q["text"], "optimize": q.get("optimize", True), "extra": {"finding": f.get("id")}} for q in r["queries"]]))
    return batches


def mk_query_runner(gen_opts_fn, nquick, nthorough, data=True, stats=False, per_ds=12, runner=None):
    runner = runner or queryfam.run_batches

    def run(ctx, spec, out):
        rng = random.Random(ctx["seed"] * 7919 + hash(ctx["prop"]) % 1000)
        rng = random.Random("%s-%d" % (ctx["prop"], ctx["seed"]))
        n = nquick if ctx["tier"] == "quick" else nthorough
        lq = listed_quirks(ctx["prop"])
        cb = corpus_batches(ctx["prop"])
        if cb:
            runner(ctx, out.v, cb, lq)
        batches = []
        made = 0
        while made < n:
            ds_opts, q_opts = gen_opts_fn(rng)
            ds = gen.gen_dataset(rng, ds_opts)
            qs = []
            for _ in range(per_ds):
                both = data and stats
                if stats and (not data or rng.random() < (0.5 if both else 1.0)):
                    text = gen.gen_stats_query(rng, ctx["schema"], ds, q_opts)
                else:
                    text = gen.gen_data_query(rng, ctx["schema"], ds, q_opts)
                opt = rng.random() < q_opts.get("optimize_p", 0.7)
                qs.append({"text": text, "optimize": opt, "has_header_row": queryfam.has_header_row(text)})
                if q_opts.get("both_modes") and rng.random() < 0.5:
                    qs.append({"text": text, "optimize": not opt, "has_header_row": queryfam.has_header_row(text)})
                made += 1
            batches.append((ds, qs))
            if len(batches) >= 40:
                runner(ctx, out.v, batches, lq)
                batches = []
        if batches:
            runner(ctx, out.v, batches, lq)
    return run


def run_replay(ctx, spec, out, path):
    r = json.load(open(path))
    if r.get("dataset") is None or not r.get("request"):
        out.notes.append("replay file carries no request")
        return
    lq = listed_quirks(ctx["prop"])
    text = r["request"]
    queryfam.run_batches(ctx, out.v, [(r["dataset"], [{"text": text, "optimize": r.get("optimize", True), "has_header_row": queryfam.has_header_row(text)}])], lq)


def c01_opts(rng):
    return ({}, {"depth": [0, 1, 2, 3, 4], "both_modes": True, "index_shape_p": 0.25})


def c05_opts(rng):
    return ({"zero_backend_p": 0.4}, {"depth": [0, 1, 2], "both_modes": True, "optimize_p": 0.8, "authuser": 0.15, "backends": 0.1})


def c06_opts(rng):
    return ({"nhosts": [0, 1, 2, 3, 5, 8, 12]}, {"depth": [0, 1], "nfilters": [0, 0, 1], "sort": 0.8, "limit": 0.7, "offset": 0.5, "formats": ["json", "wrapped_json"], "colheaders": 0.1, "near_default_p": 0.7, "index_window_p": 0.12, "cv_sort_p": 0.2, "tables": ["hosts", "services", "services", "hostgroups", "comments", "servicesbygroup"]})


def c07_opts(rng):
    return ({}, {"depth": [0, 1, 2, 3], "both_modes": True, "index_p": 0.5, "optimize_p": 0.6, "index_shape_p": 0.25, "cv_run_p": 0.5})


def c08_opts(rng):
    return ({"service_auth": ["loose", "strict"], "group_auth": ["loose", "strict"], "inconsistent_groups": False},
            {"depth": [0, 1], "nfilters": [0, 0, 1], "authuser": 0.9,
             "tables": ["hosts", "services", "hostgroups", "servicegroups", "hostsbygroup", "servicesbygroup", "servicesbyhostgroup", "comments", "downtimes", "contacts"]})


def c04_opts(rng):
    return ({"states": True, "nbackends": [1, 2, 3, 4, 5]}, {"depth": [0, 1], "nfilters": [0, 0, 1], "backends": 0.8, "formats": ["json", "wrapped_json", "wrapped_json"],
            "tables": ["hosts", "services", "hostgroups", "comments", "contacts", "hostsbygroup", "sites", "backends"]})


def c17_opts(rng):
    return ({}, {"depth": [0, 1, 2, 3], "both_modes": True, "sort": 0.4, "limit": 0.3, "offset": 0.2, "authuser": 0.1, "index_p": 0.2, "wait_p": 0.12})


QUERY_ASSUMPTIONS = ["strings inside the declared alphabet (ASCII + Latin-1 letters)", "regular expressions inside the reference subset; others are reported unsupported and not compared",
                     "numbers are decimals with at most three fraction digits", "backend data satisfy GroupsConsistent (hosts' groups vs hostgroups' members) where the index theorems need it"]

REGISTRY = {
    "C01": {
        "lean_modules": ["C01", "C01Ops"],
        "run": mk_query_runner(c01_opts, 600, 12000),
        "rule": "importer-loaded datasets (1-4 backends, 0-8 hosts each, all value shapes) x GET requests with generated filter trees "
                "(every operator x column type class, empty right-hand sides, nested And/Or/Negate incl. double negation, ref and custom-variable columns), both parse modes; "
                "a case is distinct by the hash of (dataset, request text, parse mode) and non-trivial when the specification selects at least one row, the implementation returned at least one row and the request carries a filter",
        "correspondence": "Lmd.matchF / Lmd.preFiltered / Lmd.dataQuery vs DataRow.MatchFilter / GetPreFilteredData / gatherResultRows",
        "assumptions": QUERY_ASSUMPTIONS,
    },
    "C05": {
        "lean_modules": ["C05", "C05Whole"],
        "run": mk_query_runner(c05_opts, 500, 10000, data=False, stats=True),
        "rule": "importer-loaded datasets x Stats requests (1-8 counters/aggregates, runs of counters sharing leading terms so that the grouping optimiser fires, nested StatsAnd/StatsOr/StatsNegate, group-by Columns, AuthUser), rows spread over 1-4 backends, both parse modes; "
                "non-trivial = at least two Stats lines and at least one non-zero value in the specification's answer; distinct by hash of (dataset, request, parse mode)",
        "correspondence": "Lmd.optimizeStats / countNodes / mergeStats / Acc.final vs optimizeStatsGroups / CountStats / MergeStats / finalStatsApply",
        "assumptions": QUERY_ASSUMPTIONS,
    },
    "C06": {
        "lean_modules": ["C06", "C06Pages"],
        "run": mk_query_runner(c06_opts, 600, 12000),
        "rule": "importer-loaded datasets over 1-4 backends x GET requests with 0-3 Sort keys (asc/desc, columns outside Columns, custom-variable keys, the table default order), Limit/Offset in {absent,0,1,small,=total,>total}, json and wrapped_json; "
                "ties are accepted in any order (tie classes from the sort keys); non-trivial = the specification's window is non-empty and the request has a Sort/Limit/Filter header",
        "correspondence": "Lmd.dataQuery / gatherRows / cmpKeys vs gatherResultRows / RawResultSet.PostProcessing / Less",
        "assumptions": QUERY_ASSUMPTIONS,
    },
    "C07": {
        "lean_modules": ["C07", "C07Whole"],
        "run": mk_query_runner(c07_opts, 600, 12000, data=True, stats=True),
        "rule": "every generated request text is evaluated in both parse modes (ParseDefault, ParseOptimize) by the implementation and the model and compared with the un-optimised specification; "
                "half of the leaves have an indexable shape (name/host_name/groups/host_groups/primary key with = =~ ~ ~~ >=); regex texts start/end with .*, are wrapped in ^...$, contain heuristic dots and escapes",
        "correspondence": "Lmd.setRegexFilter / setLowerCaseColumn / preFiltered / optimizeStats vs the Go functions of the same names",
        "assumptions": QUERY_ASSUMPTIONS,
    },
    "C08": {
        "lean_modules": ["C08", "C08Whole"],
        "run": mk_query_runner(c08_opts, 500, 10000, data=True, stats=True),
        "rule": "contact graphs generated as relations over hosts/services/groups, 2x2 authorisation settings, AuthUser on ten contact-bearing tables, data and Stats queries with extra filters",
        "correspondence": "Lmd.checkAuth vs DataRow.checkAuth",
        "assumptions": QUERY_ASSUMPTIONS,
    },
    "C17": {
        "lean_modules": ["C17", "C17Sort", "C17Headers"],
        "run": mk_query_runner(c17_opts, 500, 10000, data=True, stats=True, runner=queryfam.run_reprint_batches),
        "rule": "every generated request (filters of every operator x column type, nested negated groups, Stats counters/aggregates, Sort incl. custom variables, Limit/Offset, AuthUser; both parse modes) is parsed by the implementation, "
                "serialised with Request.String(), re-parsed and evaluated; the answer must satisfy the specification of the original request",
        "correspondence": "Lmd.printRequest vs Request.String (exact text), Lmd.parseRequest vs NewRequest",
        "assumptions": QUERY_ASSUMPTIONS,
    },
    "C10": {
        "lean_modules": ["C10", "C10Body"],
        "run": c10.run,
        "rule": "importer-loaded datasets whose strings contain quotes, backslashes, control bytes, U+2028, emoji, 3000 byte values, custom variables with missing values x data and Stats requests "
                "(unknown/duplicate columns, no Columns header, ColumnHeaders, both formats, fixed16 on/off): the bytes of Response.send are parsed with a strict JSON parser, shape- and width-checked, the header compared with Lmd.fixed16Header; "
                "plus unix-socket sessions of 1-6 requests with KeepAlive on/off and an unparsable request at a random position, compared bytewise with the composition given by Lmd.sessionPlan; non-trivial = a session of at least two requests or a data/stats case as in C01",
        "correspondence": "Lmd.fixed16Header / Lmd.sessionPlan / Lmd.cellJson vs Response.send / ClientConnection.answer / DataRow.WriteJSON*",
        "assumptions": QUERY_ASSUMPTIONS + ["jsoniter's scalar encoder is an oracle checked by the strict parser, not modelled"],
    },
    "C02": {
        "lean_modules": ["C02", "C02Members"],
        "run": worldfam.run_c02,
        "rule": "lmd peers are synchronised (real Peer.InitAllTables over unix sockets) from scripted Livestatus backends of flavours naemon/icinga2/shinken/plain with random optional-column sets, "
                "rows delivered in shuffled order, strings of 0-3000 bytes with control bytes and quotes, equal and near-equal lists, numbers at and beyond the column ranges, MaxParallelPeerConnections 1 and 3; "
                "every table is read back with every modelled column and compared with Lmd.syncBackend applied to the backend's source rows",
        "correspondence": "Lmd.syncTable / Lmd.coerce / Lmd.buildIdLists vs CreateObjectByType / interface2* / buildDowntimeCommentsList",
        "assumptions": QUERY_ASSUMPTIONS + ["the scripted backend (own parser/evaluator) is trusted", "xxhash32 collisions of different lists are not generated (content comparison added by fix 0ebe0ec makes them harmless)"],
    },
    "C19": {
        "lean_modules": ["C19", "C19Snapshot"],
        "run": worldfam.run_c19,
        "rule": "multi-flavour datasets (value shapes of C02) are synchronised from scripted backends, written with the real Exporter into a tarball and loaded with the real importer into a second daemon; "
                "40 generated data/Stats/sorted/limited/AuthUser requests per snapshot are answered by both instances and compared with the model of the synchronised cache",
        "correspondence": "exporting instance = importing instance = Lmd.syncBackend (same queries)",
        "assumptions": QUERY_ASSUMPTIONS + ["non-UTF-8 bytes are not generated (they are replaced by U+FFFD on export)"],
    },
    "C13": {
        "lean_modules": ["C13", "C13Run"],
        "run": worldfam.run_c13,
        "rule": "traces of 4-25 events over {time passes d seconds, update tick, backend switched ok/refusing/garbage/error code/closing early/bad header/truncating, client data query, sites query} on a real Peer wired to a scripted backend, "
                "1-3 source addresses (dead ones first/last/between), settings grid over UpdateInterval/StaleBackendTimeout/IdleTimeout/IdleInterval; after every event status, data presence, idling, error count, last_online/last_update ages, "
                "flags and the number of queries the backend received are compared with Lmd.tick / Lmd.clientQuery; non-trivial = at least 6 steps",
        "correspondence": "Lmd.PeerSt.fail / recovered / tick / clientQuery / initAllTables vs setNextAddrFromErr / resetErrors / periodicUpdate / ResumeFromIdle / InitAllTables",
        "assumptions": ["virtual clock (overlay patch of currentUnixTime), whole seconds", "BackendKeepAlive off, MaxParallelPeerConnections 1 (serial init)", "fallback addresses are not part of the model: 12 (thorough 150) histories with fallback addresses are judged by the property statements evaluated on the implementation state only; HTTP backends are not exercised"],
    },
    "C12": {
        "lean_modules": ["C12", "C12Seq"],
        "run": worldfam.run_c12,
        "rule": "histories of 3-16 rounds on a real Peer: 0-3 additions/removals of host and service comments and downtimes per round (ids monotonically increasing with gaps beyond 8 bit, removing the newest / the oldest / everything), then an update tick; "
                "after each round GET comments, GET downtimes and the comments/downtimes id lists of hosts and services are compared with Lmd.updateDelta (maxIdOrSizeChanged, syncEntries, buildIdLists)",
        "correspondence": "Lmd.maxIdOrSizeChanged / syncEntries / rebuildLists vs maxIDOrSizeChanged / updateDeltaCommentsOrDowntimes / buildDowntimeCommentsList",
        "assumptions": ["ids created by the backend are larger than every id it created before (the Livestatus contract, MonotoneIds)", "virtual clock, whole seconds"],
    },
    "C03": {
        "lean_modules": ["C03", "C03Run"],
        "run": worldfam.run_c03,
        "rule": "histories of 3-20 rounds on a real Peer: backend mutations of kinds check result / acknowledgement / downtime depth / enabled flag / modified attributes / running check / custom variable values / timeperiod flip at instants inside the update interval, "
                "update ticks with contiguous windows, updates aborted after 0-6 backend queries, backends with and without last_update, SyncIsExecuting on/off; every dynamic host/service column is compared with Lmd.updateDelta after each round, "
                "and after quiescence plus full-scan cycles with a fresh synchronisation of the final backend state (convergence)",
        "correspondence": "Lmd.deltaTable / applyDelta / updateFullTable / updateTimeperiods vs updateDeltaHostsServices / updateFullScan / prepareDataUpdateSet / UpdateFullTable / updateTimeperiodsData",
        "assumptions": ["virtual clock, whole seconds", "MaxParallelPeerConnections 1", "Icinga2 object-count reload is not modelled"],
    },
    "C11": {
        "lean_modules": ["C11", "C11Seq"],
        "run": worldfam.run_c11,
        "rule": "histories of 2-5 rounds on a real Peer: backend restarts with a replaced object set (program_start / pid change), object count changes without restart (contact, host group, timeperiod added), restarts without changes; "
                "the rebuild or the update that detects it fails at backend query 0-15 in modes closing early / garbage / error code / truncated; all tables are read after every tick and compared with Lmd.tick / initAllTables, "
                "and after recovery with a fresh synchronisation of the backend's final object set",
        "correspondence": "Lmd.updateFullTable (CheckBackendRestarted, row count) / initAllTables / tick vs the Go functions",
        "assumptions": ["virtual clock", "MaxParallelPeerConnections 1 (serial rebuild, so that the failing fetch is determined)", "Icinga2 count-probe reload is not modelled"],
    },
    "C18": {
        "lean_modules": ["C18", "C18Nodes", "C18Dist", "C18Compose"],
        "run": c18.run,
        "rule": "exhaustive: every cluster shape with 1-4 nodes, every non-empty subset of online nodes, every own index among the online nodes, 0-8 backends (thorough: 0-12); Nodes.redistribute is run in-package and compared with Lmd.redistribute, "
                "and the partition / offline / evenness statements are evaluated on the implementation's assignment; non-trivial = at least two backends and two online nodes. "
                "Running clusters: 5 (thorough 40) histories of 2-3 daemons started like mainLoop starts them, each with an http listener, configured as nodes of one cluster over 1-5 scripted backends of mixed flavours; "
                "nodes join, leave, are replaced without a change of their number, and restart; after every running node looked at its partners twice the implementation's bookkeeping must be a partition over the running nodes, "
                "as even as the counts allow, every node's view must say what the others serve and equal Lmd.NodeView.check; then 14 (thorough 30) generated data/Stats/sorted/limited/AuthUser/Backends requests and 6 fixed ones go to random nodes "
                "and are compared with Lmd.distData / distStats and with the single-instance specification",
        "correspondence": "Lmd.redistribute / quotas / handOut vs Nodes.redistribute; Lmd.NodeView.check vs Nodes.checkNodeAvailability (views after convergence); Lmd.distData / distStats vs getDistributedResponse / mergeDistributedResponse (answers of running clusters)",
        "assumptions": ["the 10 s node loop and the 3 s heartbeat are driven by the harness (checks run when the harness says so, heartbeat 2 s); TLS between nodes and more than 4 running nodes are not exercised (see DESIGN.md)"],
    },
    "C15": {
        "lean_modules": ["C15"],
        "run": c15.run,
        "rule": "worlds of 1-3 real peers wired to scripted backends in states up / down (never reachable) / rejecting (8 reply shapes incl. without colon, non-numeric code) / closing after a command / closing after k requests; "
                "1-3 client sessions each over a real socket served by ClientConnection.Handle: 1-9 requests, COMMAND lines with 12 argument shapes (separators, unicode, tabs, 300 bytes, text that looks like a request or reply), "
                "Backends headers (subsets, unknown ids, duplicates), KeepAlive on/off, other headers, GET sites/hosts in between, malformed requests; compared: the bytes the client read, the commands every backend received "
                "per connection, the peer bookkeeping after the session and the next update tick (immediate refresh); non-trivial = at least two commands",
        "correspondence": "Lmd.sessionEvents / processBatch / peerSend / sendCommands vs parseRequestsFromReader / processRequests / SendCommandsWithRetry / SendCommands / Peer.query",
        "assumptions": ["a sender that waits for a peer in warning/pending state sleeps in real time; such scenarios run in the thorough tier only", "the client closes its write side after the last request"],
    },
    "C16": {
        "lean_modules": ["C16", "C16Whole"],
        "run": c16.run,
        "rule": "worlds of 1-3 real peers (up / down / warning / answering log queries with error500, garbage, closing early, bad JSON, truncated) wired to scripted backends holding 0-6 log rows each; "
                "12-16 generated GET log requests per world: column lists mixing backend columns, peer_key / peer_name, duplicates and unknown columns in any order, 0-3 Sort keys inside or outside the column list "
                "(numeric, string, LMD-side, list typed), Limit, Offset, filters, Stats counters and sum/min/max/avg with and without group-by columns, Backends headers incl. unknown ids, json / wrapped_json; "
                "compared: which backends were asked, the text of the sub-request each received, rows / order / window / total_count / failed map / Stats values against Lmd.ptData / ptStats fed with the replies the backends really gave",
        "correspondence": "Lmd.ptPlan / subRequest / spliceRow / ptData / ptStats vs BuildPassThroughResult / PassThroughQuery / PostProcessing / Less / CalculateFinalStats",
        "assumptions": ["the backend evaluates the forwarded filter and Stats itself (its replies are data of the step)", "Filter / Stats on LMD-side columns are forwarded verbatim and not generated",
                        "group-by keys are strings and small integers (Go's %v float formatting beyond 1e6 is not modelled)"],
    },
    "C20": {
        "lean_modules": ["C20", "C20Seq"],
        "run": c20.run,
        "rule": "a daemon started by the real initializeListeners / initializePeers (update loops and unix listeners running) against 1-4 scripted backends; 2-6 reloads per world, each running mainLoop's "
                "reload sequence with an edited configuration: no-op, add, re-add, remove, rename, point a connection at another backend's socket or at a dead address, reorder, add / remove a listener, two edits at once; "
                "a client hammers a listener that stays configured with a query on the unchanged backends during every reload; compared with Lmd.reloadPeers: order of the peer map, which Peer objects were kept / created, "
                "names, sources, state, data, number of queries each peer ever sent, open listeners, removed listeners refuse, sites and hosts served through every configured listener, every answer read during the reload",
        "correspondence": "Lmd.reloadPeers / freshEntry / initAllTables vs Daemon.initializePeers / initializeListeners / NewPeer / Nodes.Initialize",
        "assumptions": ["the reload sequence is driven in-process (mainLoop's body between reading the configuration and waiting for signals); signal delivery and config file parsing are not exercised",
                        "cluster mode (Nodes) and HTTP listeners are not exercised", "virtual clock frozen between steps: the update loops run but nothing is due"],
    },
    "C14": {
        "lean_modules": ["C14"],
        "run": c14.run,
        "rule": "(1) 600 (thorough 12000) generated requests over all tables (filter trees, Stats, Sort, AuthUser, WaitCondition, the *_with_info / *_with_state columns): Request.affectedTables vs Lmd.affectedTables, and Lmd.tablesRead "
                "must be a subset of what the implementation locks; (2) race-detector build: 2-3 scripted backends stamping every object with a version in 6 columns of different kinds, comments added/removed, timeperiods flipping, "
                "failures and restarts, virtual time running 50x, update loops ticking every 10 ms, 4-10 clients cycling through 22 query shapes (data, sorted, Stats, by-group, cross-table filters, virtual columns, id lists, AuthUser, WaitTrigger with existing and missing WaitObject, sites) "
                "over two real listeners for 3 s (thorough 3 x 15 s); every row is checked for one version, per-client monotonicity, JSON validity; race reports, crashes, hangs, refused clients are violations",
        "correspondence": "Lmd.affectedTables / tablesRead vs Request.affectedTables; schedules: race detector + torn-row oracle on the real daemon",
        "assumptions": ["partial: interleavings are sampled by the soak, not enumerated; the Lean theorems cover the locking discipline (every table read is locked, one global lock order, protocol model), not the Go memory model",
                        "static columns read without a lock by the authorisation check are not writes' targets and are outside tablesRead"],
    },
    "C09": {
        "lean_modules": ["C09", "C09Total"],
        "run": c09.run,
        "rule": "a worker process (crash isolated, time limited) is fed (i) every table x every column x 16-19 request constructs (Columns, Filter with each value class, Negate, Sort, Limit, Stats aggregates and counters, group-by, ColumnHeaders, custom variable forms) "
                "on a three-backend dataset with host comments/downtimes and flavours without optional columns, (ii) ~90 hand-written malformed requests in both parse modes and 300 (thorough 3000) byte-mutated generated requests, (iii) WaitTrigger/WaitObject/WaitCondition forms, "
                "(iv) a real Peer against a scripted backend that fails in 7 modes at each of the first queries of the initial synchronisation and of an update run; verdict: the worker is alive, answered in time, control queries are still answered correctly",
        "correspondence": "exit status / liveness of the worker; control queries vs the model",
        "assumptions": ["memory-safety faults, deadlocks and unbounded waits can only be exhibited, not excluded, by this check (partial: see DESIGN.md)"],
    },
    "C04": {
        "lean_modules": ["C04", "C04Union"],
        "run": mk_query_runner(c04_opts, 500, 8000),
        "rule": "1-5 importer-loaded backends with any subset put into down/pending/broken/warning state x Backends headers (subset, unknown ids, duplicates, empty) x tables x json/wrapped_json",
        "correspondence": "Lmd.selectBackends / backendAvailable / dataQuery vs ExpandRequestedBackends / prepareResponse / NewResponse",
        "assumptions": QUERY_ASSUMPTIONS,
    },
}
