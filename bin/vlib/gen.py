"""Generators for datasets and requests.  Every random choice comes from the one `random.Random`
passed in, which is seeded from VERIF_SEED by the caller."""

import json

HOST_NAMES = ["web1", "Web1", "WEB1", "web10", "db.example.com", "db.Example.com", "dbXexample.com",
              "srv-é1", "SRV-É1", "host_1", "host_10", "alpha", "Alpha.beta", "zeta", "a.b", "mail.1",
              "ñandu", "Über", "über", "lower.only", "x"]
SVC_NAMES = ["Ping", "ping", "HTTP", "http.check", "Load", "Disk /", "disk /var", "CPU é", "s1", "S1", "Zombie Procs"]
GROUP_NAMES = ["Everything", "everything", "linux", "Linux.Servers", "web", "g1", "G1", "prod.é"]
SGROUP_NAMES = ["Http Check", "http", "critical", "Critical", "sg.1"]
CONTACTS = ["alice", "bob", "Carol", "dave", "omdadmin"]
CV_NAMES = ["SITE", "TEST", "Loc", "OS", "EMPTY"]
CV_VALUES = ["prod", "Prod", "1", "linux", "", "a b", "x.y"]
WORDS = ["OK", "ok", "CRITICAL", "rta 0.008ms", "lost 0%", "warn.ing", "é ok", "Disk full", "a|b", "(x)", "50%", "x*y", "q?"]
FLAG_SETS = [[], ["Naemon"], ["Naemon", "HasLastUpdateColumn", "HasDependencyColumn"], ["Icinga2"], ["Shinken"],
             ["Naemon", "HasStalenessColumn", "HasEventHandlerColumn"]]


def rstr(rng, pool, extra_p=0.15):
    if rng.random() < extra_p:
        return rng.choice(["", "zz", "A", "é", "x.y", "0", "some text here"])
    return rng.choice(pool)


def rnum_small(rng):
    return rng.choice([0, 0, 1, 1, 2, 3])


def rint64(rng):
    return rng.choice([0, 1, 5, 127, 128, 129, 255, 256, 257, 300, 1000, 65536, 1557953921, 1700000000, 1700000123, -1, -129])


def rfloat(rng):
    # dyadic decimals with at most three fraction digits: exactly representable, sums are exact
    return rng.choice([0, 0.125, 0.25, 0.5, 0.75, 1, 1.5, 2.375, 10.625, 100, -1, -0.5, -2.25, 3, 7.875])


def rlist(rng, pool, maxlen=3):
    n = rng.choice([0, 0, 1, 1, 2, maxlen])
    n = min(n, len(pool))
    return rng.sample(pool, n)


def gen_custom_vars(rng):
    names = rlist(rng, CV_NAMES, 3)
    values = [rng.choice(CV_VALUES) for _ in names]
    return names, values


def sort_key_bytes(s):
    return s.encode("utf-8")


def gen_backend(rng, idx, opts):
    """one backend: tables with a column subset that covers every storage class"""
    bid = ["a", "b", "c", "d", "e"][idx]
    flags = list(rng.choice(FLAG_SETS))
    has_naemon = "Naemon" in flags
    nhosts = rng.choice(opts.get("nhosts", [0, 1, 2, 3, 5, 8]))
    hostnames = rng.sample(HOST_NAMES, min(nhosts, len(HOST_NAMES)))
    hostnames.sort(key=sort_key_bytes)
    groups_pool = rng.sample(GROUP_NAMES, rng.choice([0, 1, 2, 3, 4]))
    sgroups_pool = rng.sample(SGROUP_NAMES, rng.choice([0, 1, 2, 3]))
    contacts_pool = CONTACTS

    host_cols = ["name", "alias", "address", "display_name", "state", "has_been_checked", "acknowledged",
                 "scheduled_downtime_depth", "groups", "contacts", "custom_variable_names", "custom_variable_values",
                 "latency", "execution_time", "last_check", "next_check", "num_services", "plugin_output",
                 "long_plugin_output", "comments", "downtimes", "notes", "check_command", "parents", "services",
                 "modified_attributes_list", "current_attempt", "percent_state_change", "last_state_change", "worst_service_state"]
    if has_naemon:
        host_cols += ["obsess", "hourly_value", "check_source"]
    if "HasLastUpdateColumn" in flags:
        host_cols += ["last_update"]
    if "Shinken" in flags:
        host_cols += ["is_impact", "realm", "source_problems"]
    host_rows = []
    host_groups = {}
    host_services = {}
    for h in hostnames:
        names, values = gen_custom_vars(rng)
        hg = rlist(rng, groups_pool, 3)
        host_groups[h] = hg
        row = {
            "name": h, "alias": rstr(rng, HOST_NAMES + ["Alias One"]), "address": rng.choice(["127.0.0.1", "10.0.0.5", "fe80::1", h]),
            "display_name": rng.choice([h, h.upper(), "Display " + h]), "state": rng.choice([0, 0, 1, 2, 3]),
            "has_been_checked": rng.choice([0, 1, 1]), "acknowledged": rng.choice([0, 0, 1]),
            "scheduled_downtime_depth": rng.choice([0, 0, 1, 2, 127, 128, 300]),
            "groups": hg, "contacts": rlist(rng, contacts_pool, 3),
            "custom_variable_names": names, "custom_variable_values": values,
            "latency": rfloat(rng), "execution_time": rfloat(rng), "last_check": rint64(rng), "next_check": rint64(rng),
            "num_services": rng.choice([0, 1, 2, 8, 200]), "plugin_output": rstr(rng, WORDS),
            "long_plugin_output": rng.choice(["", "", "long\\nline", "x" * rng.choice([3, 600])]),
            "comments": [], "downtimes": [], "notes": rstr(rng, WORDS), "check_command": rng.choice(["check-host-alive", "check_ping!100,20%"]),
            "parents": rlist(rng, HOST_NAMES, 2), "services": [],
            "modified_attributes_list": rlist(rng, ["notifications_enabled", "active_checks_enabled"], 2),
            "current_attempt": rnum_small(rng), "percent_state_change": rfloat(rng), "last_state_change": rng.choice([0, 1557953249, 1700000000]),
            "worst_service_state": rng.choice([0, 1, 2, 3]),
            "obsess": rng.choice([0, 1]), "hourly_value": rng.choice([0, 1, 5, 300]), "check_source": rng.choice(["", "Core Worker 1"]),
            "last_update": rint64(rng), "is_impact": rng.choice([0, 1]), "realm": rng.choice(["", "All"]), "source_problems": rlist(rng, HOST_NAMES, 2),
        }
        host_rows.append(row)

    svc_cols = ["host_name", "description", "display_name", "state", "has_been_checked", "acknowledged", "scheduled_downtime_depth",
                "groups", "contacts", "custom_variable_names", "custom_variable_values", "latency", "execution_time",
                "last_check", "next_check", "plugin_output", "long_plugin_output", "comments", "downtimes", "notes",
                "check_command", "current_attempt", "percent_state_change", "last_state_change"]
    if has_naemon:
        svc_cols += ["obsess", "hourly_value", "check_source"]
    if "HasLastUpdateColumn" in flags:
        svc_cols += ["last_update"]
    svc_rows = []
    svc_groups = {}
    for h in hostnames:
        ns = rng.choice(opts.get("nsvcs", [0, 1, 1, 2, 3, 4]))
        svcs = rng.sample(SVC_NAMES, min(ns, len(SVC_NAMES)))
        host_services[h] = sorted(svcs, key=sort_key_bytes)
        for s in svcs:
            names, values = gen_custom_vars(rng)
            sg = rlist(rng, sgroups_pool, 2)
            svc_groups[(h, s)] = sg
            svc_rows.append({
                "host_name": h, "description": s, "display_name": rng.choice([s, s.upper()]), "state": rng.choice([0, 0, 1, 2, 3]),
                "has_been_checked": rng.choice([0, 1, 1]), "acknowledged": rng.choice([0, 0, 1]),
                "scheduled_downtime_depth": rng.choice([0, 0, 1, 2, 128]), "groups": sg, "contacts": rlist(rng, contacts_pool, 3),
                "custom_variable_names": names, "custom_variable_values": values, "latency": rfloat(rng), "execution_time": rfloat(rng),
                "last_check": rint64(rng), "next_check": rint64(rng), "plugin_output": rstr(rng, WORDS),
                "long_plugin_output": rng.choice(["", "", "more"]), "comments": [], "downtimes": [], "notes": rstr(rng, WORDS),
                "check_command": rng.choice(["check_ping", "check_http!-H x"]), "current_attempt": rnum_small(rng),
                "percent_state_change": rfloat(rng), "last_state_change": rng.choice([0, 1557953249]),
                "obsess": rng.choice([0, 1]), "hourly_value": rng.choice([0, 1, 300]), "check_source": rng.choice(["", "w1"]), "last_update": rint64(rng),
            })
    svc_rows.sort(key=lambda r: (sort_key_bytes(r["host_name"]), sort_key_bytes(r["description"])))
    for r in host_rows:
        r["services"] = host_services[r["name"]]

    # comments / downtimes with ids beyond 8 bit, attached to hosts and services
    comments, downtimes = [], []
    ids = rng.sample([1, 2, 3, 7, 9, 10, 100, 127, 128, 129, 255, 256, 300, 511, 1000, 70000], rng.choice([0, 1, 2, 4, 6]))
    ids.sort()
    targets = [(h, "") for h in hostnames] + [(r["host_name"], r["description"]) for r in svc_rows]
    host_by = {r["name"]: r for r in host_rows}
    svc_by = {(r["host_name"], r["description"]): r for r in svc_rows}
    for i in ids:
        if not targets:
            break
        h, s = rng.choice(targets)
        is_comment = rng.random() < 0.5
        if is_comment:
            comments.append({"id": i, "host_name": h, "service_description": s, "author": rng.choice(CONTACTS), "comment": rstr(rng, WORDS),
                             "entry_time": rint64(rng), "entry_type": rng.choice([1, 2, 3, 4]), "expires": rng.choice([0, 1]), "expire_time": rint64(rng),
                             "persistent": rng.choice([0, 1]), "source": 0, "type": 1 if s == "" else 2, "is_service": 0 if s == "" else 1})
            (host_by[h] if s == "" else svc_by[(h, s)])["comments"].append(i)
        else:
            downtimes.append({"id": i, "host_name": h, "service_description": s, "author": rng.choice(CONTACTS), "comment": rstr(rng, WORDS),
                              "entry_time": rint64(rng), "start_time": rint64(rng), "end_time": rint64(rng), "fixed": rng.choice([0, 1]),
                              "duration": rng.choice([0, 60, 7200]), "triggered_by": rng.choice([0, 0, 300]), "type": 1 if s == "" else 2, "is_service": 0 if s == "" else 1})
            (host_by[h] if s == "" else svc_by[(h, s)])["downtimes"].append(i)

    # groups: members mostly consistent with the hosts' groups lists, sometimes not
    hg_rows = []
    for g in sorted(groups_pool, key=sort_key_bytes):
        members = [h for h in hostnames if g in host_groups[h]]
        if opts.get("inconsistent_groups", False) and rng.random() < 0.15 and hostnames:
            members = rng.sample(hostnames, rng.choice([0, 1, min(2, len(hostnames))]))
        hg_rows.append({"name": g, "alias": g + " alias", "members": members, "num_hosts": len(members)})
    sg_rows = []
    for g in sorted(sgroups_pool, key=sort_key_bytes):
        members = [[h, s] for (h, s) in sorted(svc_groups, key=lambda k: (sort_key_bytes(k[0]), sort_key_bytes(k[1]))) if g in svc_groups[(h, s)]]
        if opts.get("inconsistent_groups", False) and rng.random() < 0.15 and svc_rows:
            pick = rng.sample(svc_rows, rng.choice([0, 1, min(2, len(svc_rows))]))
            members = [[r["host_name"], r["description"]] for r in pick]
        sg_rows.append({"name": g, "alias": g + " alias", "members": members, "num_services": len(members)})

    contact_rows = [{"name": c, "alias": c.upper(), "email": c + "@example.com", "host_notifications_enabled": 1} for c in sorted(CONTACTS, key=sort_key_bytes)]

    def table(cols, rows):
        return {"cols": cols, "rows": [[r[c] for c in cols] for r in rows]}

    tables = {
        "hosts": table(host_cols, host_rows),
        "services": table(svc_cols, svc_rows),
        "hostgroups": table(["name", "alias", "members", "num_hosts"], hg_rows),
        "servicegroups": table(["name", "alias", "members", "num_services"], sg_rows),
        "comments": table(["id", "host_name", "service_description", "author", "comment", "entry_time", "entry_type", "expires", "expire_time", "persistent", "source", "type", "is_service"], comments),
        "downtimes": table(["id", "host_name", "service_description", "author", "comment", "entry_time", "start_time", "end_time", "fixed", "duration", "triggered_by", "type", "is_service"], downtimes),
        "contacts": table(["name", "alias", "email", "host_notifications_enabled"], contact_rows),
        "status": {"cols": ["program_start", "program_version", "nagios_pid", "enable_notifications"], "rows": [[1700000000, "1.4.2", 4242, 1]]},
    }
    return {"id": bid, "name": "Backend " + bid.upper(), "flags": flags, "state": "up", "error": "", "tables": tables}


def auth_spelling(rng, value, default):
    """the configuration file may spell ServiceAuthorization / GroupAuthorization in any case; a word that is neither loose nor
    strict means the setting's default (loose for services, strict for groups)"""
    r = rng.random()
    if r < 0.7:
        return value
    if r < 0.8:
        return value.upper()
    if r < 0.9:
        return value.capitalize()
    if value == default and r < 0.95:
        return rng.choice(["relaxed", "none", "Strictly"])
    return value[0].upper() + value[1:-1] + value[-1].upper()


def gen_dataset(rng, opts=None):
    opts = opts or {}
    nb = rng.choice(opts.get("nbackends", [1, 1, 2, 2, 3, 4]))
    backends = [gen_backend(rng, i, opts) for i in range(nb)]
    if opts.get("states"):
        for b in backends:
            r = rng.random()
            if r < 0.25:
                b["state"] = "down"
                b["error"] = rng.choice(["connection refused", "dial unix verif.sock: connect: no such file or directory"])
            elif r < 0.35:
                b["state"] = "pending"
                b["error"] = "connecting..."
            elif r < 0.45:
                b["state"] = "broken"
                b["error"] = "broken: got more services than expected. Hint: check clients 'max_response_size' setting."
            elif r < 0.55:
                b["state"] = "warning"
                b["error"] = "read timeout"
    if len(backends) >= 2 and rng.random() < opts.get("zero_backend_p", 0):
        # one backend whose numbers are all 0 although it has rows: its partial sums are 0, its row counts are not
        b = rng.choice(backends[1:] if rng.random() < 0.7 else backends)
        for tname in ("hosts", "services"):
            t = b["tables"].get(tname)
            if not t:
                continue
            for cname in AGG_COLS.get(tname, []):
                if cname in t["cols"] and cname not in ("state", "last_check", "num_services", "host_num_services"):
                    i = t["cols"].index(cname)
                    for row in t["rows"]:
                        row[i] = 0
    ds = {"backends": backends,
          "service_auth": auth_spelling(rng, rng.choice(opts.get("service_auth", ["loose"])), "loose"),
          "group_auth": auth_spelling(rng, rng.choice(opts.get("group_auth", ["strict"])), "strict")}
    return ds


# ---------------------------------------------------------------------------------------------
# requests

class Schema:
    def __init__(self, raw):
        self.raw = raw
        self.tables = {t["name"]: t for t in raw["tables"]}

    def cols(self, table):
        return self.tables[table]["columns"]

    def col(self, table, name):
        for c in self.cols(table):
            if c["name"] == name:
                return c
        return None


MODELLED_VIRTUAL = {"peer_key", "peer_name", "custom_variables", "state_order", "has_long_plugin_output", "total_services",
                    "host_peer_key", "host_peer_name", "host_custom_variables", "peer_section"}


def dataset_values(ds, table, colname):
    """values of a local column over all backends (for picking right-hand sides that match something)"""
    vals = []
    for b in ds["backends"]:
        t = b["tables"].get(table)
        if not t or colname not in t["cols"]:
            continue
        i = t["cols"].index(colname)
        for r in t["rows"]:
            vals.append(r[i])
    return vals


def usable_columns(schema, ds, table):
    """columns of `table` the model covers, with where their values come from"""
    out = []
    present = set()
    for b in ds["backends"]:
        t = b["tables"].get(table)
        if t:
            present.update(t["cols"])
    tab = schema.tables[table]
    for c in tab["columns"]:
        name, st = c["name"], c["storage"]
        if c["dtype"] in ("InterfaceListCol",):
            continue
        if st == "LocalStore":
            if name in present or name.endswith("_lc"):
                out.append(c)
        elif st == "RefStore":
            rc = schema.col(c["reftable"], c["refcol"])
            if rc is None:
                continue
            if rc["storage"] == "VirtualStore" and rc["name"] not in MODELLED_VIRTUAL:
                continue
            if rc["dtype"] in ("InterfaceListCol",):
                continue
            refpresent = set()
            for b in ds["backends"]:
                t = b["tables"].get(c["reftable"])
                if t:
                    refpresent.update(t["cols"])
            if rc["storage"] == "LocalStore" and rc["name"] not in refpresent and not rc["name"].endswith("_lc"):
                continue
            out.append(c)
        else:
            if name in MODELLED_VIRTUAL:
                out.append(c)
    return out


def source_values(schema, ds, table, col):
    vals = _source_values(schema, ds, table, col)
    # a request line cannot carry line breaks
    return [v for v in vals if not (isinstance(v, str) and ("\n" in v or "\r" in v))]


def _source_values(schema, ds, table, col):
    if col["storage"] == "LocalStore":
        base = col["name"][:-3] if col["name"].endswith("_lc") else col["name"]
        return dataset_values(ds, table, base)
    if col["storage"] == "RefStore":
        rc = schema.col(col["reftable"], col["refcol"])
        base = rc["name"][:-3] if rc["name"].endswith("_lc") else rc["name"]
        return dataset_values(ds, col["reftable"], base)
    if col["name"].endswith("peer_key"):
        return [b["id"] for b in ds["backends"]]
    if col["name"].endswith("peer_name"):
        return [b["name"] for b in ds["backends"]]
    return []


STR_OPS = ["=", "!=", "=~", "!=~", "~", "!~", "~~", "!~~", "<", "<=", ">", ">="]
NUM_OPS = ["=", "!=", "<", "<=", ">", ">="]
LIST_OPS = [">=", "!>=", "<=", "=", "!=", "~", "~~", "!~", "!~~"]
IDLIST_OPS = [">=", "!>=", "=", "!="]
ALL_OPS = ["=", "!=", "=~", "!=~", "~", "!~", "~~", "!~~", "<", "<=", ">", ">=", "!>=", "like", "unlike", "ilike", "iunlike"]


def _case_in_alphabet(f, s):
    """case mapping character by character, staying inside the model's alphabet (ASCII + Latin-1): characters whose partner
    lies outside it (ÿ/Ÿ, µ/Μ, ß/SS) are left alone"""
    out = []
    for ch in s:
        m = f(ch)
        out.append(m if len(m) == 1 and ord(m) <= 0xFF and ord(ch) <= 0xFF else ch)
    return "".join(out)


def mutate_case(rng, s):
    r = rng.random()
    if r < 0.3:
        return _case_in_alphabet(str.upper, s)
    if r < 0.6:
        return _case_in_alphabet(str.lower, s)
    if r < 0.8:
        return _case_in_alphabet(str.swapcase, s)
    return s


def regexify(rng, s):
    """turn a string into a pattern of the modelled regex subset that is related to it"""
    if not s:
        return rng.choice(["^$", ".", ".*", "x"])
    r = rng.random()
    esc = "".join("\\" + c if c in ".|()[]{}*+?^$\\" else c for c in s)
    sub = s[rng.randrange(len(s)):][: rng.choice([1, 2, 3, 5])]
    sube = "".join("\\" + c if c in ".|()[]{}*+?^$\\" else c for c in sub)
    if r < 0.12:
        return "^" + s + "$"        # unescaped: dots stay dots (the host-name heuristic)
    if r < 0.22:
        return "^" + esc + "$"
    if r < 0.32:
        return sub                     # plain substring (may contain a dot)
    if r < 0.40:
        return ".*" + sub
    if r < 0.48:
        return sub + ".*"
    if r < 0.54:
        return ".*" + sube + ".*"
    if r < 0.60:
        return "^" + sube
    if r < 0.66:
        return sube + "$"
    if r < 0.72:
        return "(" + sube + "|zz)"
    if r < 0.78:
        return "[" + (s[0] if s[0] not in "]^\\-[" else "a") + "x]" + "".join("\\" + c if c in ".|()[]{}*+?^$\\" else c for c in s[1:3])
    if r < 0.83:
        return sube + "+"
    if r < 0.88:
        return "^\\S+" + sube[-2:] + "$"
    if r < 0.92:
        # escape classes: the upper-case ones change their meaning when a pattern is lower-cased
        return rng.choice(["\\d", "\\D+", "\\W", "^\\S+$", "\\S\\W", "^\\D"])
    if r < 0.95:
        return "^[A-Z]"
    if r < 0.97:
        return s[:1] + "." + s[2:4]
    return rng.choice(["(", "*x", "[a", "a**", "x)", "\\"])   # invalid patterns


def gen_index_leaf(rng, schema, ds, table):
    """a leaf of one of the shapes the host/service/primary-key index pre-selection handles"""
    hosts = dataset_values(ds, "hosts", "name") or ["web1"]
    hgroups = dataset_values(ds, "hostgroups", "name") or ["linux"]
    sgroups = dataset_values(ds, "servicegroups", "name") or ["http"]
    h = rng.choice(hosts)
    if table in ("hosts", "services"):
        col = "name" if table == "hosts" else "host_name"
        gcol = "groups" if table == "hosts" else "host_groups"
        if rng.random() < 0.08:
            # the columns with a lower-case copy: a case-insensitive pattern is matched against the copy in lower case - unless
            # that would change its meaning (an upper-case escape class)
            lcol = rng.choice(["name", "alias", "address", "display_name"] if table == "hosts" else ["host_name", "description", "display_name", "host_name"])
            tail = "".join("\\" + c if c in ".|()[]{}*+?^$\\" else c for c in h[-2:])
            pat = rng.choice(["^\\S+" + tail + "$", "\\W" + tail, "^\\D+$", "^\\S+$", "\\S\\W\\S", "^\\S+" + tail.upper() + "$"])
            return "%s %s %s" % (lcol, rng.choice(["~~", "!~~", "!~~"]), pat)
        r = rng.random()
        if r < 0.25:
            return "%s = %s" % (col, h if rng.random() < 0.8 else mutate_case(rng, h))
        if r < 0.40:
            return "%s =~ %s" % (col, mutate_case(rng, h))
        if r < 0.55:
            return "%s %s %s" % (col, rng.choice(["~", "~~"]), regexify(rng, mutate_case(rng, h) if rng.random() < 0.5 else h))
        if r < 0.75:
            return "%s >= %s" % (gcol, rng.choice(hgroups))
        if r < 0.88:
            g = rng.choice(hgroups)
            return "%s %s %s" % (gcol, rng.choice(["~", "~~"]), regexify(rng, mutate_case(rng, g) if rng.random() < 0.5 else g))
        if table == "services":
            if rng.random() < 0.7:
                return "groups >= %s" % rng.choice(sgroups)
            return "groups %s %s" % (rng.choice(["~", "~~"]), regexify(rng, rng.choice(sgroups)))
        return "%s = %s" % (col, h)
    keys = key_columns(table)
    if len(keys) == 1:
        vals = dataset_values(ds, table, keys[0])
        v = rng.choice(vals) if vals else "x"
        v = fmt_num(v) if isinstance(v, (int, float)) else v
        op = rng.choice(["=", "=", "=~"])
        return "%s %s %s" % (keys[0], op, mutate_case(rng, v) if op == "=~" else v)
    return None


def gen_leaf(rng, schema, ds, table, cols, opts):
    if rng.random() < opts.get("index_p", 0.2):
        leaf = gen_index_leaf(rng, schema, ds, table)
        if leaf:
            return leaf
    col = rng.choice(cols)
    dt = col["dtype"]
    name = col["name"]
    vals = source_values(schema, ds, table, col)
    wild = rng.random() < opts.get("wild_ops", 0.08)
    if dt in ("StringCol", "StringLargeCol", "JSONCol"):
        op = rng.choice(ALL_OPS if wild else STR_OPS)
        strs = [v for v in vals if isinstance(v, str)]
        base = rng.choice(strs) if strs and rng.random() < 0.8 else rstr(rng, HOST_NAMES + WORDS)
        if op in ("~~", "!~~") and rng.random() < 0.12:
            # a case-insensitive pattern with an upper-case escape class must not be lower-cased (\S is not \s); the tail of a
            # real value makes it match some rows and not others
            tail = "".join("\\" + c if c in ".|()[]{}*+?^$\\" else c for c in base[-2:])
            val = rng.choice(["^\\S+" + tail + "$", "\\W" + tail, "^\\D+$", "\\S\\W\\S", "^\\S+$", "\\D" + tail + "$"])
        elif op in ("~", "!~", "~~", "!~~"):
            val = regexify(rng, mutate_case(rng, base) if "~~" in op and rng.random() < 0.5 else base)
        elif op in ("=~", "!=~"):
            val = mutate_case(rng, base)
        elif op in ("like", "unlike", "ilike", "iunlike"):
            val = base[rng.randrange(len(base)):][:3] if base else ""
        else:
            val = base if rng.random() < 0.85 else ""
        return "%s %s %s" % (name, op, val)
    if dt in ("IntCol", "Int64Col", "FloatCol"):
        op = rng.choice(ALL_OPS if wild else NUM_OPS)
        nums = [v for v in vals if isinstance(v, (int, float)) and not isinstance(v, bool)]
        r = rng.random()
        if op in ("~", "!~", "~~", "!~~"):
            val = rng.choice(["1", "^1", "0$", "\\d\\d", "5"])
        elif r < 0.08:
            val = ""
        elif r < 0.6 and nums:
            v = rng.choice(nums)
            val = fmt_num(v)
        elif dt == "FloatCol":
            val = fmt_num(rfloat(rng))
        else:
            val = fmt_num(rng.choice([0, 1, 2, 3, 127, 128, 255, 256, 257, 300, -1, 1000, 1557953921]))
        return "%s %s %s" % (name, op, val)
    if dt == "StringListCol":
        op = rng.choice(ALL_OPS if wild else LIST_OPS)
        flat = [x for v in vals if isinstance(v, list) for x in v if isinstance(x, str)]
        base = rng.choice(flat) if flat and rng.random() < 0.8 else rstr(rng, GROUP_NAMES + CONTACTS)
        if op in ("~", "!~", "~~", "!~~"):
            val = regexify(rng, base)
        elif op in ("=", "!="):
            val = "" if rng.random() < 0.7 else base
        else:
            val = base if rng.random() < 0.9 else mutate_case(rng, base)
        return "%s %s %s" % (name, op, val)
    if dt == "Int64ListCol":
        op = rng.choice(ALL_OPS if wild else IDLIST_OPS)
        flat = [x for v in vals if isinstance(v, list) for x in v]
        if op in ("=", "!="):
            val = "" if rng.random() < 0.8 else "1"
        elif flat and rng.random() < 0.7:
            val = str(rng.choice(flat))
        else:
            val = str(rng.choice([1, 2, 127, 128, 256, 300, 44, 70000]))
        if op in ("~", "!~", "~~", "!~~"):
            val = "1"
        return "%s %s %s" % (name, op, val)
    if dt == "CustomVarCol":
        op = rng.choice(STR_OPS)
        tag = rng.choice(CV_NAMES + ["MISSING"])
        r = rng.random()
        if op in ("~", "!~", "~~", "!~~"):
            return "%s %s %s %s" % (name, op, tag, regexify(rng, rng.choice(CV_VALUES)))
        if r < 0.2:
            return "%s %s %s" % (name, op, tag)
        return "%s %s %s %s" % (name, op, tag, mutate_case(rng, rng.choice(CV_VALUES)) if "~" in op else rng.choice(CV_VALUES))
    if dt == "ServiceMemberListCol":
        return "%s %s %s" % (name, rng.choice([">=", "="]), "x")
    return "%s = x" % name


def fmt_num(v):
    if isinstance(v, float) and v != int(v):
        s = ("%.3f" % v).rstrip("0").rstrip(".")
        return s
    return str(int(v))


def gen_tree(rng, schema, ds, table, cols, opts, prefix, depth):
    """postfix header lines for one filter tree; `prefix` is Filter / Stats"""
    lines = []
    group_kw = {"Filter": ("And", "Or", "Negate"), "Stats": ("StatsAnd", "StatsOr", "StatsNegate")}[prefix]
    if depth <= 0 or rng.random() < 0.45:
        lines.append("%s: %s" % (prefix, gen_leaf(rng, schema, ds, table, cols, opts)))
    else:
        n = rng.choice([1, 2, 2, 3])
        for _ in range(n):
            sub = gen_tree(rng, schema, ds, table, cols, opts, prefix, depth - 1)
            # inside a Stats group the members are plain Stats lines as well
            lines += sub
        lines.append("%s: %d" % (rng.choice(group_kw[:2]), n))
    pn = opts.get("negate_p", 0.25)
    if rng.random() < pn:
        lines.append("%s:" % group_kw[2])
        if rng.random() < opts.get("double_negate_p", 0.15):
            lines.append("%s:" % group_kw[2])
    return lines


def gen_index_shape(rng, schema, ds, table, cols, opts):
    """filters built around the index pre-selection: an indexable term next to sub-groups that hold no indexable term,
    negated terms, or indexable terms of their own, under Or and And parents"""
    def plain():
        return ["Filter: " + gen_leaf(rng, schema, ds, table, cols, dict(opts, index_p=0.0))]

    def indexed():
        leaf = gen_index_leaf(rng, schema, ds, table)
        return ["Filter: " + leaf] if leaf else plain()

    def group():
        k = rng.choice([1, 2, 2])
        members = []
        for _ in range(k):
            members += indexed() if rng.random() < 0.4 else plain()
            if rng.random() < 0.15:
                members.append("Negate:")
        members.append("%s: %d" % (rng.choice(["And", "And", "Or"]), k))
        if rng.random() < 0.3:
            members.append("Negate:")
        return members

    parts = [indexed(), group()]
    if rng.random() < 0.4:
        parts.append(rng.choice([plain, indexed, group])())
    rng.shuffle(parts)
    lines = [l for part in parts for l in part]
    lines.append("%s: %d" % (rng.choice(["Or", "Or", "And"]), len(parts)))
    if rng.random() < 0.1:
        lines.append("Negate:")
    return lines


def gen_filter_lines(rng, schema, ds, table, cols, opts):
    lines = []
    if table in ("hosts", "services", "hostgroups", "servicegroups", "comments", "downtimes", "contacts") and rng.random() < opts.get("index_shape_p", 0.1):
        try:
            return gen_index_shape(rng, schema, ds, table, cols, opts)
        except (IndexError, KeyError, ValueError):
            pass
    n = rng.choice(opts.get("nfilters", [0, 1, 1, 1, 2, 3]))
    for _ in range(n):
        lines += gen_tree(rng, schema, ds, table, cols, opts, "Filter", rng.choice(opts.get("depth", [0, 1, 2, 3])))
    if n >= 2 and rng.random() < 0.3:
        lines.append("%s: %d" % (rng.choice(["And", "Or"]), n))
        if rng.random() < 0.3:
            lines.append("Negate:")
    return lines


def pick_output_columns(rng, cols, k=None):
    simple = [c for c in cols]
    k = k or rng.choice([1, 2, 3, 5])
    chosen = rng.sample(simple, min(k, len(simple)))
    return [c["name"] for c in chosen]


QUERY_TABLES = ["hosts", "hosts", "services", "services", "hostgroups", "servicegroups", "comments", "downtimes", "contacts",
                "hostsbygroup", "servicesbygroup", "servicesbyhostgroup"]


def key_columns(table):
    return {"hosts": ["name"], "services": ["host_name", "description"], "hostgroups": ["name"], "servicegroups": ["name"],
            "comments": ["id"], "downtimes": ["id"], "contacts": ["name"], "hostsbygroup": ["name", "hostgroup_name"],
            "servicesbygroup": ["host_name", "description", "servicegroup_name"],
            "servicesbyhostgroup": ["host_name", "description", "hostgroup_name"]}.get(table, [])


def gen_index_window_query(rng, schema, ds):
    """the rows an index pre-selection hands over, cut by the per-backend early cut: services of one host (or one host
    group) in the table's default order with a Limit below the number of its services"""
    svcs = {}
    for b in ds["backends"]:
        t = b["tables"].get("services")
        if t and "host_name" in t["cols"]:
            i = t["cols"].index("host_name")
            for r in t["rows"]:
                svcs[r[i]] = svcs.get(r[i], 0) + 1
    if not svcs:
        return None
    host = max(sorted(svcs), key=lambda h: svcs[h]) if rng.random() < 0.7 else rng.choice(sorted(svcs))
    flt = rng.choice(["Filter: host_name = %s" % host, "Filter: host_name = %s" % host, "Filter: host_name ~ ^%s$" % host.replace(".", "\\."), "Filter: host_groups >= %s" % rng.choice(GROUP_NAMES)])
    lines = ["GET services", "Columns: host_name description state" + (" peer_key" if rng.random() < 0.5 else ""), flt,
             "Sort: host_name asc", "Sort: description asc", "Limit: %d" % rng.choice([1, 1, 2, 3])]
    if rng.random() < 0.4:
        lines.append("Offset: %d" % rng.choice([1, 2]))
    lines.append("OutputFormat: " + rng.choice(["json", "wrapped_json"]))
    return "\n".join(lines) + "\n\n"


def gen_data_query(rng, schema, ds, opts=None):
    opts = opts or {}
    if opts.get("index_window_p") and rng.random() < opts["index_window_p"]:
        q = gen_index_window_query(rng, schema, ds)
        if q:
            return q
    table = rng.choice(opts.get("tables", QUERY_TABLES))
    cols = usable_columns(schema, ds, table)
    out_cols = key_columns(table) + pick_output_columns(rng, cols)
    if rng.random() < 0.5:
        out_cols.append("peer_key")
    # the columns lmd computes by looking the members / services up in another table (their states)
    state_lists = {"hosts": ["services_with_state", "services_with_info", "comments_with_info", "downtimes_with_info"], "hostgroups": ["members_with_state"],
                   "servicegroups": ["members_with_state"], "services": ["comments_with_info", "downtimes_with_info", "host_comments_with_info", "host_downtimes_with_info"]}
    if table in state_lists and rng.random() < 0.35:
        out_cols.insert(rng.randrange(1, len(out_cols) + 1), rng.choice(state_lists[table]))
    lines = ["GET " + table, "Columns: " + " ".join(out_cols)]
    lines += gen_filter_lines(rng, schema, ds, table, cols, opts)
    fmt = rng.choice(opts.get("formats", ["json", "wrapped_json", "wrapped_json"]))
    lines.append("OutputFormat: " + fmt)
    lines += gen_extra_headers(rng, schema, ds, table, cols, opts)
    return "\n".join(lines) + "\n\n"


def gen_extra_headers(rng, schema, ds, table, cols, opts):
    lines = []
    if opts.get("wait_p") and rng.random() < opts["wait_p"] and table in ("hosts", "services", "hostgroups", "servicegroups", "comments", "downtimes", "contacts"):
        # Wait headers (the wait itself is a matter of milliseconds): they have to survive printing
        lines.append("WaitTrigger: " + rng.choice(["all", "check", "state", "log", "downtime", "comment", "command", "program"]))
        if rng.random() < 0.6:
            obj = {"hosts": rng.choice(HOST_NAMES), "services": rng.choice(HOST_NAMES) + ";" + rng.choice(SVC_NAMES)}.get(table, rng.choice(["x", "1"]))
            lines.append("WaitObject: " + obj)
        for _ in range(rng.choice([0, 1, 1, 2])):
            lines += ["WaitCondition: " + gen_leaf(rng, schema, ds, table, cols, opts)]
        if sum(1 for l in lines if l.startswith("WaitCondition:")) == 2 and rng.random() < 0.7:
            lines.append(rng.choice(["WaitConditionAnd: 2", "WaitConditionOr: 2"]))
        if rng.random() < 0.2 and any(l.startswith("WaitCondition") for l in lines):
            lines.append("WaitConditionNegate:")
        lines.append("WaitTimeout: %d" % rng.choice([1, 5, 20]))
    if opts.get("sort") and rng.random() < opts["sort"]:
        nk = rng.choice([1, 1, 2, 3])
        sortable = [c for c in cols if c["dtype"] != "ServiceMemberListCol"]
        cvcols = [c["name"] for c in cols if c["name"] in ("custom_variables", "host_custom_variables")]
        if cvcols and rng.random() < opts.get("cv_sort_p", 0.08):
            # a custom variable as sort key, in both directions: rows that lack the variable go last (first when descending)
            lines.append("Sort: %s %s %s" % (rng.choice(cvcols), rng.choice(CV_NAMES), rng.choice(["asc", "desc", "desc"])))
        for _ in range(nk):
            c = rng.choice(sortable)
            d = rng.choice(["asc", "desc", "asc", "ASC", ""])
            if c["dtype"] == "CustomVarCol":
                if c["name"] not in ("custom_variables", "host_custom_variables"):
                    continue
                lines.append(("Sort: %s %s %s" % (c["name"], rng.choice(CV_NAMES + ["site"]), d or "asc")).rstrip())
            else:
                lines.append(("Sort: %s %s" % (c["name"], d)).rstrip())
        # the table's default order (triggers the per-backend early cut) and near misses of it
        r = rng.random()
        near_p = opts.get("near_default_p", 0.45)
        if r < near_p and table in ("hosts", "services"):
            lines = [l for l in lines if not l.startswith("Sort:")]
            keys = [["name", "asc"]] if table == "hosts" else [["host_name", "asc"], ["description", "asc"]]
            if r >= near_p * 0.4:
                m = rng.choice(["flip", "flip_last", "swap", "extra", "drop"])
                if m == "flip":
                    rng.choice(keys)[1] = "desc"
                elif m == "flip_last":
                    keys[-1][1] = "desc"
                elif m == "swap":
                    keys.reverse()
                elif m == "extra":
                    keys.append([rng.choice(["state", "plugin_output"]), rng.choice(["asc", "desc"])])
                elif m == "drop" and len(keys) > 1:
                    keys.pop(rng.randrange(len(keys)))
            lines += ["Sort: %s %s" % (k, d) for k, d in keys]
    if opts.get("limit") and rng.random() < opts["limit"]:
        lines.append("Limit: %d" % rng.choice([0, 1, 2, 3, 5, 10, 1000]))
    if opts.get("offset") and rng.random() < opts["offset"]:
        lines.append("Offset: %d" % rng.choice([0, 1, 2, 3, 7, 1000]))
    if opts.get("backends") and rng.random() < opts["backends"]:
        ids = [b["id"] for b in ds["backends"]]
        pick = rng.sample(ids, rng.randrange(0, len(ids) + 1))
        r = rng.random()
        if r < 0.3:
            pick.append(rng.choice(["nope", "zz"]))
        if r < 0.1:
            pick.append("nope")
        if pick and rng.random() < 0.2:
            pick.append(pick[0])
        rng.shuffle(pick)
        if pick:
            lines.append("Backends: " + " ".join(pick))
    if opts.get("authuser") and rng.random() < opts["authuser"]:
        lines.append("AuthUser: " + rng.choice(CONTACTS + ["nobody"]))
    if opts.get("colheaders") and rng.random() < opts["colheaders"]:
        lines.append("ColumnHeaders: " + rng.choice(["on", "off"]))
    return lines


AGG_COLS = {"hosts": ["latency", "execution_time", "state", "num_services", "last_check", "scheduled_downtime_depth", "percent_state_change", "current_attempt"],
            "services": ["latency", "execution_time", "state", "last_check", "percent_state_change", "current_attempt", "host_latency", "host_num_services"]}


def gen_stats_query(rng, schema, ds, opts=None):
    opts = opts or {}
    table = rng.choice(opts.get("tables", ["hosts", "services", "services", "hostgroups", "comments"]))
    cols = usable_columns(schema, ds, table)
    lines = ["GET " + table]
    group_cols = []
    if rng.random() < opts.get("groupby", 0.35):
        cands = [c["name"] for c in cols if c["dtype"] in ("StringCol", "IntCol", "Int64Col")]
        if rng.random() < 0.25:
            # grouping by a list column: the group key joins the elements with the separator that also joins the columns
            cands = cands + [c["name"] for c in cols if c["dtype"] in ("StringListCol", "Int64ListCol")] * 3
        group_cols = rng.sample(cands, min(rng.choice([1, 1, 2]), len(cands)))
        lines.append("Columns: " + " ".join(group_cols))
    lines += gen_filter_lines(rng, schema, ds, table, cols, dict(opts, nfilters=[0, 0, 1, 1, 2]))
    nstats = rng.choice([1, 2, 3, 4, 6, 8])
    simple_cols = [c for c in cols if c["dtype"] in ("IntCol", "StringCol", "Int64Col")]
    shared = None
    i = 0
    while i < nstats:
        r = rng.random()
        if r < 0.25 and table in AGG_COLS:
            # mostly numbers; sometimes any column (a value which is not a number counts as what it spells, else 0)
            aggcol = rng.choice(AGG_COLS[table]) if rng.random() < 0.8 else rng.choice(cols)["name"]
            lines.append("Stats: %s %s" % (rng.choice(["sum", "avg", "min", "max"]), aggcol))
            i += 1
        elif r < 0.65:
            # a run of counters sharing their leading terms, so that the grouping optimiser fires
            run = rng.choice([2, 2, 3, 4])
            nshared = rng.choice([1, 1, 2])
            shared = ["Stats: " + gen_leaf(rng, schema, ds, table, simple_cols or cols, opts) for _ in range(nshared)]
            if rng.random() < 0.15:
                shared = gen_tree(rng, schema, ds, table, simple_cols or cols, dict(opts, negate_p=0.1), "Stats", 1)
                nshared = 1
            cv_run = False
            if rng.random() < opts.get("cv_run_p", 0.22) and any(c["name"] == "custom_variables" for c in cols):
                # counters that start with the same custom variable term; a later one names another variable
                shared = ["Stats: custom_variables %s %s %s" % (rng.choice(["=", "!=", "~"]), rng.choice(CV_NAMES), rng.choice(CV_VALUES[:4]))]
                nshared, run, cv_run = 1, rng.choice([3, 3, 4]), True
            op = rng.choice(["StatsAnd", "StatsAnd", "StatsAnd", "StatsOr"])
            for run_i in range(run):
                rest_n = rng.choice([1, 1, 2])
                rest = []
                for _ in range(rest_n):
                    rest += gen_tree(rng, schema, ds, table, cols, dict(opts, negate_p=0.1), "Stats", rng.choice([0, 0, 1]))
                lead = list(shared)
                if cv_run and run_i >= 2 and rng.random() < 0.7:
                    parts = lead[0].split(" ")
                    parts[3] = rng.choice([n for n in CV_NAMES if n != parts[3]])
                    lead[0] = " ".join(parts)
                elif rng.random() < 0.45 and lead and lead[0].startswith("Stats: ") and len(lead[0].split(" ")) >= 3:
                    # a near miss of the shared leading term: other operator, other value, negated, or other custom variable
                    parts = lead[0].split(" ")
                    m = rng.choice(["op", "op", "value", "negate", "tag"])
                    if m == "op":
                        # mostly the operator that selects the other rows, so that a wrongly shared term shows in the counts
                        opposite = {"=": "!=", "!=": "=", "<": ">=", ">=": "<", ">": "<=", "<=": ">", "~": "!~", "!~": "~", "~~": "!~~", "!~~": "~~"}
                        if parts[2] in opposite and rng.random() < 0.6:
                            parts[2] = opposite[parts[2]]
                        else:
                            parts[2] = rng.choice([o for o in ["=", "!=", "<", ">", ">=", "<=", "~", "~~"] if o != parts[2]])
                        lead[0] = " ".join(parts)
                    elif m == "value":
                        lead[0] = " ".join(parts[:3] + ["zz9"])
                    elif m == "negate":
                        lead = [lead[0], "StatsNegate:"] + lead[1:]
                    elif m == "tag" and len(parts) >= 5:
                        parts[3] = parts[3] + "X"
                        lead[0] = " ".join(parts)
                lines += lead + rest
                if rng.random() < 0.03 and table in AGG_COLS:
                    # an aggregation inside a group is not a request: both sides have to refuse it
                    lines[-1] = "Stats: %s %s" % (rng.choice(["sum", "avg", "min", "max"]), rng.choice(AGG_COLS[table]))
                lines.append("%s: %d" % (op, nshared + rest_n))
                if rng.random() < 0.12:
                    lines.append("StatsNegate:")
                i += 1
        else:
            lines += gen_tree(rng, schema, ds, table, cols, opts, "Stats", rng.choice([0, 1, 2]))
            i += 1
    lines.append("OutputFormat: " + rng.choice(["json", "wrapped_json"]))
    lines += gen_extra_headers(rng, schema, ds, table, cols, dict(opts, sort=0, limit=0, offset=0))
    return "\n".join(lines) + "\n\n"
