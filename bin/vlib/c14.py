"""C14: concurrent queries and updates are safe and see whole objects.

Two parts.
(1) Locking discipline, decided per request: the tables a request read-locks (Request.affectedTables, in locking order)
    are compared with Lmd.affectedTables for generated requests over every table, and the model's tablesRead (every
    table whose rows the evaluation reads) must be among the tables the implementation locks.  A table that is read but
    not locked is a row that can be seen half updated - reported with the request as the failing input.
(2) Schedules: a daemon with real update loops and listeners (race-detector build) answers a mix of queries from several
    clients while the scripted backends stamp their objects with versions, comments come and go, timeperiods flip,
    backends fail and restart and virtual time runs.  A row whose columns carry two versions is torn; a version going
    backwards for one client, an answer that is not JSON, a refused client, a crash, a race-detector report or a
    soak that does not finish are violations."""

import glob
import json
import os
import random
import shutil

from . import common, gen, queryfam, worldfam

T0 = 1700000000


def run(ctx, spec, out):
    rng = random.Random("C14-%d" % ctx["seed"])
    v = out.v
    schema = ctx["schema"]
    locks_part(ctx, v, rng, schema)
    soak_part(ctx, v, rng, schema, out)


def locks_part(ctx, v, rng, schema):
    n = 600 if ctx["tier"] == "quick" else 12000
    ds = gen.gen_dataset(rng, {"nbackends": [1], "nhosts": [2], "nsvcs": [1]})
    lines = [{"op": "dataset", "id": 1, "dataset": ds}]
    cases = {}
    cross = ["services_with_state", "services_with_info", "comments_with_info", "downtimes_with_info", "members_with_state", "host_comments_with_info", "host_downtimes_with_info"]
    for i in range(n):
        r = rng.random()
        if r < 0.55:
            text = gen.gen_data_query(rng, schema, ds, {"depth": [0, 1, 2], "sort": 0.5, "limit": 0.2, "authuser": 0.25})
        elif r < 0.8:
            text = gen.gen_stats_query(rng, schema, ds, {"authuser": 0.2})
        else:
            # requests built around the columns that are calculated from other tables
            table = rng.choice(["hosts", "services", "hostgroups", "servicegroups", "hostsbygroup", "servicesbygroup", "comments", "downtimes"])
            cols = [c["name"] for c in schema.cols(table)]
            pick = [c for c in cols if any(c.endswith(x) for x in ("_with_info", "_with_state"))]
            chosen = rng.sample(cols, min(2, len(cols))) + (rng.sample(pick, 1) if pick and rng.random() < 0.7 else [])
            text = "GET %s\nColumns: %s\n" % (table, " ".join(chosen))
            if rng.random() < 0.5:
                text += "Filter: %s != \n" % rng.choice(cols)
            if rng.random() < 0.4:
                text += "Sort: %s asc\n" % rng.choice(cols)
            if rng.random() < 0.3:
                text += "WaitTrigger: all\nWaitCondition: %s != \nWaitTimeout: 1\n" % rng.choice(cols)
            text += "\n"
        lines.append({"op": "locks", "id": i + 2, "text": text})
        cases[i + 2] = text
    scratch = os.path.join(common.BUILD, "scratch-%d" % os.getpid())
    impl = common.run_impl(ctx["binary"], lines, scratch)
    model = common.run_model(ctx["schema_path"], lines)
    for cid, text in cases.items():
        a, m = impl.get(cid) or {}, model.get(cid) or {}
        case = {"text": text, "optimize": True, "dataset": None, "extra": {"part": "locks"}}
        v.stats["evaluated"] += 1
        if a.get("crash"):
            v.violations.append(("crash", case, "crash while computing the tables to lock: %s" % a.get("stderr", "")[-300:]))
            continue
        if "unsupported" in m or m.get("bad") or a.get("bad"):
            if bool(m.get("bad")) != bool(a.get("bad")) and "unsupported" not in m:
                v.corr_broken.append((case, "parse verdict differs: impl %s model %s" % (a.get("bad"), m.get("bad"))))
            else:
                v.stats["unsupported"] += 1
            continue
        got, want, reads = a.get("affected") or [], m.get("affected") or [], m.get("reads") or []
        missing = [t for t in reads if t not in got]
        if missing:
            v.violations.append(("property", case, "the request reads rows of %s but only %s are read-locked: an update of that table can run while the request is answered" % (missing, got)))
            continue
        if got != want:
            v.corr_broken.append((case, "tables locked: impl %s model %s" % (got, want)))
            continue
        if len(got) >= 2:
            h = common.case_hash(text)
            if h not in v.distinct:
                v.distinct.add(h)
                v.stats["nontrivial"] += 1
        v.bump("locked tables: %d" % len(got))


def ensure_entries(schema, wb, flags):
    """at least one comment and one downtime per backend: the soak's mutator clones them"""
    from . import worldgen
    hosts = wb["tables"]["hosts"]["rows"]
    for tname in ("comments", "downtimes"):
        t = wb["tables"].get(tname)
        if t is None or t["rows"] or not hosts:
            continue
        row = {c["name"]: json.loads(json.dumps(worldgen.DEFAULTS[c["dtype"]])) for c in worldgen.table_columns(schema, tname, flags)}
        row.update({"id": 1, "host_name": hosts[0]["name"], "service_description": "", "author": "alice", "comment": "first"})
        t["rows"].append(row)


def race_frames(block):
    """the pkg/lmd functions of the two stacks of one race report"""
    stacks = []
    for part in block.split("\n\n"):
        head = part.strip().split("\n")[0] if part.strip() else ""
        if not (head.startswith(("Read at", "Write at", "Previous read at", "Previous write at")) or "DATA RACE" in head):
            continue
        fr = [l.strip() for l in part.split("\n") if l.strip().startswith("pkg/lmd.")]
        if fr:
            stacks.append([f.replace("pkg/lmd.", "") for f in fr])
    return stacks[:2]


def split_known(v, reports):
    """race reports that belong to a listed open finding (identified by the functions of the two accesses) are counted as
    known hits; everything else stays a violation"""
    findings = [f for f in common.load_known_findings() if f.get("property") == "C14" and f.get("status", "open") == "open"]
    rest = []
    for b in reports:
        stacks = race_frames(b)
        tops = [s[0] for s in stacks if s]
        allf = [x for s in stacks for x in s]
        hit = None
        for f in findings:
            if any(pat in allf for pat in f.get("race_any_frame", [])):
                hit = f
            for a, c in f.get("race_pair", []):
                if len(tops) == 2 and ((a in stacks[0][:3] and c in stacks[1][:3]) or (c in stacks[0][:3] and a in stacks[1][:3])):
                    hit = f
            if hit:
                break
        if hit:
            v.known_hits[hit["id"]] = v.known_hits.get(hit["id"], 0) + 1
        else:
            rest.append(b)
    return rest, None


def soak_part(ctx, v, rng, schema, out):
    binary, err = common.build_harness(race=True)
    if binary is None:
        v.corr_broken.append(({"text": "race build", "dataset": None}, "the race-detector build of the harness failed: %s" % (err or "")[-500:]))
        return
    runs = [(4500, 6)] if ctx["tier"] == "quick" else [(15000, 6), (15000, 10), (15000, 4)]
    racedir = os.path.join(common.BUILD, "race-%d" % os.getpid())
    totals = {"queries": 0, "rows": 0, "mutations": 0, "versions": 0}
    for ri, (ms, clients) in enumerate(runs):
        shutil.rmtree(racedir, ignore_errors=True)
        os.makedirs(racedir, exist_ok=True)
        wbs = []
        for i in range(rng.choice([2, 2, 3])):
            wb, flags = worldfam.small_world(rng, schema, {"nhosts": [4, 6]})
            wb["id"], wb["name"], wb["sources"] = "b%d" % i, "Backend %d" % i, ["self"]
            ensure_entries(schema, wb, flags)
            wbs.append(wb)
        conns = [{"id": wb["id"], "name": wb["name"], "sources": ["self"], "flags": wb.get("flags", []), "tables": wb["tables"]} for wb in wbs]
        cfg = {"update_interval": 1, "full_update_interval": rng.choice([5, 7, 11]), "max_parallel_peer_connections": rng.choice([1, 3]), "backend_keepalive": False,
               "idle_timeout": 100000, "stale_backend_timeout": 30, "net_timeout": 5, "connect_timeout": 2}
        if ri % 2 == 0 or rng.random() < 0.3:
            # the failures of the soak (5 virtual seconds) outlast the stale timeout: the data are dropped and synchronised anew,
            # a swap of the whole data set without a restart of the core
            cfg["stale_backend_timeout"] = 3
        lines = [{"op": "clock", "id": 1, "seconds": T0},
                 {"op": "daemon", "id": 2, "config": cfg, "backends": conns, "listen": ["l1", "l2"], "ticker_ms": 10},
                 {"op": "soak", "id": 3, "soak": {"duration_ms": ms, "clients": clients, "restarts": True, "failures": ri != 1, "reloads": ri != 0 or ctx["tier"] == "quick"}},
                 {"op": "dstop", "id": 4}]
        scratch = os.path.join(common.BUILD, "scratch-%d" % os.getpid())
        os.environ["GORACE"] = "halt_on_error=0 exitcode=0 log_path=%s/r" % racedir
        try:
            impl = common.run_impl(binary, lines, scratch, timeout=ms / 1000 + 120)
        finally:
            os.environ.pop("GORACE", None)
        case = {"text": "soak %d ms, %d clients, %d backends" % (ms, clients, len(wbs)), "dataset": None, "extra": {"part": "soak", "config": cfg, "lines": lines}}
        v.stats["evaluated"] += 1
        r = impl.get(3) or {}
        reports = []
        for f in sorted(glob.glob(racedir + "/r*")):
            txt = open(f, errors="replace").read()
            if "DATA RACE" in txt:
                # races inside the harness' own backend are not lmd's
                blocks = [b for b in txt.split("==================") if "DATA RACE" in b]
                reports += [b for b in blocks if "pkg/lmd." in b]
        if r.get("crash") or r.get("timeout") or "result" not in r:
            v.violations.append(("crash", case, "the daemon crashed or hung during the soak: %s" % str(r)[:600]))
            continue
        res = r["result"]
        for k in ("queries", "rows", "mutations"):
            totals[k] += res.get(k, 0)
        totals["versions"] = max(totals["versions"], res.get("max_version_seen", 0))
        reports, listed = split_known(v, reports)
        if reports:
            v.violations.append(("property", dict(case, extra=dict(case["extra"], race_report=reports[0][:6000])), "the race detector reported %d data race(s) inside lmd, the first: %s" % (len(reports), reports[0][:1500])))
            continue
        if res.get("torn"):
            v.violations.append(("property", case, "rows whose columns stem from two update steps: %s" % res["torn"][:3]))
            continue
        if res.get("backward"):
            v.violations.append(("property", case, "an object went back to an older state: %s" % res["backward"][:3]))
            continue
        if res.get("errors"):
            v.violations.append(("property", case, "clients were refused or got broken answers: %s" % res["errors"][:3]))
            continue
        if res.get("queries", 0) < 50 or res.get("max_version_seen", 0) < 5:
            v.corr_broken.append((case, "the soak did not exercise updates under queries: %s" % res))
            continue
        v.stats["nontrivial"] += 1
    shutil.rmtree(racedir, ignore_errors=True)
    out.extra_cov["soak"] = totals
    out.extra_cov["soak_runs"] = len(runs)
