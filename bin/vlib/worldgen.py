"""Worlds for the scripted-backend engine: full Livestatus object sets (every column lmd fetches) built
from the generated datasets of gen.py, per backend flavour."""

import copy

from . import gen

FLAVOURS = {
    "naemon": {"version": "1.4.2-naemon", "flags": ["Naemon"]},
    "icinga2": {"version": "r2.13.0-1", "flags": ["Icinga2"]},
    "shinken": {"version": "1.0.0-shinken", "flags": ["Shinken"]},
    "plain": {"version": "1.2.8p11", "flags": []},
}
# flags lmd derives from the backend's `columns` table (checkAvailableTables)
COLUMN_FLAGS = {
    "HasLocaltimeColumn": ("status", "localtime"),
    "HasDependencyColumn": ("hosts", "depends_exec"),
    "HasLMDLastCacheUpdateColumn": ("hosts", "lmd_last_cache_update"),
    "HasLastUpdateColumn": ("hosts", "last_update"),
    "HasEventHandlerColumn": ("hosts", "event_handler"),
    "HasStalenessColumn": ("hosts", "staleness"),
    "HasCheckFreshnessColumn": ("services", "check_freshness"),
    "HasServiceParentsColumn": ("services", "parents"),
    "HasContactsGroupColumn": ("contacts", "groups"),
    "HasContactsCommandsColumn": ("contacts", "host_notification_commands"),
}

DEFAULTS = {"StringCol": "", "StringLargeCol": "", "IntCol": 0, "Int64Col": 0, "FloatCol": 0, "StringListCol": [], "Int64ListCol": [],
            "ServiceMemberListCol": [], "InterfaceListCol": [], "JSONCol": "", "CustomVarCol": []}


def pick_flavour(rng):
    name = rng.choice(["naemon", "naemon", "icinga2", "shinken", "plain"])
    flags = list(FLAVOURS[name]["flags"])
    if name != "icinga2":
        for fl in COLUMN_FLAGS:
            if fl == "HasLMDLastCacheUpdateColumn":
                continue
            if rng.random() < (0.5 if name == "naemon" else 0.15):
                flags.append(fl)
    return name, flags


def table_columns(schema, table, flags):
    """the LocalStore columns lmd fetches from a backend with these flags (GetInitialColumns)"""
    cols = []
    flagset = set(flags)
    for c in schema.cols(table):
        if c["storage"] != "LocalStore" or c["fetch"] == "None":
            continue
        if c["optional"] and not (set(c["optional"]) & flagset):
            continue
        cols.append(c)
    return cols


def optional_value(rng, c):
    t = c["dtype"]
    if t == "IntCol":
        return rng.choice([0, 1, 1, 2])
    if t == "Int64Col":
        return rng.choice([0, 1, 5, 1700000000])
    if t == "FloatCol":
        return rng.choice([0, 0.5, 1.25, 3])
    if t in ("StringCol", "StringLargeCol"):
        return rng.choice(["", "opt " + c["name"], "x"])
    if t == "StringListCol":
        return rng.choice([[], ["a"], ["b", "a"]])
    if t == "Int64ListCol":
        return rng.choice([[], [1], [3, 2]])
    return copy.deepcopy(DEFAULTS[t])


def full_backend(schema, b, flavour, flags, rng, shuffle=True):
    """expand a gen.py backend (column subsets) to complete Livestatus tables for this flavour"""
    tables = {}
    for tname in schema.raw["update_tables"]:
        cols = table_columns(schema, tname, flags)
        names = [c["name"] for c in cols]
        src = b["tables"].get(tname, {"cols": [], "rows": []})
        rows = []
        for r in src["rows"]:
            given = dict(zip(src["cols"], r))
            row = {}
            for c in cols:
                if c["name"] in given:
                    row[c["name"]] = given[c["name"]]
                elif c.get("optional") and c["name"] not in ("last_update", "lmd_last_cache_update") and tname in ("hosts", "services", "contacts"):
                    # columns only some backends have: give them values that differ from the empty default, a lost column shows
                    row[c["name"]] = optional_value(rng, c)
                else:
                    row[c["name"]] = copy.deepcopy(DEFAULTS[c["dtype"]])
            if "custom_variable_names" in row and "custom_variable_values" in row and "custom_variable_names" not in given:
                # a core sends one value per name
                row["custom_variable_values"] = [rng.choice(["", "a", "linux"]) for _ in row["custom_variable_names"]]
            rows.append(row)
        if shuffle:
            rng.shuffle(rows)
        tables[tname] = {"cols": names, "rows": rows}
    # status: exactly one row
    st = tables["status"]
    if not st["rows"]:
        st["rows"] = [{c: copy.deepcopy(DEFAULTS[schema.col("status", c)["dtype"]]) for c in st["cols"]}]
    st["rows"] = st["rows"][:1]
    st["rows"][0].update({"program_start": 1700000000, "nagios_pid": 4242, "livestatus_version": FLAVOURS[flavour]["version"], "program_version": "1.4.2"})
    if "HasLocaltimeColumn" in flags:
        st["cols"] = st["cols"] + ["localtime"] if "localtime" not in st["cols"] else st["cols"]
        st["rows"][0]["localtime"] = 0
    # an lmd in front of the core: hosts and services carry the time lmd cached them (never fetched, only filtered on)
    if "HasLMDLastCacheUpdateColumn" in flags:
        for tname in ("hosts", "services"):
            t = tables[tname]
            if "lmd_last_cache_update" not in t["cols"]:
                t["cols"] = t["cols"] + ["lmd_last_cache_update"]
                for r in t["rows"]:
                    r["lmd_last_cache_update"] = 0
    # the columns table (lmd reads table + name)
    colrows = []
    for tname, t in tables.items():
        for c in t["cols"]:
            colrows.append({"table": tname, "name": c})
    for fl, (t, c) in COLUMN_FLAGS.items():
        if fl in flags and {"table": t, "name": c} not in colrows:
            colrows.append({"table": t, "name": c})
    tables["columns"] = {"cols": ["table", "name"], "rows": colrows}
    # timeperiods, commands, contactgroups: a few entries
    if not tables["timeperiods"]["rows"]:
        for n in ("24x7", "workhours"):
            row = {c["name"]: copy.deepcopy(DEFAULTS[c["dtype"]]) for c in table_columns(schema, "timeperiods", flags)}
            row.update({"name": n, "alias": n + " alias", "in": 1})
            tables["timeperiods"]["rows"].append(row)
    return {"id": b["id"], "name": b["name"], "flags": [], "tables": tables}


def expected_flags(flavour, flags):
    return list(flags)


def model_backend(schema, wb, flags, state="up", error=""):
    """the backend as the model's `sync` op takes it: raw replies per table (row lists aligned with cols)"""
    tables = {}
    for tname, t in wb["tables"].items():
        if tname == "columns":
            continue
        tables[tname] = {"cols": t["cols"], "rows": [[r.get(c) for c in t["cols"]] for r in t["rows"]]}
    return {"id": wb["id"], "name": wb["name"], "flags": flags, "state": state, "error": error, "tables": tables, "section": wb.get("section", "")}
