"""C16: pass-through tables (log) are forwarded and merged faithfully.

A daemon with 1-3 real peers wired to scripted backends that hold log rows answers generated `GET log` requests.
The scripted backends record every sub-request and what they answered.  The Lean model (Lmd.Passthrough) is then
given the client's request, the peers' states and the backends' recorded replies and computes (a) the sub-request
each backend must have received, (b) the merged answer.  Compared: sub-request text per backend, which backends were
asked at all, the client's rows / order / window / total_count / failed map / Stats rows."""

import json
import os
import random

from . import common, gen, queryfam, worldfam

T0 = 1700000000
LOGCOLS = ["attempt", "class", "contact_name", "host_name", "lineno", "message", "options", "plugin_output", "service_description", "state", "state_type",
           "time", "type", "command_name", "current_service_contacts", "current_host_contacts"]
VIRT = ["peer_key", "peer_name"]
NUMERIC = ["attempt", "class", "lineno", "state", "time"]
STRINGS = ["contact_name", "host_name", "message", "options", "plugin_output", "service_description", "state_type", "type", "command_name"]
LISTS = ["current_service_contacts", "current_host_contacts"]


def gen_log_rows(rng, bi, n):
    rows = []
    for k in range(n):
        rows.append({"attempt": rng.choice([1, 2, 3]), "class": rng.choice([0, 1, 1, 2, 3]), "contact_name": rng.choice(["", "alice", "bob"]),
                     "host_name": rng.choice(["h1", "h2", "Web 1", "ñandu"]), "lineno": k + 1, "message": rng.choice(["msg %d" % k, "HOST ALERT: h1;DOWN", "x;y;z", "é ü"]),
                     "options": "", "plugin_output": rng.choice(["out", "", "rta=1"]), "service_description": rng.choice(["", "Ping", "disk /"]),
                     "state": rng.choice([0, 1, 2, 3]), "state_type": rng.choice(["HARD", "SOFT"]), "time": T0 - rng.choice([5, 10, 10, 60, 3600]) - (0 if rng.random() < 0.5 else bi),
                     "type": rng.choice(["HOST ALERT", "SERVICE ALERT", "HOST NOTIFICATION"]), "command_name": "",
                     "current_service_contacts": rng.choice([[], ["alice"]]), "current_host_contacts": rng.choice([[], ["alice"], ["alice", "bob"]])})
    return rows


def gen_request(rng, ids):
    lines = ["GET log"]
    stats = rng.random() < 0.4
    cols = []
    if rng.random() < 0.85:
        pool = NUMERIC + STRINGS + VIRT + VIRT + (LISTS if not stats else [])
        n = rng.choice([1, 2, 2, 3, 4]) if not stats else rng.choice([0, 1, 1, 2])
        cols = [rng.choice(pool) for _ in range(n)]
        if stats:
            cols = [c for c in cols if c in ("class", "state", "attempt", "host_name", "type", "state_type", "peer_key", "peer_name", "contact_name")]
        if rng.random() < 0.1 and not stats:
            cols.insert(rng.randrange(len(cols) + 1), "nosuchcolumn")
        if cols:
            lines.append("Columns: " + " ".join(cols))
    if rng.random() < 0.5:
        for _ in range(rng.choice([1, 1, 2])):
            c = rng.choice(NUMERIC + ["host_name", "type", "message"])
            if c in NUMERIC:
                lines.append("Filter: %s %s %d" % (c, rng.choice(["=", "!=", ">=", "<", ">"]), rng.choice([0, 1, 2, T0 - 10, T0 - 60])))
            else:
                lines.append("Filter: %s %s %s" % (c, rng.choice(["=", "!=", "~"]), rng.choice(["h1", "HOST ALERT", "msg", "ñandu"])))
        if lines[-2].startswith("Filter") and rng.random() < 0.5:
            lines.append(rng.choice(["And: 2", "Or: 2"]))
    if stats:
        if rng.random() < 0.35:
            # counters that are groups, two or three in a row with the same first term: lmd's optimiser merges such groups for
            # its own evaluation, what the backends are sent has to stay the client's Stats
            lead = "Stats: %s %s %d" % (rng.choice(["class", "state", "attempt"]), rng.choice(["=", "!=", ">="]), rng.choice([0, 1, 2]))
            for _ in range(rng.choice([2, 2, 3])):
                lines.append(lead if rng.random() < 0.85 else "Stats: class = 3")
                k = rng.choice([1, 1, 2])
                for _ in range(k):
                    lines.append("Stats: %s %s %d" % (rng.choice(["class", "state", "attempt", "lineno"]), rng.choice(["=", "!=", ">=", "<"]), rng.choice([0, 1, 2, 3])))
                lines.append("%s: %d" % (rng.choice(["StatsAnd", "StatsAnd", "StatsAnd", "StatsOr"]), k + 1))
                if rng.random() < 0.1:
                    lines.append("StatsNegate:")
        for _ in range(rng.choice([1, 2, 3])):
            r = rng.random()
            if r < 0.6:
                lines.append("Stats: %s %s %d" % (rng.choice(["class", "state", "attempt"]), rng.choice(["=", "!=", ">="]), rng.choice([0, 1, 2])))
            else:
                lines.append("Stats: %s %s" % (rng.choice(["sum", "min", "max", "avg"]), rng.choice(["state", "attempt", "class", "lineno"])))
        if rng.random() < 0.2:
            # a Sort header next to Stats (clients send their standard headers): it must not change the numbers
            lines.append("Sort: %s %s" % (rng.choice(["time", "host_name", "peer_key"] + cols), rng.choice(["asc", "desc"])))
    else:
        if rng.random() < 0.6:
            for _ in range(rng.choice([1, 1, 2, 3])):
                r = rng.random()
                pool = (cols if cols and r < 0.5 else NUMERIC + STRINGS + VIRT)
                c = rng.choice([x for x in pool if x != "nosuchcolumn"] or ["time"])
                if rng.random() < 0.03:
                    c = rng.choice(LISTS)
                lines.append("Sort: %s %s" % (c, rng.choice(["asc", "desc", "asc"])))
        if rng.random() < 0.4:
            lines.append("Limit: %d" % rng.choice([0, 1, 2, 3, 10]))
        if rng.random() < 0.2:
            lines.append("Offset: %d" % rng.choice([1, 2, 5]))
    if rng.random() < 0.3:
        sel = [i for i in ids if rng.random() < 0.6]
        if rng.random() < 0.2:
            sel.append("nosuch")
        if sel:
            lines.append("Backends: " + " ".join(sel))
    lines.append("OutputFormat: " + rng.choice(["json", "wrapped_json", "wrapped_json"]))
    if rng.random() < 0.1:
        lines.append("ColumnHeaders: on")
    return "\n".join(lines) + "\n\n"


def run(ctx, spec, out):
    rng = random.Random("C16-%d" % ctx["seed"])
    v = out.v
    schema = ctx["schema"]
    nworlds = 25 if ctx["tier"] == "quick" else 400
    nq = 12 if ctx["tier"] == "quick" else 16
    impl_lines, worlds = [], []
    nid = 0
    for wi in range(nworlds):
        nb = rng.choice([1, 2, 2, 3])
        wbs, plan = [], {}
        for i in range(nb):
            wb, flags = worldfam.small_world(rng, schema, {"nhosts": [1]})
            wb["id"], wb["name"], wb["sources"] = "b%d" % i, "Backend %d" % i, ["self"]
            wb["tables"]["log"] = {"cols": LOGCOLS, "rows": gen_log_rows(rng, i, rng.choice([0, 1, 2, 3, 4, 6]))}
            wbs.append(wb)
        ids = [wb["id"] for wb in wbs]
        cfg = {"update_interval": 5, "stale_backend_timeout": 30, "idle_timeout": 100000, "idle_interval": 1800,
               "max_parallel_peer_connections": 1, "backend_keepalive": False, "net_timeout": 5, "connect_timeout": 2}
        h = worldfam.History(schema, nid)
        h.both({"op": "clock", "seconds": T0})
        h.both({"op": "world", "world": {"config": cfg, "backends": wbs}})
        for pid in ids:
            kind = rng.choice(["up", "up", "up", "down", "logfail", "warning", "pending"])
            plan[pid] = kind
            if kind == "down":
                h.both({"op": "mode", "backend": pid, "mode": "refuse"})
            if kind == "pending":
                # not synchronised yet while its socket answers already (start of the daemon, restart of the core): it is
                # not asked and is named in failed
                continue
            h.both({"op": "init", "peer": pid})
            if kind == "warning":
                h.both({"op": "advance", "seconds": 6})
                h.both({"op": "mode", "backend": pid, "mode": "garbage"})
                h.both({"op": "tick", "peer": pid})
                h.both({"op": "mode", "backend": pid, "mode": "ok"})
            elif kind == "logfail":
                mode = rng.choice(["error500", "garbage", "closeearly", "badjson", "truncate", "wrongwidth"])
                plan[pid] = "logfail:" + mode
                h.both({"op": "mode", "backend": pid, "mode": mode})
        queries = []
        for qi in range(nq):
            text = gen_request(rng, ids)
            sts = {pid: h.both({"op": "state", "peer": pid}) for pid in ids}
            for pid in ids:
                h.both({"op": "backend_log", "backend": pid})
            qid = h.both({"op": "query", "text": text, "optimize": True})
            logs = {pid: h.both({"op": "backend_log", "backend": pid}) for pid in ids}
            queries.append({"id": qid, "text": text, "states": sts, "logs": logs})
        worlds.append((h, wbs, plan, queries))
        nid = h.n
        impl_lines += h.impl
    scratch = os.path.join(common.BUILD, "scratch-%d" % os.getpid())
    impl = common.run_impl(ctx["binary"], impl_lines, scratch, timeout=1800)
    # second phase: the model gets the client's request, the peers' states and what the backends answered
    model_lines = []
    for h, wbs, plan, queries in worlds:
        for q in queries:
            peers = []
            for wb in wbs:
                pid = wb["id"]
                st = (impl.get(q["states"][pid]) or {}).get("state") or {}
                lg = impl.get(q["logs"][pid]) or {}
                reqs = [(t, r) for t, r in zip(lg.get("log") or [], lg.get("replies") or []) if t.startswith("GET log")]
                reply, err = None, "no reply"
                if reqs:
                    code, body = reqs[-1][1].get("code"), reqs[-1][1].get("body")
                    if code == 200 and body is not None:
                        try:
                            reply = json.loads(body)
                        except ValueError:
                            reply = None
                peers.append({"id": pid, "name": wb["name"], "online": st.get("status") in (0, 1), "last_error": st.get("last_error", ""), "reply": reply, "err": err,
                              "asked": len(reqs), "sub": reqs[-1][0] if reqs else None})
            q["peers"] = peers
            model_lines.append({"op": "passthrough", "id": q["id"], "text": q["text"], "peers": peers})
    model = common.run_model(ctx["schema_path"], model_lines)
    for h, wbs, plan, queries in worlds:
        for q in queries:
            judge(v, h, wbs, plan, q, impl.get(q["id"]), model.get(q["id"]))
    out.extra_cov["worlds"] = nworlds


def judge(v, h, wbs, plan, q, a, m):
    v.stats["evaluated"] += 1
    case = {"text": q["text"], "optimize": True, "dataset": None, "extra": {"lines": [l for l in h.impl if l["id"] <= q["id"]], "plan": plan, "peers": q.get("peers")}}
    if a is None or a.get("crash"):
        v.violations.append(("crash", case, "the daemon crashed on a log query: %s" % ((a or {}).get("stderr", "")[-400:])))
        return
    if m is None or m.get("error"):
        v.corr_broken.append((case, "no model answer: %s" % str(m)[:200]))
        return
    if m.get("unsupported"):
        v.stats["unsupported"] += 1
        v.bump("unsupported: " + str(m.get("why")))
        return
    code = a.get("code")
    if m.get("kind") == "bad":
        if code != 400:
            v.corr_broken.append((case, "model rejects the request, impl answered %s" % code))
        return
    if m.get("kind") == "error502":
        if code != 502:
            v.corr_broken.append((case, "model answers 502, impl %s" % code))
        return
    if code != 200:
        v.violations.append(("property", case, "the request is answered with %s %s, the model answers normally" % (code, a.get("err", "")[:200])))
        return
    # (1) which backends were asked, and what they were asked
    for p in q["peers"]:
        want = m["asked"].get(p["id"], False)
        if bool(p["asked"]) != want:
            v.violations.append(("property", case, "backend %s (%s): %s" % (p["id"], plan.get(p["id"]), "was not asked although selected and online" if want else "was asked although not selected / not online")))
            return
        if p["asked"] > 1:
            v.violations.append(("property", case, "backend %s received the sub-request %d times" % (p["id"], p["asked"])))
            return
        if want and p["sub"] != m["sub"]:
            v.violations.append(("property", case, "backend %s received\n%s\nexpected\n%s" % (p["id"], p["sub"], m["sub"])))
            return
    try:
        data = json.loads(a.get("body", ""))
    except ValueError:
        v.violations.append(("property", case, "the answer is not JSON: %r" % a.get("body", "")[:200]))
        return
    wrapped = isinstance(data, dict)
    rows = data.get("data") if wrapped else data
    if m.get("header_row") and rows:
        rows = rows[1:] if not wrapped else rows
    if wrapped:
        failed = data.get("failed") or {}
        if set(failed) != set(m["failed"]):
            v.violations.append(("property", case, "failed map has %s, expected %s" % (sorted(failed), sorted(m["failed"]))))
            return
    nontriv = False
    if m["kind"] == "data":
        why = compare_data(rows, m, wrapped, data)
        nontriv = len(m["rows"]) >= 2
    else:
        why = compare_stats(rows, m)
        nontriv = any(p["reply"] for p in q["peers"])
        if not why and m.get("skipped", 0) > 0 and not any(k.endswith("wrongwidth") for k in plan.values()):
            why = "%d reply rows of the backends were ignored (they do not have one value per requested column and Stats header): the numbers of those backends are missing from the answer %s" % (m["skipped"], canon(rows)[:200])
    if why:
        v.violations.append(("property", case, why))
        return
    hh = common.case_hash([q["text"], q["peers"]])
    if nontriv and hh not in v.distinct:
        v.distinct.add(hh)
        v.stats["nontrivial"] += 1
    v.bump("kind:" + m["kind"])
    if len(v.samples) < 3 and nontriv:
        v.samples.append({"request": q["text"], "backends": plan})


def canon(x):
    return json.dumps(x, sort_keys=True, ensure_ascii=False)


def compare_data(rows, m, wrapped, data):
    if wrapped and data.get("total_count") != m["total"]:
        return "total_count %s, expected %s" % (data.get("total_count"), m["total"])
    # tie classes: rows whose sort keys are all equal may come in any order (unstable sort, arrival order of the backends);
    # without Sort every row is in one class
    pool, cls, prev = [], 0, None
    for r, k in zip(m["rows"], m["keys"]):
        kk = canon(k)
        if m["sorted"] and prev is not None and kk != prev:
            cls += 1
        prev = kk
        pool.append((cls, canon(r)))
    ok, why = common.accept_window(pool, m["offset"], m["limit"], [canon(r) for r in rows])
    if not ok:
        return "the rows are not a valid window of the merged, sorted backend replies: %s (got %s, expected one of the orders of %s)" % (why, canon(rows)[:400], canon(m["window"])[:400])
    return None


def compare_stats(rows, m):
    want = {canon(k): vals for k, vals in m["stats"]}
    got = {}
    nkey = m["nkey"]
    for r in rows or []:
        got[canon(r[:nkey])] = r[nkey:]
    if set(got) != set(want):
        return "stats groups %s expected %s" % (sorted(got)[:8], sorted(want)[:8])
    for k, vals in want.items():
        g = got[k]
        if len(g) != len(vals):
            return "group %s has %d values, expected %d" % (k, len(g), len(vals))
        for x, (num, den), kind in zip(g, vals, m["kinds"]):
            exp = num / den
            # a backend's average is a float the model carries in milli units; the mean of the backends' means is compared within that
            tol = 2e-3 if kind == "avg" else 1e-9 * max(1.0, abs(exp))
            if abs(float(x) - exp) > tol:
                return "group %s: value %s expected %s (all %s)" % (k, x, exp, g)
    return None
