"""The scripted-backend engine: worlds (lmd peers wired to scripted Livestatus backends), steps, and the
comparison of what lmd serves with the Lean model."""

import json
import os
import random

from . import common, gen, queryfam, worldgen, c10


def run_lines(ctx, impl_lines, model_lines):
    scratch = os.path.join(common.BUILD, "scratch-%d" % os.getpid())
    impl = common.run_impl(ctx["binary"], impl_lines, scratch, timeout=900)
    model = common.run_model(ctx["schema_path"], model_lines) if model_lines else {}
    return impl, model


# ---------------------------------------------------------------------------------------------
# C02: initial synchronisation

def c02_values(rng, ds):
    """value shapes the property names: long strings (compression), control bytes, numbers at and beyond ranges, equal / near-equal lists"""
    big = ["x" * 600, "y" * 2000, "long " * 200, "é" * 300]
    for b in ds["backends"]:
        for tname in ("hosts", "services"):
            t = b["tables"][tname]
            for row in t["rows"]:
                for cname in ("plugin_output", "long_plugin_output", "notes"):
                    if cname in t["cols"] and rng.random() < 0.3:
                        row[t["cols"].index(cname)] = rng.choice(big + c10.NASTY)
                if "custom_variable_values" in t["cols"] and rng.random() < 0.3:
                    i = t["cols"].index("custom_variable_values")
                    row[i] = [rng.choice(["", "a", "a\u0000b", "x" * 700]) for _ in row[i]]
                if "contacts" in t["cols"] and rng.random() < 0.3:
                    row[t["cols"].index("contacts")] = rng.choice([["alice", "bob"], ["alice", "bob"], ["alice", "bob "], ["bob", "alice"], [""], []])
                for cname, vals in (("last_check", [0, 9007199254740992, 4294967296, 1700000000]), ("scheduled_downtime_depth", [0, 1, 127, 128, -128, -129, 300]),
                                    ("latency", [0, 0.125, 1e3, -2.5]), ("state", [0, 1, 2, 3])):
                    if cname in t["cols"] and rng.random() < 0.3:
                        row[t["cols"].index(cname)] = rng.choice(vals)
        # lists whose joined text (NUL separated) or whose 32-bit hash collide: ["a\0b","c"] / ["a","b\0c"], and a real xxhash32 collision
        for tname in ("hosts", "services"):
            t = b["tables"][tname]
            if len(t["rows"]) >= 2 and "contacts" in t["cols"] and rng.random() < 0.5:
                i = t["cols"].index("contacts")
                pair = rng.choice([(["a\u0000b", "c"], ["a", "b\u0000c"]), (["admin", "user68047"], ["admin", "user183219"]), ([], [""]), (["x", ""], ["x\u0000"])])
                r1, r2 = rng.sample(range(len(t["rows"])), 2)
                t["rows"][r1][i] = list(pair[0])
                t["rows"][r2][i] = list(pair[1])
    return ds


RAW_TEXTS = ["one\x01two\ue0e4three", "tab\tseparated", "caf\ue0e9", "\ue0ff\ue0fc", "a\x02\x03b", "x\x7fy \x01", "é\x01ü\ue0f6", "line\nbreak\rret",
             "\x1f", "end\ue0e4", "q\"uote\x05 back\\slash\ue0fc", "plain text", "\ue0e4\x01\ue0f6 run of three"]
RAW_COLUMNS = ["plugin_output", "long_plugin_output", "perf_data", "notes", "notes_url", "action_url", "alias", "display_name", "comment", "author"]


def _raw_bad(c):
    o = ord(c)
    return o < 32 or o == 127 or 0xE080 <= o <= 0xE0FF


def _raw_fix_text(s):
    """bytesToValidUTF8 on the bytes the backend sends for this text: every run of control bytes, DEL and bytes that are not
    UTF-8 becomes one U+FFFD"""
    out, run = [], False
    for c in s:
        if _raw_bad(c):
            if not run:
                out.append("\ufffd")
            run = True
        else:
            out.append(c)
            run = False
    return "".join(out)


def _raw_walk(v, fn):
    if isinstance(v, str):
        return fn(v)
    if isinstance(v, list):
        return [_raw_walk(e, fn) for e in v]
    return v


def raw_backend(rng, wb):
    """A backend that writes its texts byte by byte, like the cores do (`raw_strings`): control bytes are not escaped and a byte
    of a legacy encoding is not UTF-8 (written U+E080..U+E0FF in the dataset).  lmd's reader repairs a row its JSON decoder
    rejects (NewResultSet / bytesToValidUTF8); the expected cache content is computed here, outside the Lean model, which starts
    at decoded JSON values.  Returns the backend for the model: the same tables with the repaired texts."""
    wb["raw_strings"] = True
    for tname, t in wb["tables"].items():
        cols = [c for c in RAW_COLUMNS if c in t["cols"]]
        if not cols or tname == "columns":
            continue
        for row in t["rows"]:
            if rng.random() < 0.6:
                for c in rng.sample(cols, min(len(cols), rng.choice([1, 1, 2, 3]))):
                    row[c] = rng.choice(RAW_TEXTS)
            if "custom_variable_values" in t["cols"] and row.get("custom_variable_values") and rng.random() < 0.3:
                row["custom_variable_values"] = [rng.choice(RAW_TEXTS + ["v"]) for _ in row["custom_variable_values"]]
    fixed = json.loads(json.dumps(wb))
    for tname, t in fixed["tables"].items():
        if tname == "columns":
            continue
        for row in t["rows"]:
            dirty = []
            for val in row.values():
                _raw_walk(val, lambda s_: dirty.append(any(ord(c) < 32 for c in s_)) or s_)
            if any(dirty):
                # a raw control byte makes the decoder reject the row: the whole row is repaired
                for k in list(row.keys()):
                    row[k] = _raw_walk(row[k], _raw_fix_text)
            else:
                # bytes that are not UTF-8 pass the decoder and are stored as they are; every such byte is printed as U+FFFD
                for k in list(row.keys()):
                    row[k] = _raw_walk(row[k], lambda s_: "".join("\ufffd" if 0xE080 <= ord(c) <= 0xE0FF else c for c in s_))
    return fixed


def run_c02(ctx, spec, out):
    rng = random.Random("C02-%d" % ctx["seed"])
    v = out.v
    nworlds = 25 if ctx["tier"] == "quick" else 400
    schema = ctx["schema"]
    impl_lines, model_lines, cases = [], [], {}
    n = 0
    flag_checks = []
    raw_worlds = 0
    for _ in range(nworlds):
        ds = c02_values(rng, gen.gen_dataset(rng, {"nbackends": [1, 1, 2, 3]}))
        wbs, mbs = [], []
        for b in ds["backends"]:
            flavour, flags = worldgen.pick_flavour(rng)
            wb = worldgen.full_backend(schema, b, flavour, flags, rng)
            wbs.append(wb)
            if rng.random() < 0.3:
                raw_worlds += 1
                mbs.append(worldgen.model_backend(schema, raw_backend(rng, wb), flags))
            else:
                mbs.append(worldgen.model_backend(schema, wb, flags))
        cfg = {"max_parallel_peer_connections": rng.choice([1, 3])}
        n += 1
        impl_lines.append({"op": "world", "id": n, "world": {"config": cfg, "backends": wbs}})
        mds = {"backends": mbs, "service_auth": "loose", "group_auth": "strict"}
        model_lines.append({"op": "sync", "id": n, "dataset": mds})
        for wb, mb in zip(wbs, mbs):
            n += 1
            impl_lines.append({"op": "init", "id": n, "peer": wb["id"]})
            flag_checks.append((n, mb["flags"], wb["id"]))
        # read back every table with every modelled column, plus some filtered / sorted queries
        gds = {"backends": [{"id": mb["id"], "name": mb["name"], "flags": mb["flags"], "tables": mb["tables"]} for mb in mbs]}
        for table in ["hosts", "services", "hostgroups", "servicegroups", "comments", "downtimes", "contacts", "timeperiods", "commands", "contactgroups"]:
            cols = [c["name"] for c in gen.usable_columns(schema, gds, table)]
            keys = gen.key_columns(table)
            for chunk in range(0, len(cols), 25):
                part = cols[chunk:chunk + 25]
                text = "GET %s\nColumns: %s\nOutputFormat: wrapped_json\n%s\n" % (table, " ".join(keys + part + ["peer_key"]), "".join("Sort: %s asc\n" % k for k in keys + ["peer_key"]))
                n += 1
                q = {"op": "query", "id": n, "text": text, "optimize": True}
                impl_lines.append(q)
                model_lines.append(q)
                cases[n] = {"text": text, "optimize": True, "dataset": {"world": wbs}, "has_header_row": False, "dataset_hash": common.case_hash(wbs)}
        for _ in range(6):
            text = gen.gen_data_query(rng, schema, gds, {"depth": [0, 1], "sort": 0.5})
            n += 1
            q = {"op": "query", "id": n, "text": text, "optimize": True}
            impl_lines.append(q)
            model_lines.append(q)
            cases[n] = {"text": text, "optimize": True, "dataset": {"world": wbs}, "has_header_row": queryfam.has_header_row(text), "dataset_hash": common.case_hash(wbs)}
    impl, model = run_lines(ctx, impl_lines, model_lines)
    for i, flags, pid in flag_checks:
        r = impl.get(i) or {}
        if r.get("err") or r.get("crash") or r.get("error"):
            v.violations.append(("property", {"text": "init " + pid, "dataset": None}, "initial synchronisation failed: %s" % str(r)[:400]))
            continue
        got = set((r.get("state") or {}).get("flags") or [])
        if got != set(flags):
            v.corr_broken.append(({"text": "init " + pid, "dataset": None}, "backend flags detected %s, expected %s" % (sorted(got), sorted(flags))))
    for cid, case in cases.items():
        queryfam.evaluate_case(v, case, impl.get(cid), model.get(cid), set())
    out.extra_cov["worlds"] = nworlds
    out.extra_cov["backends_writing_raw_bytes"] = raw_worlds


# ---------------------------------------------------------------------------------------------
# C19: export followed by import reproduces the cache

def run_c19(ctx, spec, out):
    rng = random.Random("C19-%d" % ctx["seed"])
    v = out.v
    nworlds = 12 if ctx["tier"] == "quick" else 200
    nq = 40
    schema = ctx["schema"]
    impl_lines, model_lines, cases = [], [], {}
    n = 0
    pairs = []
    for _ in range(nworlds):
        ds = c02_values(rng, gen.gen_dataset(rng, {"nbackends": [1, 2, 2, 3], "service_auth": ["loose", "strict"], "group_auth": ["loose", "strict"]}))
        wbs, mbs = [], []
        for b in ds["backends"]:
            flavour, flags = worldgen.pick_flavour(rng)
            wb = worldgen.full_backend(schema, b, flavour, flags, rng)
            # what the configuration says about the backend besides its address (Thruk groups backends by section)
            wb["section"] = rng.choice(["", "", "europe/dc1", "asia"])
            wbs.append(wb)
            mbs.append(worldgen.model_backend(schema, wb, flags))
        cfg = {"service_auth": ds["service_auth"], "group_auth": ds["group_auth"]}
        n += 1
        impl_lines.append({"op": "world", "id": n, "world": {"config": cfg, "backends": wbs}})
        model_lines.append({"op": "sync", "id": n, "dataset": {"backends": mbs, "service_auth": ds["service_auth"], "group_auth": ds["group_auth"]}})
        for wb in wbs:
            n += 1
            impl_lines.append({"op": "init", "id": n, "peer": wb["id"]})
        gds = {"backends": [{"id": mb["id"], "name": mb["name"], "flags": mb["flags"], "tables": mb["tables"]} for mb in mbs]}
        texts = []
        for _ in range(nq):
            r = rng.random()
            opts = {"depth": [0, 1, 2], "sort": 0.4, "limit": 0.3, "offset": 0.2, "authuser": 0.2}
            if r < 0.3:
                texts.append(gen.gen_stats_query(rng, schema, gds, opts))
            else:
                texts.append(gen.gen_data_query(rng, schema, gds, opts))
        # columns that are not fetched from the backend but built during the synchronisation (id lists of comments and
        # downtimes, lower-case copies) are asked for in every snapshot
        texts += ["GET hosts\nColumns: name comments downtimes peer_key\nOutputFormat: wrapped_json\nSort: name asc\n\n",
                  "GET services\nColumns: host_name description comments downtimes peer_key\nOutputFormat: wrapped_json\nSort: host_name asc\nSort: description asc\n\n",
                  "GET hosts\nStats: comments >= 1\nStats: downtimes >= 1\nOutputFormat: json\n\n",
                  "GET services\nColumns: host_name description\nFilter: comments != \nFilter: downtimes != \nOr: 2\nOutputFormat: wrapped_json\n\n",
                  "GET hosts\nColumns: name\nFilter: name =~ %s\nOutputFormat: wrapped_json\n\n" % rng.choice(["HOST_1", "web1", "ÜBER", "zeta"]),
                  # per-backend attribution: key, name and section of the backend every row stems from
                  "GET status\nColumns: peer_key peer_name peer_section program_start\nOutputFormat: wrapped_json\n\n",
                  "GET sites\nColumns: peer_key peer_name section\nOutputFormat: json\n\n",
                  "GET hosts\nColumns: name peer_key\nFilter: peer_section = europe/dc1\nOutputFormat: json\n\n"]
        # the columns only some backends have (they depend on what each backend can do): every backend's own set has to
        # make it through the export
        for tname, keys in (("hosts", "name"), ("services", "host_name description"), ("contacts", "name")):
            ocols = [c["name"] for c in schema.cols(tname) if c.get("optional") and c["storage"] == "LocalStore"]
            texts.append("GET %s\nColumns: peer_key %s %s\nOutputFormat: wrapped_json\n\n" % (tname, keys, " ".join(ocols)))
        first = []
        for text in texts:
            n += 1
            q = {"op": "query", "id": n, "text": text, "optimize": True}
            impl_lines.append(q)
            model_lines.append(q)
            cases[n] = {"text": text, "optimize": True, "dataset": {"world": wbs}, "has_header_row": queryfam.has_header_row(text), "dataset_hash": common.case_hash(wbs), "extra": {"instance": "exporting"}}
            first.append(n)
        n += 1
        impl_lines.append({"op": "export_import", "id": n})
        exp_id = n
        for text, fid in zip(texts, first):
            n += 1
            q = {"op": "query", "id": n, "text": text, "optimize": True}
            impl_lines.append(q)
            model_lines.append(q)
            cases[n] = {"text": text, "optimize": True, "dataset": {"world": wbs}, "has_header_row": queryfam.has_header_row(text), "dataset_hash": common.case_hash(wbs) + "i", "extra": {"instance": "importing"}}
            pairs.append((fid, n, exp_id))
    fed_pairs, fed_worlds = federated_exports(ctx, rng, schema, impl_lines, n + 1, 4 if ctx["tier"] == "quick" else 40)
    impl, model = run_lines(ctx, impl_lines, model_lines)
    judge_federated(v, impl, fed_pairs)
    out.extra_cov["federated_export_worlds"] = fed_worlds
    bad_exports = set()
    for fid, iid, exp_id in pairs:
        r = impl.get(exp_id) or {}
        if (r.get("error") or r.get("crash")) and exp_id not in bad_exports:
            bad_exports.add(exp_id)
            v.violations.append(("property", {"text": "export_import", "dataset": None}, "export/import failed: %s" % str(r)[:500]))
    for cid, case in cases.items():
        queryfam.evaluate_case(v, case, impl.get(cid), model.get(cid), set())
    # byte identity of the two instances' answers where the order is determined
    same = 0
    for fid, iid, exp_id in pairs:
        a, b = impl.get(fid) or {}, impl.get(iid) or {}
        if exp_id in bad_exports:
            continue
        if a.get("code") != b.get("code"):
            v.violations.append(("property", cases[iid], "status differs between exporting (%s) and importing (%s) instance" % (a.get("code"), b.get("code"))))
        elif a.get("body") == b.get("body"):
            same += 1
    out.extra_cov["worlds"] = nworlds
    out.extra_cov["byte_identical_answers"] = same


def federated_exports(ctx, rng, schema, impl_lines, n, nworlds):
    """The exporter pointed at another lmd (federation): the inner daemon's backends appear as sub peers, in the state the
    inner daemon reports for them - among them backends in warning state (one failed update, data kept), which a fresh
    exporter never sees when it talks to the cores itself.  The statement is the property's own: the importing instance
    answers every query like the instance that wrote the snapshot; both are implementation instances (the model has no
    federation), so this part is a search for a failing input only."""
    pairs = []
    for _ in range(nworlds):
        ds = c02_values(rng, gen.gen_dataset(rng, {"nbackends": [2, 2, 3], "service_auth": ["loose"], "group_auth": ["loose"]}))
        wbs, mbs = [], []
        for b in ds["backends"]:
            flavour, flags = worldgen.pick_flavour(rng)
            wb = worldgen.full_backend(schema, b, flavour, flags, rng)
            wb["section"] = rng.choice(["", "", "europe/dc1"])
            wbs.append(wb)
            mbs.append(worldgen.model_backend(schema, wb, flags))
        cfg = {"update_interval": 5, "stale_backend_timeout": 100000, "idle_timeout": 1000000, "max_parallel_peer_connections": 1}
        impl_lines.append({"op": "clock", "id": n, "seconds": T0})
        n += 1
        impl_lines.append({"op": "world", "id": n, "world": {"config": cfg, "backends": wbs}})
        for wb in wbs:
            n += 1
            impl_lines.append({"op": "init", "id": n, "peer": wb["id"]})
        # some backends fail their next update: the inner daemon keeps their data and reports them in warning state
        failing = [wb for wb in wbs if rng.random() < 0.5]
        if not failing or len(failing) == len(wbs):
            failing = [wbs[-1]]
        n += 1
        impl_lines.append({"op": "advance", "id": n, "seconds": 7})
        for wb in failing:
            n += 1
            impl_lines.append({"op": "mode", "id": n, "backend": wb["id"], "mode": rng.choice(["refuse", "garbage"])})
            n += 1
            impl_lines.append({"op": "tick", "id": n, "peer": wb["id"]})
        n += 1
        impl_lines.append({"op": "export_import", "id": n, "federated": True})
        exp_id = n
        gds = {"backends": [{"id": mb["id"], "name": mb["name"], "flags": mb["flags"], "tables": mb["tables"]} for mb in mbs]}
        texts = []
        for _ in range(25):
            opts = {"depth": [0, 1, 2], "sort": 0.4, "limit": 0.0, "offset": 0.0, "authuser": 0.2}
            texts.append(gen.gen_stats_query(rng, schema, gds, opts) if rng.random() < 0.3 else gen.gen_data_query(rng, schema, gds, opts))
        texts += ["GET hosts\nColumns: name state comments downtimes peer_key peer_name\nOutputFormat: wrapped_json\n\n",
                  "GET services\nColumns: host_name description state peer_key\nOutputFormat: wrapped_json\n\n",
                  "GET hosts\nStats: state >= 0\nColumns: peer_key\nOutputFormat: wrapped_json\n\n",
                  "GET status\nColumns: peer_key peer_name program_start\nOutputFormat: wrapped_json\n\n",
                  "GET sites\nColumns: peer_key peer_name status\nOutputFormat: wrapped_json\n\n",
                  "GET contacts\nColumns: name peer_key\nOutputFormat: wrapped_json\n\n"]
        ids = {}
        for which in ("exporter", "importer"):
            n += 1
            impl_lines.append({"op": "use", "id": n, "which": which})
            for k, text in enumerate(texts):
                n += 1
                impl_lines.append({"op": "query", "id": n, "text": text, "optimize": True})
                ids[(which, k)] = n
        for k, text in enumerate(texts):
            pairs.append((exp_id, ids[("exporter", k)], ids[("importer", k)], text, [wb["id"] for wb in failing], wbs))
        n += 1
    return pairs, nworlds


def _canon_answer(res):
    """rows as a sorted multiset plus the names of the failed backends: what an answer says, whatever the order"""
    try:
        body = json.loads(res.get("body") or "null")
    except ValueError:
        return ("unparsable", res.get("body"))
    if isinstance(body, dict):
        rows = sorted(json.dumps(r, sort_keys=True) for r in body.get("data") or [])
        return (res.get("code"), rows, sorted((body.get("failed") or {}).keys()), body.get("total_count"), body.get("columns"))
    if isinstance(body, list):
        return (res.get("code"), sorted(json.dumps(r, sort_keys=True) for r in body))
    return (res.get("code"), body)


def judge_federated(v, impl, pairs):
    bad = set()
    for exp_id, eid, iid, text, failing, wbs in pairs:
        case = {"text": text, "optimize": True, "dataset": {"world": wbs}, "extra": {"federated_export": True, "backends_in_warning_state": failing}}
        r = impl.get(exp_id) or {}
        if r.get("error") or r.get("crash") or not r:
            if exp_id not in bad:
                bad.add(exp_id)
                v.violations.append(("property", case, "federated export/import failed: %s" % str(r)[:400]))
            continue
        a, b = impl.get(eid) or {}, impl.get(iid) or {}
        v.stats["evaluated"] += 1
        ca, cb = _canon_answer(a), _canon_answer(b)
        if ca != cb:
            v.violations.append(("property", case, "the importing instance answers differently from the instance that wrote the snapshot (backends %s were in warning state at export time): exporting %s, importing %s"
                                 % (failing, str(ca)[:300], str(cb)[:300])))
        elif len(ca) > 1 and ca[1]:
            v.stats["nontrivial"] += 1


# ---------------------------------------------------------------------------------------------
# histories (C13, C12, C03, C11): every step goes to the implementation and to the peer model

T0 = 1700000000

STATE_KEYS = ["status", "has_data", "idling", "error_count", "last_online_zero", "last_query_zero"]
AGO_KEYS = ["last_online_ago", "last_update_ago", "last_full_ago", "last_query_ago"]


def compare_state(v, case, step_no, what, impl_res, model_res):
    """peer bookkeeping after a step: impl (VerifPeerState) vs model (Lmd.PeerSt)"""
    if impl_res is None or model_res is None:
        v.corr_broken.append((case, "step %d (%s): missing result impl=%s model=%s" % (step_no, what, str(impl_res)[:200], str(model_res)[:200])))
        return False
    if impl_res.get("crash"):
        v.violations.append(("crash", case, "step %d (%s): the implementation crashed: %s" % (step_no, what, impl_res.get("stderr", "")[-400:])))
        return False
    si, sm = impl_res.get("state") or {}, model_res.get("state") or {}
    diffs = []
    for k in STATE_KEYS:
        if si.get(k) != sm.get(k):
            diffs.append("%s impl=%s model=%s" % (k, si.get(k), sm.get(k)))
    for k in AGO_KEYS:
        zero = {"last_online_ago": "last_online_zero", "last_query_ago": "last_query_zero"}.get(k)
        if zero and si.get(zero):
            continue
        if abs(float(si.get(k, 0)) - float(sm.get(k, 0))) > 0.01:
            diffs.append("%s impl=%s model=%s" % (k, si.get(k), sm.get(k)))
    if (si.get("last_error", "") == "") != (sm.get("last_error", "") == ""):
        diffs.append("last_error impl=%r model=%r" % (si.get("last_error"), sm.get("last_error")))
    if set(si.get("flags") or []) != set(sm.get("flags") or []):
        diffs.append("flags impl=%s model=%s" % (si.get("flags"), sm.get("flags")))
    if impl_res.get("backend_queries") is not None and sm.get("backend_queries") is not None and impl_res["backend_queries"] != sm["backend_queries"]:
        diffs.append("backend queries received impl=%s model=%s" % (impl_res["backend_queries"], sm["backend_queries"]))
    if "ran" in impl_res and impl_res.get("ran") != model_res.get("ran"):
        diffs.append("update ran impl=%s model=%s" % (impl_res.get("ran"), model_res.get("ran")))
    if "err" in impl_res and (impl_res.get("err", "") == "") != (model_res.get("err", "") == ""):
        diffs.append("error impl=%r model=%r" % (impl_res.get("err"), model_res.get("err")))
    if diffs:
        v.corr_broken.append((case, "step %d (%s): %s" % (step_no, what, "; ".join(diffs))))
        return False
    return True


class History:
    """builds the two line streams of one world history"""

    def __init__(self, schema, start_id):
        self.schema = schema
        self.impl, self.model = [], []
        self.n = start_id
        self.checks = []      # (id, kind, step description)
        self.queries = {}     # id -> case
        self.steps = []

    def both(self, line, observe=None):
        self.n += 1
        # a private copy: generators keep editing their world / row dictionaries to track the backend's state
        line = json.loads(json.dumps(dict(line, id=self.n)))
        self.impl.append(line)
        self.model.append(line)
        self.steps.append({k: v for k, v in line.items() if k not in ("world",)})
        if observe:
            self.checks.append((self.n, observe, line.get("op")))
        return self.n

    def query(self, text, wbs, extra=None):
        self.n += 1
        q = {"op": "query", "id": self.n, "text": text, "optimize": True}
        self.impl.append(q)
        self.model.append(q)
        self.steps.append({"op": "query", "text": text})
        self.queries[self.n] = {"text": text, "optimize": True, "dataset": {"world": wbs}, "has_header_row": queryfam.has_header_row(text),
                                "dataset_hash": common.case_hash([wbs, len(self.steps)]), "extra": extra}
        return self.n


def small_world(rng, schema, opts=None):
    opts = opts or {}
    ds = gen.gen_dataset(rng, {"nbackends": [1], "nhosts": opts.get("nhosts", [1, 2, 3]), "nsvcs": [0, 1, 2]})
    b = ds["backends"][0]
    flavour, flags = worldgen.pick_flavour(rng)
    if opts.get("flavour"):
        flavour, flags = opts["flavour"]
    # the backend lists its objects in an order of its own most of the time (lmd sorts what it stores by primary key)
    wb = worldgen.full_backend(schema, b, flavour, flags, rng, shuffle=opts.get("shuffle", rng.random() < 0.7))
    return wb, flags


def run_c13(ctx, spec, out):
    rng = random.Random("C13-%d" % ctx["seed"])
    v = out.v
    ntraces = 40 if ctx["tier"] == "quick" else 600
    schema = ctx["schema"]
    impl_lines, model_lines = [], []
    hists = []
    nid = 0
    for _ in range(ntraces):
        wb, flags = small_world(rng, schema)
        nsrc = rng.choice([1, 1, 2, 3])
        wb["sources"] = {1: ["self"], 2: rng.choice([["dead", "self"], ["self", "dead"]]), 3: rng.choice([["dead", "dead", "self"], ["self", "dead", "dead"], ["dead", "self", "dead"]])}[nsrc]
        cfg = {"update_interval": rng.choice([5, 7, 10]), "stale_backend_timeout": rng.choice([10, 30, 60]), "idle_timeout": rng.choice([20, 120]),
               "idle_interval": rng.choice([60, 300]), "max_parallel_peer_connections": 1, "backend_keepalive": False, "net_timeout": 5, "connect_timeout": 2}
        h = History(schema, nid)
        h.both({"op": "clock", "seconds": T0})
        h.both({"op": "world", "world": {"config": cfg, "backends": [wb]}})
        pid = wb["id"]
        h.both({"op": "state", "peer": pid}, "state")
        nev = rng.choice([4, 8, 12, 25])
        pstart = 1700000000
        mode = "ok"
        if rng.random() < 0.3:
            mode = rng.choice(["refuse", "garbage"])
            h.both({"op": "mode", "backend": pid, "mode": mode})
        h.both({"op": "init", "peer": pid}, "state")
        for _ in range(nev):
            r = rng.random()
            if r < 0.35:
                h.both({"op": "advance", "seconds": rng.choice([1, 3, 5, 7, 10, 15, 31, 61, 125, 400])})
                h.both({"op": "tick", "peer": pid}, "state")
            elif r < 0.5:
                h.both({"op": "tick", "peer": pid}, "state")
            elif r < 0.7:
                mode = rng.choice(["ok", "ok", "refuse", "garbage", "error500", "closeearly", "badheader", "truncate"])
                h.both({"op": "mode", "backend": pid, "mode": mode})
            elif r < 0.86:
                h.query("GET hosts\nColumns: name state peer_key\nOutputFormat: wrapped_json\n\n", [wb], {"why": "client query"})
                h.both({"op": "state", "peer": pid}, "state")
            elif r < 0.93:
                # the core behind the backend restarts while it stays reachable: the next update synchronises anew, and
                # afterwards the backend has to be reported up again
                pstart += rng.choice([7, 60])
                h.both({"op": "mutate", "backend": pid, "changes": [{"table": "status", "key": {}, "set": {"program_start": pstart, "nagios_pid": 4242 + pstart % 1000}}]})
            else:
                h.query("GET sites\nColumns: peer_key status\nOutputFormat: wrapped_json\n\n", [wb], {"why": "sites"})
        hists.append((h, wb))
        nid = h.n
        impl_lines += h.impl
        model_lines += h.model
    impl, model = run_lines(ctx, impl_lines, model_lines)
    for h, wb in hists:
        case = {"text": json.dumps(h.steps)[:200], "dataset": None, "extra": {"history": h.steps, "world": wb.get("sources"), "lines": h.impl}}
        ok = True
        nmut = 0
        # the statements of the property, evaluated on the implementation's own bookkeeping after every step
        stale = None
        for l in h.impl:
            if l.get("op") == "world":
                stale = l["world"]["config"].get("stale_backend_timeout")
        for i, (cid, kind, what) in enumerate(h.checks):
            a = impl.get(cid) or {}
            st = a.get("state") or {}
            if not st:
                continue
            if st.get("status") == 0 and (not st.get("has_data") or st.get("last_error")):
                v.violations.append(("property", case, "step %d (%s): the backend is reported up without data or with an error (has_data=%s, last_error=%r)" % (i, what, st.get("has_data"), st.get("last_error"))))
                break
            if a.get("ran") and a.get("err") == "" and st.get("status") == 0 and float(st.get("last_online_ago", 0)) > 0.01:
                v.violations.append(("property", case, "step %d (%s): an update run succeeded and the backend is up, but its last successful contact is recorded %ss ago - the stale timeout will be counted from then"
                                     % (i, what, st.get("last_online_ago"))))
                break
            if a.get("ran") and a.get("err") == "" and (st.get("status") != 0 or st.get("last_error") or not st.get("has_data")):
                v.violations.append(("property", case, "step %d (%s): an update run succeeded, but the backend is not reported up with a cleared error: status=%s last_error=%r has_data=%s"
                                     % (i, what, st.get("status"), st.get("last_error"), st.get("has_data"))))
                break
            if a.get("err") and stale is not None and not st.get("last_online_zero") and float(st.get("last_online_ago", 0)) > stale and (st.get("status") != 2 or st.get("has_data")):
                v.violations.append(("property", case, "step %d (%s): the contact failed %ss after the last successful one (StaleBackendTimeout %s) but the backend is not down / keeps its data: status=%s has_data=%s"
                                     % (i, what, st.get("last_online_ago"), stale, st.get("status"), st.get("has_data"))))
                break
        # "a backend nobody queries is refreshed at the idle interval only": an update run of a backend that is idling
        # afterwards comes at least IdleInterval after the run before it (the time of the last run is the implementation's
        # own last_update; a query in between can only make the real gap smaller than the one computed here... and it
        # ends the idling, so such a step is not judged)
        idle_iv = None
        for l in h.impl:
            if l.get("op") == "world":
                idle_iv = l["world"]["config"].get("idle_interval")
        prev_ago, adv, queried = None, 0.0, False
        prev_st, prev_bq, prev_line = None, None, None
        checked = {cid for cid, _, _ in h.checks}
        for l in h.impl:
            if l.get("op") == "advance":
                adv += l["seconds"]
            elif l.get("op") == "query":
                queried = True
            this_prev, prev_line = prev_line, l
            if l.get("id") not in checked:
                continue
            prev_line = this_prev
            a = impl.get(l["id"]) or {}
            st = a.get("state") or {}
            if not st:
                prev_ago, prev_st, prev_line = None, None, l
                continue
            if l.get("op") == "tick" and a.get("ran") and st.get("idling") and prev_ago is not None and not queried and idle_iv:
                gap = prev_ago + adv
                if gap < idle_iv - 1:
                    v.violations.append(("property", case, "step id %d (tick): the backend is idling (nobody queried it) and was refreshed %.1fs after its previous update run, IdleInterval is %ss"
                                         % (l["id"], gap, idle_iv)))
                    break
                v.stats["idle_refreshes_judged"] = v.stats.get("idle_refreshes_judged", 0) + 1
            # "the first query after idling triggers a refresh before it is answered": the backend is asked, the idle mode ends
            if l.get("op") == "state" and prev_line is not None and prev_line.get("op") == "query" and prev_line.get("text", "").startswith("GET hosts") \
                    and prev_st is not None and prev_st.get("idling") and st.get("idling"):
                # whatever state the backend is in: a client asked for it, the idle mode is over (the update loop is back at
                # the normal interval, so a backend that is down is tried again soon)
                v.violations.append(("property", case, "step id %d: a client query reached an idling backend (status %s) and the backend is still idling afterwards: it stays at the idle interval although clients ask for it"
                                     % (l["id"], prev_st.get("status"))))
                break
            if l.get("op") == "state" and prev_line is not None and prev_line.get("op") == "query" and prev_line.get("text", "").startswith("GET hosts") \
                    and prev_st is not None and prev_st.get("idling") and prev_st.get("status") == 0 and prev_st.get("has_data") \
                    and a.get("backend_queries") is not None and prev_bq is not None:
                # a backend that refuses the connection receives nothing: the attempt then shows in the error bookkeeping
                attempted = a["backend_queries"] > prev_bq or st.get("error_count", 0) > prev_st.get("error_count", 0) or st.get("last_error")
                if st.get("idling") or not attempted:
                    v.violations.append(("property", case, "step id %d: a client query reached an idling backend (up, with data) and was answered without a refresh: idling afterwards=%s, backend queries before=%s after=%s"
                                         % (l["id"], st.get("idling"), prev_bq, a["backend_queries"])))
                    break
                v.stats["spinups_judged"] = v.stats.get("spinups_judged", 0) + 1
            prev_ago, adv, queried = float(st.get("last_update_ago", 0)), 0.0, False
            prev_st, prev_bq, prev_line = st, a.get("backend_queries"), l
        for i, (cid, kind, what) in enumerate(h.checks):
            if not ok:
                break
            ok = compare_state(v, case, i, what, impl.get(cid), model.get(cid))
        if ok:
            for cid, qcase in h.queries.items():
                queryfam.evaluate_case(v, qcase, impl.get(cid), model.get(cid), set())
        v.stats["evaluated"] += 1
        hh = common.case_hash(h.steps)
        if len(h.steps) >= 6 and hh not in v.distinct:
            v.distinct.add(hh)
            v.stats["nontrivial"] += 1
        if len(v.samples) < 3:
            v.samples.append({"history": h.steps[:14]})
    out.extra_cov["traces"] = ntraces
    fallback_traces(ctx, v, rng, schema, out)


def fallback_traces(ctx, v, rng, schema, out):
    """backends with fallback addresses (the model has none): the statements of the property are evaluated on the
    implementation's own bookkeeping - reported up only after a successful synchronisation and with data, a successful
    update run leaves it up with a cleared error, and a backend that is reachable through any of its addresses comes up"""
    n = 12 if ctx["tier"] == "quick" else 150
    lines, traces = [], []
    nid = 0

    def add(line):
        nonlocal nid
        nid += 1
        lines.append(dict(line, id=nid))
        return nid

    for _ in range(n):
        wb, flags = small_world(rng, schema, {"nhosts": [1, 2]})
        combo = rng.choice([(["dead"], ["self"]), (["self"], ["dead"]), (["dead", "dead"], ["dead", "self"]), (["dead"], ["dead"]), (["self", "dead"], ["self"])])
        wb["sources"], wb["fallback"] = list(combo[0]), list(combo[1])
        reachable = "self" in combo[0] or "self" in combo[1]
        cfg = {"update_interval": 5, "stale_backend_timeout": rng.choice([30, 60]), "idle_timeout": 100000, "max_parallel_peer_connections": 1, "backend_keepalive": False,
               "net_timeout": 5, "connect_timeout": 2}
        add({"op": "clock", "seconds": T0})
        add({"op": "world", "world": {"config": cfg, "backends": [wb]}})
        pid = wb["id"]
        steps = [(add({"op": "init", "peer": pid}), "init")]
        for _ in range(rng.choice([4, 8])):
            r = rng.random()
            if r < 0.6:
                add({"op": "advance", "seconds": rng.choice([5, 7, 61])})
                steps.append((add({"op": "tick", "peer": pid}), "tick"))
            elif r < 0.8:
                add({"op": "mode", "backend": pid, "mode": rng.choice(["ok", "ok", "refuse", "garbage"])})
            else:
                steps.append((add({"op": "query", "text": "GET hosts\nColumns: name peer_key\nOutputFormat: wrapped_json\n\n", "optimize": True}), "query"))
        # recovery: the backend answers again, every address is tried in turn
        add({"op": "mode", "backend": pid, "mode": "ok"})
        for _ in range(8):
            add({"op": "advance", "seconds": 6})
            steps.append((add({"op": "tick", "peer": pid}), "tick"))
        last = add({"op": "state", "peer": pid})
        traces.append({"world": combo, "reachable": reachable, "steps": steps, "last": last, "first": lines[-1]["id"]})
    scratch = os.path.join(common.BUILD, "scratch-%d" % os.getpid())
    impl = common.run_impl(ctx["binary"], lines, scratch, timeout=900)
    ok = 0
    for tr in traces:
        v.stats["evaluated"] += 1
        case = {"text": "sources %s fallback %s" % (tr["world"][0], tr["world"][1]), "dataset": None, "extra": {"part": "fallback addresses", "lines": [l for l in lines if l["id"] <= tr["last"]][-60:]}}
        bad = None
        for cid, what in tr["steps"]:
            a = impl.get(cid) or {}
            if a.get("crash"):
                bad = ("crash", "%s: the implementation crashed: %s" % (what, (a.get("stderr") or "")[-300:]))
                break
            st = a.get("state") or {}
            if not st:
                continue
            if st.get("status") == 0 and (not st.get("has_data") or st.get("last_error")):
                bad = ("property", "%s: the backend is reported up without data or with an error (has_data=%s, last_error=%r)" % (what, st.get("has_data"), st.get("last_error")))
                break
            if a.get("ran") and a.get("err") == "" and (st.get("status") != 0 or st.get("last_error") or not st.get("has_data")):
                bad = ("property", "%s: an update run succeeded, but the backend is not reported up with a cleared error: status=%s last_error=%r" % (what, st.get("status"), st.get("last_error")))
                break
        if bad is None:
            st = (impl.get(tr["last"]) or {}).get("state") or {}
            if tr["reachable"] and st.get("status") != 0:
                bad = ("property", "one of the addresses (sources %s, fallback %s) answers, but after eight update intervals the backend is still not up: status=%s last_error=%r" % (tr["world"][0], tr["world"][1], st.get("status"), st.get("last_error")))
            elif not tr["reachable"] and st.get("status") == 0:
                bad = ("property", "no address answers, yet the backend is reported up")
        if bad:
            v.violations.append((bad[0], case, bad[1]))
        else:
            ok += 1
    out.extra_cov["fallback_traces"] = {"traces": n, "ok": ok}


# ---------------------------------------------------------------------------------------------
# C12 / C03 / C11: data histories

def dyn_columns(schema, table, flags):
    return [c for c in worldgen.table_columns(schema, table, flags) if c["fetch"] == "Dynamic"]


def observe_queries(h, schema, wb, flags, tables):
    """GET with key + dynamic (and a few static) columns on the given tables"""
    for table in tables:
        cols = worldgen.table_columns(schema, table, flags)
        names = [c["name"] for c in cols if c["dtype"] != "InterfaceListCol"]
        keys = gen.key_columns(table)
        extra = []
        if table in ("hosts", "services"):
            extra = ["comments", "downtimes"]
        for chunk in range(0, len(names), 30):
            part = [n for n in names[chunk:chunk + 30] if n not in keys]
            text = "GET %s\nColumns: %s\nOutputFormat: wrapped_json\n%s\n" % (table, " ".join(keys + part + (extra if chunk == 0 else [])), "".join("Sort: %s asc\n" % k for k in keys))
            h.query(text, [wb], {"observe": table})


def finish_histories(ctx, v, hists, impl_lines, model_lines, min_steps=6):
    impl, model = run_lines(ctx, impl_lines, model_lines)
    for h, wb in hists:
        case = {"text": json.dumps(h.steps)[:200], "dataset": None, "extra": {"history": h.steps, "lines": h.impl}}
        ok = True
        for i, (cid, kind, what) in enumerate(h.checks):
            if not ok:
                break
            ok = compare_state(v, case, i, what, impl.get(cid), model.get(cid))
        # the served data are compared even when the bookkeeping differs: a wrong answer is the failing input to report
        for cid, qcase in h.queries.items():
            qcase = dict(qcase, extra=dict(qcase.get("extra") or {}, lines=[l for l in h.impl if l["id"] <= cid]))
            queryfam.evaluate_case(v, qcase, impl.get(cid), model.get(cid), set())
        v.stats["evaluated"] += 1
        hh = common.case_hash(h.steps)
        if len(h.steps) >= min_steps and hh not in v.distinct:
            v.distinct.add(hh)
            v.stats["nontrivial"] += 1
        if len(v.samples) < 3:
            v.samples.append({"history": [s for s in h.steps if s.get("op") != "query"][:14]})
    return impl, model


def run_c12(ctx, spec, out):
    rng = random.Random("C12-%d" % ctx["seed"])
    v = out.v
    nh = 30 if ctx["tier"] == "quick" else 500
    schema = ctx["schema"]
    impl_lines, model_lines, hists = [], [], []
    nid = 0
    for _ in range(nh):
        wb, flags = small_world(rng, schema, {"nhosts": [1, 2, 3]})
        cfg = {"update_interval": 5, "max_parallel_peer_connections": 1, "backend_keepalive": rng.random() < 0.5, "idle_timeout": 100000}
        h = History(schema, nid)
        h.both({"op": "clock", "seconds": T0})
        h.both({"op": "world", "world": {"config": cfg, "backends": [wb]}})
        pid = wb["id"]
        h.both({"op": "init", "peer": pid}, "state")
        hosts = [r["name"] for r in wb["tables"]["hosts"]["rows"]]
        svcs = [(r["host_name"], r["description"]) for r in wb["tables"]["services"]["rows"]]
        targets = [(x, "") for x in hosts] + svcs
        next_id = {"comments": 1 + max([r["id"] for r in wb["tables"]["comments"]["rows"]] + [0]),
                   "downtimes": 1 + max([r["id"] for r in wb["tables"]["downtimes"]["rows"]] + [0])}
        live = {"comments": [r["id"] for r in wb["tables"]["comments"]["rows"]], "downtimes": [r["id"] for r in wb["tables"]["downtimes"]["rows"]]}
        for _ in range(rng.choice([3, 6, 10, 16])):
            nchg = rng.choice([0, 1, 1, 2, 3])
            changes = []
            for _ in range(nchg):
                t = rng.choice(["comments", "downtimes"])
                if live[t] and rng.random() < 0.45:
                    r = rng.random()
                    cid = live[t][-1] if r < 0.3 else (live[t][0] if r < 0.5 else rng.choice(live[t]))
                    if rng.random() < 0.1:
                        for x in list(live[t]):
                            changes.append({"table": t, "key": {"id": x}, "remove": True})
                        live[t] = []
                    else:
                        live[t].remove(cid)
                        changes.append({"table": t, "key": {"id": cid}, "remove": True})
                elif targets:
                    hn, sd = rng.choice(targets)
                    next_id[t] += rng.choice([1, 1, 2, 130, 300])
                    cid = next_id[t]
                    cols = worldgen.table_columns(schema, t, flags)
                    row = {c["name"]: json.loads(json.dumps(worldgen.DEFAULTS[c["dtype"]])) for c in cols}
                    row.update({"id": cid, "host_name": hn, "service_description": sd, "author": rng.choice(gen.CONTACTS), "comment": rng.choice(gen.WORDS),
                                "entry_time": T0 + rng.randrange(1000)})
                    if t == "comments":
                        row.update({"entry_type": rng.choice([1, 2, 3]), "expires": rng.choice([0, 1]), "expire_time": T0 + 5000})
                    else:
                        row.update({"start_time": T0, "end_time": T0 + 3600, "fixed": rng.choice([0, 1]), "duration": 3600, "triggered_by": 0})
                    live[t].append(cid)
                    # replies in any order: insert at a random position of the backend's table
                    changes.append({"table": t, "add": row})
            if changes:
                h.both({"op": "mutate", "backend": pid, "changes": changes})
            if rng.random() < 0.45:
                # replies in any row order: the backend lists its comments / downtimes the other way round from now on
                h.both({"op": "mutate", "backend": pid, "changes": [{"table": rng.choice(["comments", "downtimes"]), "reverse": True}]})
            h.both({"op": "advance", "seconds": rng.choice([5, 6, 9])})
            h.both({"op": "tick", "peer": pid}, "state")
            observe_queries(h, schema, wb, flags, ["comments", "downtimes"])
            h.query("GET hosts\nColumns: name comments downtimes comments_with_info downtimes_with_info\nOutputFormat: wrapped_json\nSort: name asc\n\n", [wb], {"observe": "host lists"})
            h.query("GET services\nColumns: host_name description comments downtimes comments_with_info downtimes_with_info host_comments_with_info\nOutputFormat: wrapped_json\nSort: host_name asc\nSort: description asc\n\n", [wb], {"observe": "service lists"})
        hists.append((h, wb))
        nid = h.n
        impl_lines += h.impl
        model_lines += h.model
    finish_histories(ctx, v, hists, impl_lines, model_lines)
    out.extra_cov["histories"] = nh


def modattr_list(mask):
    """the list a core derives from the modified_attributes bit mask"""
    return [n for bit, n in ((1, "notifications_enabled"), (2, "active_checks_enabled"), (32768, "custom_variable")) if mask & bit]


def mutate_object(rng, schema, flags, table, row, now, kinds=None):
    """one backend-side change of a host/service; returns the column updates (what a real core would change together)"""
    kind = rng.choice(kinds or ["check", "check", "check", "ack", "depth", "flag", "modattr", "exec", "custom"])
    ch = {}
    if kind == "check":
        ch = {"state": rng.choice([0, 1, 2, 3]), "plugin_output": rng.choice(gen.WORDS), "long_plugin_output": rng.choice(["", "more", "x" * 600]),
              "last_check": now, "has_been_checked": 1, "next_check": now + rng.choice([60, 300]), "latency": gen.rfloat(rng), "execution_time": gen.rfloat(rng),
              "current_attempt": rng.choice([1, 2, 3]), "perf_data": "rta=%d" % rng.randrange(100), "is_executing": 0, "last_state_change": now}
    elif kind == "ack":
        ch = {"acknowledged": 1 - int(row.get("acknowledged", 0) or 0)}
    elif kind == "depth":
        ch = {"scheduled_downtime_depth": rng.choice([0, 1, 2])}
    elif kind == "flag":
        c = rng.choice(["active_checks_enabled", "notifications_enabled"])
        ch = {c: 1 - int(row.get(c, 0) or 0)}
    elif kind == "modattr":
        cur = int(row.get("modified_attributes", 0) or 0)
        new = rng.choice([m for m in (0, 1, 2, 3) if m != (cur & 3)]) | (cur & 32768)
        ch = {"modified_attributes": new, "modified_attributes_list": modattr_list(new)}
    elif kind == "exec":
        ch = {"is_executing": 1}
    elif kind == "custom":
        # CHANGE_CUSTOM_*_VAR sets the custom-variable bit of modified_attributes (once) and bumps last_update.  The property's
        # change alphabet is {check results, acknowledgements, downtime depth, enabled flags, modified attributes, running checks}: a bare
        # edit of a value while the bit is set already changes no column the delta window or the periodic scan looks at on a backend
        # without last_update, so it is generated only where the backend has that column
        names = row.get("custom_variable_names") or []
        cur = int(row.get("modified_attributes", 0) or 0)
        if "HasLastUpdateColumn" in flags or not (cur & 32768):
            new = cur | 32768
            ch = {"custom_variable_values": [rng.choice(gen.CV_VALUES) for _ in names], "modified_attributes": new, "modified_attributes_list": modattr_list(new)}
        else:
            kind = "ack"
            ch = {"acknowledged": 1 - int(row.get("acknowledged", 0) or 0)}
    if "HasLastUpdateColumn" in flags:
        ch["last_update"] = now
    if "HasLMDLastCacheUpdateColumn" in flags:
        ch["lmd_last_cache_update"] = now
    cols = {c["name"] for c in worldgen.table_columns(schema, table, flags)}
    if "HasLMDLastCacheUpdateColumn" in flags:
        cols.add("lmd_last_cache_update")
    return kind, {k: v for k, v in ch.items() if k in cols}


def run_c03(ctx, spec, out):
    rng = random.Random("C03-%d" % ctx["seed"])
    v = out.v
    nh = 25 if ctx["tier"] == "quick" else 400
    schema = ctx["schema"]
    impl_lines, model_lines, hists = [], [], []
    spec_lines, spec_pairs = [], []
    nid = 0
    for _ in range(nh):
        # (an lmd in front of a core offers lmd_last_cache_update, with or without the core's own last_update behind it)
        flav = rng.choice([None, None, ("naemon", ["Naemon", "HasLastUpdateColumn"]), ("naemon", ["Naemon"]), ("plain", []), ("shinken", ["Shinken"]),
                           ("naemon", ["Naemon", "HasLastUpdateColumn", "HasLMDLastCacheUpdateColumn"]), ("naemon", ["Naemon", "HasLMDLastCacheUpdateColumn"])])
        wb, flags = small_world(rng, schema, {"nhosts": [1, 2, 4, 6], "flavour": flav})
        # give every object a plausible last_check in the past
        now = T0
        tp_in = {r["name"]: r.get("in", 1) for r in wb["tables"]["timeperiods"]["rows"]}
        for t in ("hosts", "services"):
            for r in wb["tables"][t]["rows"]:
                r["last_check"] = T0 - rng.choice([500, 200, 100, 50]) if rng.random() < 0.75 else 0     # 0 = never checked
                if "last_update" in r:
                    r["last_update"] = r["last_check"]
                if "lmd_last_cache_update" in r:
                    r["lmd_last_cache_update"] = r["last_check"]
                r["is_executing"] = 0
                if "modified_attributes_list" in r:
                    r["modified_attributes_list"] = modattr_list(int(r.get("modified_attributes", 0) or 0))
                r["check_period"] = rng.choice(["24x7", "24x7", "workhours"])
                r["notification_period"] = rng.choice(["24x7", "workhours"])
                # what the core derives from the period: the object is in its period exactly when the period is active
                if "in_check_period" in r:
                    r["in_check_period"] = tp_in.get(r["check_period"], 1)
                if "in_notification_period" in r:
                    r["in_notification_period"] = tp_in.get(r["notification_period"], 1)
        cfg = {"update_interval": rng.choice([5, 10]), "update_offset": rng.choice([1, 3]), "max_parallel_peer_connections": 1, "backend_keepalive": False,
               "idle_timeout": 1000000, "sync_is_executing": rng.random() < 0.5, "stale_backend_timeout": 100000}
        h = History(schema, nid)
        hs = History(schema, 0)      # the specification stream: same mutations, a fresh synchronisation at the end
        h.both({"op": "clock", "seconds": T0})
        hs.both({"op": "clock", "seconds": T0})
        h.both({"op": "world", "world": {"config": cfg, "backends": [wb]}})
        hs.both({"op": "world", "world": {"config": cfg, "backends": [wb]}})
        pid = wb["id"]
        h.both({"op": "init", "peer": pid}, "state")
        objs = [("hosts", {"name": r["name"]}, r) for r in wb["tables"]["hosts"]["rows"]] + \
               [("services", {"host_name": r["host_name"], "description": r["description"]}, r) for r in wb["tables"]["services"]["rows"]]
        rounds = rng.choice([3, 6, 10, 20])
        for rd in range(rounds):
            # backend changes at various instants inside the interval
            for _ in range(rng.choice([0, 1, 2, 4])):
                d = rng.choice([0, 1, 2, 3])
                if d:
                    now += d
                    h.both({"op": "advance", "seconds": d})
                    hs.both({"op": "advance", "seconds": d})
                if not objs:
                    break
                t, key, row = rng.choice(objs)
                kind, ch = mutate_object(rng, schema, flags, t, row, now)
                if ch:
                    row.update(ch)
                    line = {"op": "mutate", "backend": pid, "changes": [{"table": t, "key": key, "set": ch}]}
                    h.both(line)
                    hs.both(line)
            if rng.random() < 0.2:
                # timeperiods flip (one, or both in the same minute): the core changes in_check_period / in_notification_period of
                # the objects that use the period, without a new check result
                changes = []
                for tp in rng.choice([["24x7"], ["workhours"], ["24x7", "workhours"], ["workhours", "24x7"]]):
                    val = 1 - tp_in.get(tp, 1)
                    tp_in[tp] = val
                    changes.append({"table": "timeperiods", "key": {"name": tp}, "set": {"in": val}})
                    for t, key, row in objs:
                        upd = {}
                        if row.get("check_period") == tp and "in_check_period" in row:
                            upd["in_check_period"] = val
                        if row.get("notification_period") == tp and "in_notification_period" in row:
                            upd["in_notification_period"] = val
                        if upd:
                            # the core computes these when it is asked: no last_update, no new check result
                            row.update(upd)
                            changes.append({"table": t, "key": key, "set": upd})
                line = {"op": "mutate", "backend": pid, "changes": changes}
                h.both(line)
                hs.both(line)
            d = rng.choice([5, 10, 11, 30, 61, 70])
            now += d
            h.both({"op": "advance", "seconds": d})
            hs.both({"op": "advance", "seconds": d})
            if rng.random() < 0.2:
                # the update is aborted by a connection problem after n backend queries
                h.both({"op": "mode", "backend": pid, "fail_after": rng.choice([0, 1, 2, 3, 4, 6]), "fail_mode": rng.choice(["closeearly", "garbage", "error500"])})
                h.both({"op": "tick", "peer": pid}, "state")
                h.both({"op": "mode", "backend": pid, "mode": "ok", "fail_after": 100000000, "fail_mode": "ok"})
            else:
                h.both({"op": "tick", "peer": pid}, "state")
            observe_queries(h, schema, wb, flags, ["hosts", "services"])
        # running checks finish before the backend goes quiet
        fin = []
        for t, key, row in objs:
            if row.get("is_executing") == 1:
                kind, ch = mutate_object(rng, schema, flags, t, row, now, ["check"])
                row.update(ch)
                fin.append({"table": t, "key": key, "set": ch})
        if fin:
            line = {"op": "mutate", "backend": pid, "changes": fin}
            h.both(line)
            hs.both(line)
        # quiescence: the backend stops changing; update cycles including the periodic full scan
        for d in (61, 10, 61, 10):
            now += d
            h.both({"op": "advance", "seconds": d})
            hs.both({"op": "advance", "seconds": d})
            h.both({"op": "tick", "peer": pid}, "state")
        hs.both({"op": "init", "peer": pid})
        before = dict(h.queries)
        observe_queries(h, schema, wb, flags, ["hosts", "services", "status", "timeperiods", "hostgroups", "servicegroups"])
        final = [cid for cid in h.queries if cid not in before]
        for cid in final:
            sid = hs.query(h.queries[cid]["text"], [wb])
            spec_pairs.append((cid, sid + 10**7 * (len(hists) + 1), dict(h.queries[cid], extra=dict(h.queries[cid].get("extra") or {}, lines=[l for l in h.impl if l["id"] <= cid]))))
        # the spec stream gets ids in its own space
        for l in hs.model:
            l2 = dict(l)
            l2["id"] = l["id"] + 10**7 * (len(hists) + 1)
            spec_lines.append(l2)
        hists.append((h, wb))
        nid = h.n
        impl_lines += h.impl
        model_lines += h.model
    impl, model = finish_histories(ctx, v, hists, impl_lines, model_lines)
    # convergence against the specification: what a fresh synchronisation of the final backend state serves
    spec = common.run_model(ctx["schema_path"], spec_lines)
    for cid, sid, case in spec_pairs:
        s_res = spec.get(sid)
        m_res = model.get(cid)
        case = dict(case, extra=dict(case.get("extra") or {}, convergence=True))
        if s_res is None or m_res is None or s_res.get("kind") != "data" or m_res.get("kind") != "data":
            continue
        # the specification's pool replaces the model's own "spec" (which only says: model = its cache)
        merged = dict(m_res)
        merged["spec"] = s_res["model"]
        merged["model_eq_spec"] = [r for _, r in m_res["model"]["pool"]] == [r for _, r in s_res["model"]["pool"]]
        merged["explained"] = False
        merged["quirks_hit"] = []
        if not merged["model_eq_spec"]:
            cols = case["text"].split("\n")[1].replace("Columns: ", "").split(" ")
            diffs = []
            for (_, a), (_, b) in zip(m_res["model"]["pool"], s_res["model"]["pool"]):
                ra, rb = json.loads(a), json.loads(b)
                for cname, x, y in zip(cols, ra, rb):
                    if x != y:
                        diffs.append("%s: served %r backend %r (object %s)" % (cname, x, y, ra[:2]))
            case["extra"]["stale_columns"] = diffs[:12]
        queryfam.evaluate_case(v, case, impl.get(cid), merged, set())
    out.extra_cov["histories"] = nh
    out.extra_cov["convergence_queries"] = len(spec_pairs)


def parallel_rebuilds(ctx, rng, schema, impl_lines, n, count):
    """The rebuild with MaxParallelPeerConnections > 1 (lmd's default): the tables are fetched concurrently, so a fault cannot be
    placed at "the n-th backend query" as in the modelled histories - it is placed at one table (`fail_table`), whatever the order
    of the fetches.  The model fetches one table after the other; these histories are therefore judged on the implementation alone,
    with the property's own sentences: a rebuild in which a fetch failed leaves the backend flagged with the error, what is
    served is the old object set or the new one or nothing - never a part of each - and after recovery it is the new set."""
    out = []
    for _ in range(count):
        flavour, flags = worldgen.pick_flavour(rng)
        if flavour == "icinga2":
            flavour, flags = "naemon", ["Naemon"]
        wb, flags = small_world(rng, schema, {"nhosts": [2, 3], "flavour": (flavour, flags)})
        wb2, _ = small_world(rng, schema, {"nhosts": [1, 2, 4], "flavour": (flavour, flags)})
        for r in wb2["tables"]["hosts"]["rows"]:
            r["name"] = "new-" + r["name"]
        for r in wb2["tables"]["services"]["rows"]:
            r["host_name"] = "new-" + r["host_name"]
        for t in ("comments", "downtimes"):
            wb2["tables"][t]["rows"] = []
        for t in ("hostgroups", "servicegroups"):
            for r in wb2["tables"][t]["rows"]:
                r["members"] = []
        cfg = {"update_interval": 5, "max_parallel_peer_connections": 3, "backend_keepalive": False, "idle_timeout": 1000000, "stale_backend_timeout": 100000}
        pid = wb["id"]
        lines = []

        def add(l):
            nonlocal n
            l = json.loads(json.dumps(dict(l, id=n)))
            lines.append(l)
            n += 1
            return l["id"]
        add({"op": "clock", "seconds": T0})
        add({"op": "world", "world": {"config": cfg, "backends": [wb]}})
        add({"op": "init", "peer": pid})
        changes = [{"table": t, "replace": wb2["tables"][t]["rows"]} for t in ("hosts", "services", "hostgroups", "servicegroups", "comments", "downtimes")]
        cont = json.loads(json.dumps(wb["tables"]["contacts"]["rows"][-1])) if wb["tables"]["contacts"]["rows"] else None
        if cont:
            cont["name"] = "new-contact"
            changes.append({"table": "contacts", "add": cont})
        rk = rng.random()
        st = {"program_start": 1700000100, "nagios_pid": 4300} if rk < 0.5 else ({"program_start": 1700000100} if rk < 0.8 else {"nagios_pid": 4300})
        changes.append({"table": "status", "key": {}, "set": st})
        add({"op": "mutate", "backend": pid, "changes": changes})
        add({"op": "advance", "seconds": rng.choice([5, 7])})
        table = rng.choice(["contacts", "contactgroups", "commands", "timeperiods", "hostgroups", "servicegroups", "hosts", "services", "comments", "downtimes"])
        add({"op": "mode", "backend": pid, "fail_table": table, "fail_mode": rng.choice(["error500", "closeearly", "garbage", "truncate"])})
        t1 = add({"op": "tick", "peer": pid})
        q1 = {t: add({"op": "query", "text": "GET %s\nColumns: %s\nOutputFormat: wrapped_json\n\n" % (t, " ".join(gen.key_columns(t))), "optimize": True}) for t in ("hosts", "services", "contacts")}
        for d in (5, 61, 5):
            add({"op": "advance", "seconds": d})
            add({"op": "tick", "peer": pid})
        s2 = add({"op": "state", "peer": pid})
        q2 = {t: add({"op": "query", "text": "GET %s\nColumns: %s\nOutputFormat: wrapped_json\n\n" % (t, " ".join(gen.key_columns(t))), "optimize": True}) for t in ("hosts", "services", "contacts")}
        old = {t: sorted(json.dumps([r[k] for k in gen.key_columns(t)]) for r in wb["tables"][t]["rows"]) for t in ("hosts", "services", "contacts")}
        new = {t: sorted(json.dumps([r[k] for k in gen.key_columns(t)]) for r in wb2["tables"][t]["rows"]) for t in ("hosts", "services")}
        new["contacts"] = sorted(old["contacts"] + ([json.dumps(["new-contact"])] if cont else []))
        impl_lines += lines
        out.append({"lines": lines, "table": table, "tick": t1, "q1": q1, "q2": q2, "state2": s2, "old": old, "new": new, "peer": pid})
    return out


def judge_parallel_rebuilds(v, impl, par):
    def served(res, pid):
        if not res or res.get("crash"):
            return "crash"
        try:
            body = json.loads(res.get("body") or "null")
        except ValueError:
            return "error"
        if not isinstance(body, dict):
            return "error"
        if pid in (body.get("failed") or {}):
            return "failed"
        return sorted(json.dumps(r) for r in body.get("data") or [])
    for p in par:
        case = {"text": "parallel rebuild, fault at table " + p["table"], "dataset": None, "extra": {"lines": p["lines"], "fault_table": p["table"]}}
        v.stats["evaluated"] += 1
        t = impl.get(p["tick"]) or {}
        if t.get("crash"):
            v.violations.append(("crash", case, "the daemon crashed in the rebuild: %s" % str(t.get("stderr", ""))[-400:]))
            continue
        st = t.get("state") or {}
        hit = (t.get("fail_table_hits") or 0) > 0
        if hit and st.get("status") == 0 and not st.get("last_error") and not t.get("err"):
            v.violations.append(("property", case, "the fetch of table %s failed during the update run, yet the backend is reported up without an error" % p["table"]))
            continue
        kinds = {}
        for tab, cid in p["q1"].items():
            got = served(impl.get(cid), p["peer"])
            kinds[tab] = "failed" if got == "failed" else "old" if got == p["old"][tab] else "new" if got == p["new"][tab] else "other: %s" % str(got)[:200]
        distinct = set(kinds.values())
        # contacts are the same objects plus one in the new set: with no contact row at all old and new coincide
        if any(k.startswith("other") or k in ("crash", "error") for k in distinct) or (len(distinct - {"failed"}) > 1 and not (p["old"]["contacts"] == p["new"]["contacts"])) \
                or ("failed" in distinct and len(distinct) > 1):
            v.violations.append(("property", case, "after the interrupted rebuild the tables are served from different object sets: %s" % kinds))
            continue
        bad = {}
        for tab, cid in p["q2"].items():
            got = served(impl.get(cid), p["peer"])
            if got != p["new"][tab]:
                bad[tab] = str(got)[:200]
        if bad:
            v.violations.append(("property", case, "after recovery the served objects are not the backend's new set: %s" % bad))
            continue
        if hit:
            v.stats["nontrivial"] += 1


def run_c11(ctx, spec, out):
    rng = random.Random("C11-%d" % ctx["seed"])
    v = out.v
    nh = 30 if ctx["tier"] == "quick" else 400
    schema = ctx["schema"]
    impl_lines, model_lines, hists = [], [], []
    spec_lines, spec_pairs = [], []
    nid = 0
    tables_obs = ["hosts", "services", "hostgroups", "servicegroups", "comments", "downtimes", "contacts", "status"]
    for hi in range(nh):
        flavour, flags = worldgen.pick_flavour(rng)
        wb, flags = small_world(rng, schema, {"nhosts": [1, 2, 3], "flavour": (flavour, flags)})
        cfg = {"update_interval": 5, "max_parallel_peer_connections": 1, "backend_keepalive": False, "idle_timeout": 1000000,
               "stale_backend_timeout": rng.choice([20, 60, 100000])}
        if rng.random() < 0.35:
            # every table is fetched as a whole now and then: hosts and services notice a changed number of objects too
            cfg["full_update_interval"] = rng.choice([20, 60, 130])
        h = History(schema, nid)
        hs = History(schema, 0)
        for hh in (h, hs):
            hh.both({"op": "clock", "seconds": T0})
            hh.both({"op": "world", "world": {"config": cfg, "backends": [wb]}})
        pid = wb["id"]
        h.both({"op": "init", "peer": pid}, "state")
        pstart = 1700000000
        pidn = 4242
        replaced = False
        grew = False
        for rd in range(rng.choice([2, 3, 5])):
            r = rng.random()
            changes = []
            if r < 0.6:
                # a restart with a changed object set: a second generated backend's objects replace the first
                # (a reload by signal keeps the pid, a restart within the same second keeps program_start: one of the two is enough)
                rk = rng.random()
                if rk < 0.5:
                    pstart += rng.choice([10, 100])
                    pidn += 1
                elif rk < 0.8:
                    pstart += rng.choice([10, 100])
                else:
                    pidn += 1
                wb2, _ = small_world(rng, schema, {"nhosts": [0, 1, 2, 4], "flavour": (flavour, flags)})
                replaced = True
                for t in ("hosts", "services", "hostgroups", "servicegroups", "comments", "downtimes"):
                    changes.append({"table": t, "replace": wb2["tables"][t]["rows"]})
                changes.append({"table": "status", "key": {}, "set": {"program_start": pstart, "nagios_pid": pidn}})
            elif r < 0.85:
                # object count changes without restart: add a contact / remove a host group / add a timeperiod
                # only tables that are refreshed as a whole (every full minute) notice a changed number of objects
                # (not for Icinga 2 backends: their count check and re-synchronisation from inside the delta scan,
                # reloadIfNumberOfObjectsChanged, is not part of the model)
                grow_ok = not replaced and "Icinga2" not in flags and (cfg.get("full_update_interval") or rng.random() < 0.3)
                c = rng.choice(["hostgroup", "timeperiod", "host", "service", "droplast"] if grow_ok else ["hostgroup", "timeperiod"])
                hrows = wb["tables"]["hosts"]["rows"]
                srows = wb["tables"]["services"]["rows"]
                if c == "host" and hrows:
                    # a core that takes a new object without a restart (Icinga 2 does): hosts / services see it at their next
                    # fetch of the whole table, the delta scan sees more objects than cached
                    row = json.loads(json.dumps(hrows[-1]))
                    row["name"] = "zz-new%d" % rd
                    changes.append({"table": "hosts", "add": row})
                elif c == "service" and srows:
                    row = json.loads(json.dumps(srows[-1]))
                    row["description"] = "zz new %d" % rd
                    changes.append({"table": "services", "add": row})
                elif c == "droplast" and srows:
                    last = srows[-1]
                    changes.append({"table": "services", "key": {"host_name": last["host_name"], "description": last["description"]}, "remove": True})
                elif c in ("host", "service", "droplast"):
                    c = "hostgroup"
                if c in ("host", "service", "droplast"):
                    grew = True
                elif c == "contact":
                    cols = worldgen.table_columns(schema, "contacts", flags)
                    row = {col["name"]: json.loads(json.dumps(worldgen.DEFAULTS[col["dtype"]])) for col in cols}
                    row.update({"name": "new%d" % rd, "alias": "New"})
                    changes.append({"table": "contacts", "add": row})
                elif c == "timeperiod":
                    cols = worldgen.table_columns(schema, "timeperiods", flags)
                    row = {col["name"]: json.loads(json.dumps(worldgen.DEFAULTS[col["dtype"]])) for col in cols}
                    row.update({"name": "tp%d" % rd, "alias": "TP"})
                    changes.append({"table": "timeperiods", "add": row})
                else:
                    cols = worldgen.table_columns(schema, "hostgroups", flags)
                    row = {col["name"]: json.loads(json.dumps(worldgen.DEFAULTS[col["dtype"]])) for col in cols}
                    row.update({"name": "hg%d" % rd, "alias": "HG"})
                    changes.append({"table": "hostgroups", "add": row})
            else:
                pstart += 5     # restart without any object change
                changes.append({"table": "status", "key": {}, "set": {"program_start": pstart}})
            for hh in (h, hs):
                hh.both({"op": "mutate", "backend": pid, "changes": changes})
            d = rng.choice([5, 61, 70])
            for hh in (h, hs):
                hh.both({"op": "advance", "seconds": d})
            if rng.random() < 0.6:
                # the rebuild (or the update that detects it) fails at the n-th backend query
                h.both({"op": "mode", "backend": pid, "fail_after": rng.randrange(0, 16), "fail_mode": rng.choice(["closeearly", "garbage", "error500", "truncate"])})
                h.both({"op": "tick", "peer": pid}, "state")
                observe_queries(h, schema, wb, flags, ["hosts", "services", "contacts"])
                h.both({"op": "mode", "backend": pid, "mode": "ok", "fail_after": 100000000, "fail_mode": "ok"})
                for hh in (h, hs):
                    hh.both({"op": "advance", "seconds": 5})
            h.both({"op": "tick", "peer": pid}, "state")
            observe_queries(h, schema, wb, flags, ["hosts", "services", "contacts"])
        # recovery: two update rounds (the second one at the next full minute); a backend that was flagged broken for a grown
        # hosts / services table and did not restart is synchronised again when the grace time (300 s) is over
        for d in (5, 61, 5) + ((310, 5, 61, 5) if grew else ()):
            for hh in (h, hs):
                hh.both({"op": "advance", "seconds": d})
            h.both({"op": "tick", "peer": pid}, "state")
        hs.both({"op": "init", "peer": pid})
        before = dict(h.queries)
        observe_queries(h, schema, wb, flags, tables_obs)
        final = [cid for cid in h.queries if cid not in before]
        for cid in final:
            sid = hs.query(h.queries[cid]["text"], [wb])
            spec_pairs.append((cid, sid + 10**7 * (hi + 1), dict(h.queries[cid], extra=dict(h.queries[cid].get("extra") or {}, lines=[l for l in h.impl if l["id"] <= cid]))))
        for l in hs.model:
            l2 = dict(l)
            l2["id"] = l["id"] + 10**7 * (hi + 1)
            spec_lines.append(l2)
        hists.append((h, wb))
        nid = h.n
        impl_lines += h.impl
        model_lines += h.model
    par = parallel_rebuilds(ctx, rng, schema, impl_lines, nid + 1, 6 if ctx["tier"] == "quick" else 80)
    impl, model = finish_histories(ctx, v, hists, impl_lines, model_lines)
    judge_parallel_rebuilds(v, impl, par)
    out.extra_cov["parallel_rebuild_histories"] = len(par)
    specres = common.run_model(ctx["schema_path"], spec_lines)
    for cid, sid, case in spec_pairs:
        s_res, m_res = specres.get(sid), model.get(cid)
        case = dict(case, extra=dict(case.get("extra") or {}, convergence=True))
        if s_res is None or m_res is None or s_res.get("kind") != "data" or m_res.get("kind") != "data":
            continue
        merged = dict(m_res)
        merged["spec"] = s_res["model"]
        merged["model_eq_spec"] = [r for _, r in m_res["model"]["pool"]] == [r for _, r in s_res["model"]["pool"]] and m_res["model"]["failed"] == s_res["model"]["failed"]
        merged["explained"] = False
        merged["quirks_hit"] = []
        if not merged["model_eq_spec"]:
            case["extra"]["served_vs_backend"] = {"served": m_res["model"]["pool"][:6], "backend": s_res["model"]["pool"][:6], "failed": m_res["model"]["failed"]}
        queryfam.evaluate_case(v, case, impl.get(cid), merged, set())
    out.extra_cov["histories"] = nh
    out.extra_cov["convergence_queries"] = len(spec_pairs)
