"""The scripted-backend engine: worlds (lmd peers wired to scripted Livestatus backends), steps, and the
comparison of what lmd serves with the Lean model."""

import json
import os
import random

from . import common, gen, queryfam, worldgen, c10


def run_lines(ctx, impl_lines, model_lines):
    scratch = os.path.join(common.BUILD, "scratch-%d" % os.getpid())
    impl = common.run_impl(ctx["binary"], impl_lines, scratch, timeout=900)
    model = common.run_model(ctx["schema_path"], model_lines) if model_lines else {}
    return impl, model


# ---------------------------------------------------------------------------------------------
# C02: initial synchronisation

def c02_values(rng, ds):
    """value shapes the property names: long strings (compression), control bytes, numbers at and beyond ranges, equal / near-equal lists"""
    big = ["x" * 600, "y" * 2000, "long " * 200, "é" * 300]
    for b in ds["backends"]:
        for tname in ("hosts", "services"):
            t = b["tables"][tname]
            for row in t["rows"]:
                for cname in ("plugin_output", "long_plugin_output", "notes"):
                    if cname in t["cols"] and rng.random() < 0.3:
                        row[t["cols"].index(cname)] = rng.choice(big + c10.NASTY)
                if "custom_variable_values" in t["cols"] and rng.random() < 0.3:
                    i = t["cols"].index("custom_variable_values")
                    row[i] = [rng.choice(["", "a", "a\u0000b", "x" * 700]) for _ in row[i]]
                if "contacts" in t["cols"] and rng.random() < 0.3:
                    row[t["cols"].index("contacts")] = rng.choice([["alice", "bob"], ["alice", "bob"], ["alice", "bob "], ["bob", "alice"], [""], []])
                for cname, vals in (("last_check", [0, 9007199254740992, 4294967296, 1700000000]), ("scheduled_downtime_depth", [0, 1, 127, 128, -128, -129, 300]),
                                    ("latency", [0, 0.125, 1e3, -2.5]), ("state", [0, 1, 2, 3])):
                    if cname in t["cols"] and rng.random() < 0.3:
                        row[t["cols"].index(cname)] = rng.choice(vals)
        # lists whose joined text (NUL separated) or whose 32-bit hash collide: ["a\0b","c"] / ["a","b\0c"], and a real xxhash32 collision
        for tname in ("hosts", "services"):
            t = b["tables"][tname]
            if len(t["rows"]) >= 2 and "contacts" in t["cols"] and rng.random() < 0.5:
                i = t["cols"].index("contacts")
                pair = rng.choice([(["a\u0000b", "c"], ["a", "b\u0000c"]), (["admin", "user68047"], ["admin", "user183219"]), ([], [""]), (["x", ""], ["x\u0000"])])
                r1, r2 = rng.sample(range(len(t["rows"])), 2)
                t["rows"][r1][i] = list(pair[0])
                t["rows"][r2][i] = list(pair[1])
    return ds


def run_c02(ctx, spec, out):
    rng = random.Random("C02-%d" % ctx["seed"])
    v = out.v
    nworlds = 25 if ctx["tier"] == "quick" else 400
    schema = ctx["schema"]
    impl_lines, model_lines, cases = [], [], {}
    n = 0
    flag_checks = []
    for _ in range(nworlds):
        ds = c02_values(rng, gen.gen_dataset(rng, {"nbackends": [1, 1, 2, 3]}))
        wbs, mbs = [], []
        for b in ds["backends"]:
            flavour, flags = worldgen.pick_flavour(rng)
            wb = worldgen.full_backend(schema, b, flavour, flags, rng)
            wbs.append(wb)
            mbs.append(worldgen.model_backend(schema, wb, flags))
        cfg = {"max_parallel_peer_connections": rng.choice([1, 3])}
        n += 1
        impl_lines.append({"op": "world", "id": n, "world": {"config": cfg, "backends": wbs}})
        mds = {"backends": mbs, "service_auth": "loose", "group_auth": "strict"}
        model_lines.append({"op": "sync", "id": n, "dataset": mds})
        for wb, mb in zip(wbs, mbs):
            n += 1
            impl_lines.append({"op": "init", "id": n, "peer": wb["id"]})
            flag_checks.append((n, mb["flags"], wb["id"]))
        # read back every table with every modelled column, plus some filtered / sorted queries
        gds = {"backends": [{"id": mb["id"], "name": mb["name"], "flags": mb["flags"], "tables": mb["tables"]} for mb in mbs]}
        for table in ["hosts", "services", "hostgroups", "servicegroups", "comments", "downtimes", "contacts", "timeperiods", "commands", "contactgroups"]:
            cols = [c["name"] for c in gen.usable_columns(schema, gds, table)]
            keys = gen.key_columns(table)
            for chunk in range(0, len(cols), 25):
                part = cols[chunk:chunk + 25]
                text = "GET %s\nColumns: %s\nOutputFormat: wrapped_json\n%s\n" % (table, " ".join(keys + part + ["peer_key"]), "".join("Sort: %s asc\n" % k for k in keys + ["peer_key"]))
                n += 1
                q = {"op": "query", "id": n, "text": text, "optimize": True}
                impl_lines.append(q)
                model_lines.append(q)
                cases[n] = {"text": text, "optimize": True, "dataset": {"world": wbs}, "has_header_row": False, "dataset_hash": common.case_hash(wbs)}
        for _ in range(6):
            text = gen.gen_data_query(rng, schema, gds, {"depth": [0, 1], "sort": 0.5})
            n += 1
            q = {"op": "query", "id": n, "text": text, "optimize": True}
            impl_lines.append(q)
            model_lines.append(q)
            cases[n] = {"text": text, "optimize": True, "dataset": {"world": wbs}, "has_header_row": queryfam.has_header_row(text), "dataset_hash": common.case_hash(wbs)}
    impl, model = run_lines(ctx, impl_lines, model_lines)
    for i, flags, pid in flag_checks:
        r = impl.get(i) or {}
        if r.get("err") or r.get("crash") or r.get("error"):
            v.violations.append(("property", {"text": "init " + pid, "dataset": None}, "initial synchronisation failed: %s" % str(r)[:400]))
            continue
        got = set((r.get("state") or {}).get("flags") or [])
        if got != set(flags):
            v.corr_broken.append(({"text": "init " + pid, "dataset": None}, "backend flags detected %s, expected %s" % (sorted(got), sorted(flags))))
    for cid, case in cases.items():
        queryfam.evaluate_case(v, case, impl.get(cid), model.get(cid), set())
    out.extra_cov["worlds"] = nworlds
