"""The `query` engine: importer-loaded datasets, request texts, three-way comparison
impl (Go) / model (Lean mirror of the code) / spec (Lean statement of the property)."""

import json
import os
import random

from . import common, gen


def parse_impl(res, model):
    """normalise the implementation's answer: ('rows'|'stats'|'error'|'crash', payload)"""
    if res is None:
        return ("missing", {})
    if res.get("crash"):
        return ("crash", {"stderr": res.get("stderr", "")})
    code = res.get("code")
    if code is None:
        return ("harness", {"detail": str(res)[:600]})
    if code != 200:
        return ("error", {"code": code, "err": res.get("err", "")})
    body = res.get("body", "")
    try:
        data = json.loads(body)
    except ValueError as e:
        return ("badjson", {"body": body[:500], "err": str(e)})
    out = {"code": 200}
    if isinstance(data, dict):
        out["rows"] = data.get("data", [])
        out["total"] = data.get("total_count")
        out["failed"] = data.get("failed", {})
        out["columns"] = data.get("columns")
    else:
        out["rows"] = data
    return ("ok", out)


def strip_header_row(rows, model, text):
    """json format with ColumnHeaders: on (or no Columns) carries a header row first"""
    return rows


def norm_failed(msg):
    """errors of the network layer carry addresses and request dumps: the map is compared on the error class"""
    msg = msg.strip()
    if msg.startswith("peer is down:"):
        return "peer is down"
    return msg


def same_failed(a, b):
    return {k: norm_failed(v) for k, v in a.items()} == {k: norm_failed(v) for k, v in b.items()}


def stats_close(impl_rows, model_rows, ncols):
    """impl rows: [keys..., values...]; model rows: [{key, vals:[[num,den],...]}] (aggregates in milli/den)"""
    def keyof(row):
        return "\x00".join(str(x) if not isinstance(x, float) or x != int(x) else str(int(x)) for x in row[:ncols])
    want = {}
    for r in model_rows:
        want[r["key"]] = r["vals"]
    got = {}
    for row in impl_rows:
        k = keyof(row)
        if k in got:
            return False, "duplicate stats line for key %r" % k
        got[k] = row[ncols:]
    if set(got) != set(want):
        return False, "group keys differ: impl %s model %s" % (sorted(got)[:6], sorted(want)[:6])
    for k, vals in want.items():
        g = got[k]
        if len(g) != len(vals):
            return False, "row width differs for key %r" % k
        for x, (num, den) in zip(g, vals):
            if not isinstance(x, (int, float)):
                return False, "non numeric stats value %r" % (x,)
            w = num / den
            # counters are exact; aggregates were generated in milli units
            cand = [w, w / 1000.0]
            if not any(abs(x - c) <= 1e-9 * max(1.0, abs(c)) for c in cand):
                return False, "key %r: impl %r model %s/%s" % (k, x, num, den)
    return True, ""


class Verdicts:
    def __init__(self, prop):
        self.prop = prop
        self.violations = []      # (kind, case, detail)
        self.corr_broken = []     # correspondence failures where impl still equals the spec
        self.known_hits = {}      # quirk -> count
        self.known_examples = {}
        self.stats = {"evaluated": 0, "unsupported": 0, "bad_request": 0, "data": 0, "stats": 0, "error502": 0,
                      "model_ne_spec": 0, "nontrivial": 0}
        self.distinct = set()
        self.samples = []
        self.dist = {}

    def bump(self, key, n=1):
        self.dist[key] = self.dist.get(key, 0) + n


def nontrivial_data(model):
    pool = model.get("spec", {}).get("pool", [])
    return len(pool) > 0


def evaluate_case(v, case, impl_res, model_res, listed_quirks):
    """one request: decide correspondence and property verdict"""
    text = case["text"]
    v.stats["evaluated"] += 1
    if model_res is None:
        v.violations.append(("model-missing", case, "the model produced no answer"))
        return
    if model_res.get("parse") == "unsupported":
        v.stats["unsupported"] += 1
        v.bump("unsupported:" + model_res.get("why", "")[:40])
        # the answer of a request outside the modelled class is not compared - but it has to be an answer
        if impl_res is not None and impl_res.get("crash"):
            v.violations.append(("crash", case, "the implementation crashed on a request outside the modelled class (%s): %s" % (model_res.get("why", ""), (impl_res.get("stderr") or "")[-400:])))
        return
    kind, impl = parse_impl(impl_res, model_res)
    h = common.case_hash([case.get("dataset_hash"), text, case.get("optimize")])
    if model_res.get("parse") == "bad":
        v.stats["bad_request"] += 1
        if kind == "error" and impl["code"] == 400:
            return
        v.corr_broken.append((case, "model rejects the request (%s), impl answered %s %s" % (model_res.get("msg"), kind, str(impl)[:200])))
        return
    mk = model_res.get("kind")
    if mk == "error502":
        v.stats["error502"] += 1
        if kind == "error" and impl["code"] == 502:
            return
        v.corr_broken.append((case, "model answers 502, impl %s %s" % (kind, str(impl)[:200])))
        return
    if mk == "crash":
        if kind == "crash":
            v.known_hits["crash"] = v.known_hits.get("crash", 0) + 1
            v.known_examples.setdefault("crash", case)
            return
        v.corr_broken.append((case, "model predicts a crash, impl %s" % kind))
        return
    if kind == "crash":
        v.violations.append(("crash", case, "the implementation crashed: " + impl.get("stderr", "")[-400:]))
        return
    if kind != "ok":
        # the specification (like the model) answers this request normally: an error / invalid body is a wrong answer
        v.violations.append(("property", case, "impl answered %s %s, model and specification answer normally" % (kind, str(impl)[:300])))
        return

    model_eq_spec = model_res.get("model_eq_spec", False)
    if mk == "data":
        v.stats["data"] += 1
        rows = impl["rows"]
        offset, limit = model_res.get("offset", 0), model_res.get("limit")
        ncols = model_res.get("ncols")
        # a header row is sent for `ColumnHeaders: on`
        if case.get("has_header_row") and rows:
            rows = rows[1:]
        crow = [common.canon(r) for r in rows]
        mpool = [(c, common.canon(json.loads(r))) for c, r in model_res["model"]["pool"]]
        spool = [(c, common.canon(json.loads(r))) for c, r in model_res["spec"]["pool"]]
        mtotal, stotal = model_res["model"]["total"], model_res["spec"]["total"]
        wrapped = model_res.get("wrapped")

        def agrees(pool, total, failed):
            if offset > total:
                ok, why = (len(crow) == 0, "offset beyond total but rows returned")
            else:
                ok, why = common.accept_window(pool, offset, limit, crow)
            if ok and wrapped:
                if impl.get("total") != total:
                    ok, why = False, "total_count impl %s expected %s" % (impl.get("total"), total)
                elif not same_failed(impl.get("failed") or {}, failed):
                    ok, why = False, "failed map impl %s expected %s" % (impl.get("failed"), failed)
            return ok, why
        ok_model, why_model = agrees(mpool, mtotal, model_res["model"]["failed"])
        nontriv = 0 < len(spool) and (len(crow) > 0) and text.count("Filter:") + text.count("Sort:") + text.count("Limit:") >= 1
    elif mk == "stats":
        v.stats["stats"] += 1
        ncols = model_res.get("ncols", 0)
        ok_model, why_model = stats_close(impl["rows"], model_res["model"]["rows"], ncols)
        nontriv = any(any(val[0] != 0 for val in r["vals"]) for r in model_res["spec"]["rows"]) and text.count("Stats") >= 2

        def agrees(_pool, _total, _failed):
            return stats_close(impl["rows"], model_res["spec"]["rows"], ncols)
        spool, stotal = None, None
    else:
        v.violations.append(("model-kind", case, "unexpected model answer " + str(mk)))
        return

    if nontriv and h not in v.distinct:
        v.distinct.add(h)
        v.stats["nontrivial"] += 1
    if len(v.samples) < 4 and nontriv:
        v.samples.append({"request": text, "optimize": case.get("optimize"), "impl_rows": len(impl["rows"]), "model_eq_spec": model_eq_spec})

    if ok_model:
        if model_eq_spec:
            return
        v.stats["model_ne_spec"] += 1
        if not model_res.get("assumptions_ok", True):
            # the dataset violates GroupsConsistent (hosts' groups vs hostgroups' members): the index theorems assume it
            v.bump("assumption GroupsConsistent violated (ignored)")
            return
        hits = model_res.get("quirks_hit", [])
        if model_res.get("explained") and hits and all(q in listed_quirks for q in hits):
            for q in hits:
                v.known_hits[q] = v.known_hits.get(q, 0) + 1
                v.known_examples.setdefault(q, case)
            return
        v.violations.append(("property", case, "impl = model, but the answer differs from the specification and no listed finding explains it (quirks hit: %s)" % hits))
        return
    # correspondence broken: is the implementation's answer wrong with respect to the specification?
    ok_spec, why_spec = agrees(spool, stotal, model_res.get("spec", {}).get("failed", {}))
    if ok_spec:
        v.corr_broken.append((case, "impl differs from the model (%s) but agrees with the specification" % why_model))
    else:
        v.violations.append(("property", case, "impl differs from the model (%s) and from the specification (%s)" % (why_model, why_spec)))


def build_lines(batches):
    """batches: list of (dataset, [case dict with text/optimize]) -> protocol lines with ids"""
    lines = []
    cases = {}
    n = 0
    for ds, qs in batches:
        n += 1
        dsh = common.case_hash(ds)
        lines.append({"op": "dataset", "id": n, "dataset": ds})
        for q in qs:
            n += 1
            q = dict(q)
            q["id"] = n
            q["dataset_hash"] = dsh
            q["dataset"] = ds
            lines.append({"op": "query", "id": n, "text": q["text"], "optimize": q.get("optimize", True)})
            cases[n] = q
    return lines, cases


def run_batches(ctx, v, batches, listed_quirks):
    lines, cases = build_lines(batches)
    scratch = os.path.join(common.BUILD, "scratch-%d" % os.getpid())
    impl = common.run_impl(ctx["binary"], lines, scratch)
    model = common.run_model(ctx["schema_path"], lines)
    for key, res in impl.items():
        if isinstance(key, tuple):
            v.violations.append(("dataset", {"text": "", "dataset": None}, "the importer rejected a generated dataset: " + str(res.get("error"))))
    for cid, case in cases.items():
        evaluate_case(v, case, impl.get(cid), model.get(cid), listed_quirks)


def has_header_row(text):
    """json output carries a column header row when ColumnHeaders is on or no Columns are given"""
    on = False
    has_cols = False
    wrapped = False
    stats = False
    for l in text.split("\n"):
        ll = l.lower()
        if ll.startswith("columnheaders:"):
            on = l.split(":", 1)[1].strip() == "on"
        if ll.startswith("columns:"):
            has_cols = True
        if ll.startswith("outputformat:") and "wrapped_json" in l:
            wrapped = True
        if ll.startswith("stats"):
            stats = True
    return (on or not has_cols) and not wrapped and not stats


# ---------------------------------------------------------------------------------------------
# shrinking

def classify_single(ctx, ds, text, optimize, listed_quirks):
    """run one case on both sides; returns the Verdicts object"""
    v = Verdicts(ctx["prop"])
    case = {"text": text, "optimize": optimize, "has_header_row": has_header_row(text)}
    run_batches(ctx, v, [(ds, [case])], listed_quirks)
    return v


def shrink_case(ctx, ds, text, optimize, listed_quirks, want, budget=250):
    """greedy minimisation of (dataset, request) keeping the verdict class `want` ('violation' | 'corr')"""
    def fails(d, t):
        nonlocal budget
        if budget <= 0:
            return False
        budget -= 1
        try:
            v = classify_single(ctx, d, t, optimize, listed_quirks)
        except Exception:
            return False
        if want == "violation":
            return any(k != "dataset" for k, _, _ in v.violations)
        return bool(v.corr_broken)

    if "backends" not in ds:
        return ds, text       # world histories are not shrunk here
    lines = text.rstrip("\n").split("\n")
    # 1. header lines
    changed = True
    while changed and budget > 0:
        changed = False
        i = len(lines) - 1
        while i >= 1:
            cand = lines[:i] + lines[i + 1:]
            t = "\n".join(cand) + "\n\n"
            if fails(ds, t):
                lines = cand
                changed = True
            i -= 1
    text = "\n".join(lines) + "\n\n"
    # 2. backends
    ds = json.loads(json.dumps(ds))
    i = len(ds["backends"]) - 1
    while i >= 0 and len(ds["backends"]) > 1 and budget > 0:
        cand = dict(ds, backends=ds["backends"][:i] + ds["backends"][i + 1:])
        if fails(cand, text):
            ds = cand
        i -= 1
    # 3. rows, leaf tables first
    for tname in ["comments", "downtimes", "servicegroups", "hostgroups", "services", "hosts", "contacts"]:
        for b in ds["backends"]:
            tab = b["tables"].get(tname)
            if not tab:
                continue
            j = len(tab["rows"]) - 1
            while j >= 0 and budget > 0:
                keep = tab["rows"]
                tab["rows"] = keep[:j] + keep[j + 1:]
                if not fails(ds, text):
                    tab["rows"] = keep
                j -= 1
    return ds, text


# ---------------------------------------------------------------------------------------------
# C17: parse -> Request.String() -> parse

def run_reprint_batches(ctx, v, batches, listed_quirks):
    """every request is parsed by the implementation, serialised with Request.String(), and the
    serialised text is evaluated again (same parse mode); its answer must satisfy the specification
    of the ORIGINAL request.  The model's own serialisation must equal the implementation's text."""
    lines, cases = build_lines(batches)
    scratch = os.path.join(common.BUILD, "scratch-%d" % os.getpid())
    impl1 = common.run_impl(ctx["binary"], lines, scratch)
    model = common.run_model(ctx["schema_path"], lines)
    # second pass: the reprinted text
    lines2 = []
    for l in lines:
        if l.get("op") == "dataset":
            lines2.append(l)
            continue
        r = impl1.get(l["id"]) or {}
        rp = r.get("reprint")
        if not rp or r.get("crash"):
            continue
        lines2.append({"op": "query", "id": l["id"], "text": rp, "optimize": l["optimize"]})
    impl2 = common.run_impl(ctx["binary"], lines2, scratch)
    if os.environ.get("VERIF_DUMP_REPRINT"):
        with open(os.environ["VERIF_DUMP_REPRINT"], "a") as fh:
            fh.write(json.dumps({"lines2": lines2}) + "\n")
    # third pass: what was parsed with the optimiser is printed for readers that do not have one (a monitoring core takes
    # `~` as a regular expression): the text must select the same rows when it is read without the optimiser
    lines3 = [l if l.get("op") == "dataset" else dict(l, optimize=False) for l in lines2 if l.get("op") == "dataset" or l.get("optimize")]
    impl3 = common.run_impl(ctx["binary"], lines3, scratch) if any(l.get("op") != "dataset" for l in lines3) else {}
    for cid, case in cases.items():
        m = model.get(cid)
        r1 = impl1.get(cid) or {}
        # the other serialisation: the request data a cluster node builds for its partners (buildDistributedRequestData) is read
        # back by the receiving parser; for a request that was accepted it must be accepted as well
        if r1.get("code") == 200 and r1.get("sub_err"):
            v.violations.append(("property", dict(case, extra=dict(case.get("extra") or {}, original=case["text"])),
                                 "the request data generated for cluster sub-requests from an accepted request is rejected by the parser: %s" % r1["sub_err"]))
            v.stats["evaluated"] += 1
            continue
        if r1.get("code") == 200:
            v.bump("subrequest_data_parsed")
        if m is None or m.get("parse") != "ok" or m.get("kind") not in ("data", "stats"):
            v.stats["evaluated"] += 1
            v.stats["unsupported"] += 1
            # the answer is not compared (wait headers, columns outside the model ...), the printed text is:
            # the model prints the same text, and printing what was printed changes nothing
            rp, mp = r1.get("reprint"), (m or {}).get("reprint")
            if r1.get("crash"):
                v.violations.append(("crash", case, "the implementation crashed: " + (r1.get("stderr") or "")[-400:]))
            elif rp and mp is not None:
                case2 = dict(case, extra=dict(case.get("extra") or {}, reprint=rp, original=case["text"]))
                v.bump("reprint_text_only")
                r2 = impl2.get(cid) or {}
                if r1.get("code") != 400 and r2.get("code") == 400:
                    v.violations.append(("property", case2, "the printed form of an accepted request is rejected by the parser (%s): %r" % (r2.get("err") or r2.get("body"), rp)))
                elif mp != rp:
                    v.corr_broken.append((case2, "Request.String differs: impl %r model %r" % (rp, mp)))
            continue
        rp = r1.get("reprint")
        if not rp:
            v.stats["evaluated"] += 1
            v.corr_broken.append((case, "no serialised request from the implementation: %s" % str(r1)[:200]))
            continue
        case2 = dict(case, extra=dict(case.get("extra") or {}, reprint=rp, original=case["text"]), has_header_row=has_header_row(rp))
        before = len(v.violations) + len(v.corr_broken)
        evaluate_case(v, case2, impl2.get(cid), m, listed_quirks)
        v.bump("reprint_checked")
        if case.get("optimize") and cid in impl3 and len(v.violations) + len(v.corr_broken) == before:
            case3 = dict(case2, optimize=False, text=rp, extra=dict(case2["extra"], reread="the printed text is read without the optimiser"))
            evaluate_case(v, case3, impl3.get(cid), m, listed_quirks)
            v.bump("reprint_read_plain")
        mp = m.get("reprint")
        if mp is not None and mp != rp and len(v.violations) + len(v.corr_broken) == before:
            v.corr_broken.append((case2, "Request.String differs: impl %r model %r" % (rp, mp)))
