"""C10: every response is well-framed, valid JSON of the documented shape.

Raw bytes of Response.send (single requests) and of real unix-socket sessions through
ClientConnection.Handle are checked with an independent strict JSON parser, against the model's
rows, against the model's fixed16 header and against the model's keep-alive plan."""

import json
import re
import os
import random

from . import common, gen, queryfam

NASTY = ['say "hi"', 'back\\slash', 'tab\there', 'line\nbreak', 'ctrl\x01\x02', 'quote\'s', 'uni sep', 'emoji \U0001F600', 'é ü ñ',
         '{"json":1}', '[1,2]', '</script>', 'null', 'x' * 3000, '\\u0041', 'a\x7fb', '\r\n', '%s %d', 'ÿ', '�']


def strict_loads(text):
    def bad_const(c):
        raise ValueError("non-standard JSON constant " + c)
    return json.loads(text, parse_constant=bad_const)


def nasty_dataset(rng, opts):
    ds = gen.gen_dataset(rng, opts)
    for b in ds["backends"]:
        for tname in ("hosts", "services"):
            t = b["tables"][tname]
            for row in t["rows"]:
                for cname in ("plugin_output", "long_plugin_output", "notes", "alias", "display_name"):
                    if cname in t["cols"] and rng.random() < 0.5:
                        row[t["cols"].index(cname)] = rng.choice(NASTY)
                if "custom_variable_values" in t["cols"] and rng.random() < 0.5:
                    i = t["cols"].index("custom_variable_values")
                    row[i] = [rng.choice(NASTY + ["v"]) for _ in row[i]]
                if "custom_variable_names" in t["cols"] and rng.random() < 0.15:
                    # more names than values / duplicate names
                    i = t["cols"].index("custom_variable_names")
                    row[i] = row[i] + [rng.choice(["EXTRA", "TEST", 'Q"N'])]
    return ds


def gen_request(rng, schema, ds, opts):
    r = rng.random()
    if r < 0.25:
        text = gen.gen_stats_query(rng, schema, ds, opts)
    else:
        text = gen.gen_data_query(rng, schema, ds, opts)
    lines = text.rstrip("\n").split("\n")
    # unknown / duplicate columns, no Columns header at all
    rr = rng.random()
    if rr < 0.12:
        lines = [l for l in lines if not l.startswith("Columns:")]
    elif rr < 0.3:
        for i, l in enumerate(lines):
            if l.startswith("Columns:"):
                extra = rng.choice([" nosuchcolumn", " name name", " host_nosuch", "", " na\x01me", " del\x7fx", " q\"uote", " back\\slash", " \U000e0001x", " b\x08s f\x0cf", " \x1b[0m"])
                lines[i] = l + extra
                if not extra.isascii() or any(ord(ch) < 32 or ord(ch) == 127 or ch in '"\\' for ch in extra):
                    # names that need escaping show in the column-name row
                    if rng.random() < 0.7:
                        lines.append("ColumnHeaders: on")
    if rng.random() < 0.6:
        lines.append("ResponseHeader: fixed16")
    if rng.random() < 0.3 and not any(l.startswith("ColumnHeaders:") for l in lines):
        lines.append("ColumnHeaders: " + rng.choice(["on", "off"]))
    return "\n".join(lines) + "\n\n"


def head_of(text):
    lines = []
    for l in text.split("\n"):
        if l.strip() == "" and lines:
            break
        lines.append(l)
    return "\n".join(lines) + "\n"


def canon_answer(chunk):
    """order-free form of one response: rows as a multiset, the failed map as a dictionary"""
    body = chunk
    if len(chunk) >= 16 and chunk[3:4] == " " and chunk[15:16] == "\n" and chunk[:3].isdigit():
        body = chunk[16:]
    try:
        data = json.loads(body)
    except ValueError:
        return None
    if isinstance(data, dict):
        return ("w", sorted(json.dumps(r, sort_keys=True) for r in data.get("data") or []), json.dumps(data.get("failed"), sort_keys=True), data.get("total_count"), len(chunk))
    if isinstance(data, list):
        return ("l", sorted(json.dumps(r, sort_keys=True) for r in data), len(chunk))
    return None


def check_raw(v, case, res, model, ctx):
    """framing + JSON validity + shape of one response (bytes of Response.send)"""
    text = case["text"]
    if res is None or res.get("crash"):
        v.violations.append(("crash", case, "no response / crash: " + str(res)[:300]))
        return None
    raw = res.get("raw", "")
    code = res.get("code")
    # a request ends at its first empty line (a generated value may contain one): only the headers before it count
    text = head_of(text)
    fixed16 = "responseheader: fixed16" in text.lower()
    if res.get("err") and not raw:
        # the request did not parse: plain error text (checked in sessions)
        return None
    body = raw
    rawb = raw.encode("utf-8", "surrogatepass")
    if fixed16:
        if len(rawb) < 16:
            v.violations.append(("property", case, "fixed16 requested but fewer than 16 bytes written"))
            return None
        hdr, rest = rawb[:16], rawb[16:]
        want = case["frames"].get((code, len(rest) - 1))
        try:
            h = hdr.decode("ascii")
            ok = h[3] == " " and h[15] == "\n" and int(h[:3]) == code and int(h[4:15]) == len(rest)
        except (ValueError, IndexError, UnicodeDecodeError):
            ok = False
        if not ok:
            v.violations.append(("property", case, "bad fixed16 header %r for %d following bytes (status %s)" % (hdr, len(rest), code)))
            return None
        if want is not None and want.encode() != hdr:
            v.corr_broken.append((case, "fixed16 header %r differs from the model's %r" % (hdr, want)))
        body = rest.decode("utf-8", "surrogatepass")
    if not body.endswith("\n"):
        v.violations.append(("property", case, "response does not end with a newline"))
        return None
    if code != 200:
        return None
    try:
        data = strict_loads(body)
    except ValueError as e:
        v.violations.append(("property", case, "body is not valid JSON: %s: %r" % (e, body[:300])))
        return None
    wrapped = "outputformat: wrapped_json" in text.lower()
    if wrapped:
        if not isinstance(data, dict) or not {"data", "failed", "total_count", "rows_scanned"} <= set(data):
            v.violations.append(("property", case, "wrapped_json object lacks a documented key: %s" % (sorted(data) if isinstance(data, dict) else type(data))))
            return None
        extra = set(data) - {"data", "failed", "total_count", "rows_scanned", "columns"}
        if extra or not isinstance(data["data"], list) or not isinstance(data["failed"], dict) or not isinstance(data["total_count"], int):
            v.violations.append(("property", case, "wrapped_json object has an undocumented shape: %s" % sorted(data)))
            return None
        rows = data["data"]
    else:
        if not isinstance(data, list):
            v.violations.append(("property", case, "json body is not a list"))
            return None
        rows = data
    if any(not isinstance(r, list) for r in rows):
        v.violations.append(("property", case, "a row is not a list"))
        return None
    if model is not None and model.get("parse") == "ok" and model.get("kind") in ("data", "stats"):
        ncols = model.get("ncols")
        if model.get("kind") == "stats":
            ncols = ncols + text.count("\nStats:") + text.count("\nStatsAnd:") * 0
            ncols = None   # width of stats rows is compared by the stats comparison
        hdr_row = case.get("has_header_row")
        body_rows = rows[1:] if (hdr_row and rows) else rows
        if ncols is not None and any(len(r) != ncols for r in body_rows):
            v.violations.append(("property", case, "a row does not have one value per requested column (%d expected): %s" % (ncols, [len(r) for r in body_rows][:8])))
            return None
        if hdr_row and not wrapped:
            if not rows or not all(isinstance(x, str) for x in rows[0]) or (ncols is not None and len(rows[0]) != ncols):
                v.violations.append(("property", case, "column header row missing or malformed: %s" % (rows[:1],)))
                return None
    # the body text itself, where the row order is determined and no value needs an escape or is a fraction: the model assembles
    # it with the definitions the C10Body theorems are about (`Lmd.Body.answerBody`); rows_scanned is not modelled
    if model is not None and isinstance(model.get("body"), str) and _tame(data):
        got = re.sub(r'"rows_scanned":\d+', '"rows_scanned":0', body[:-1])
        v.stats["bodies_compared_as_text"] = v.stats.get("bodies_compared_as_text", 0) + 1
        if got != model["body"]:
            v.corr_broken.append((case, "the body text differs from the one the model assembles: impl %r model %r" % (got[:400], model["body"][:400])))
    return data


_TAME = re.compile(r"[A-Za-z0-9 _.,:;/()\[\]{}=+*#@!?%$^|~`'-]*\Z")


def _tame(x):
    if isinstance(x, bool):
        return False
    if x is None or isinstance(x, int):
        return True
    if isinstance(x, str):
        return bool(_TAME.match(x))
    if isinstance(x, list):
        return all(_tame(e) for e in x)
    if isinstance(x, dict):
        # the answer object itself (its key order is fixed); custom variable objects are left out
        return set(x) <= {"data", "failed", "total_count", "rows_scanned", "columns"} and all(_tame(e) for k, e in x.items() if k != "failed") \
            and all(isinstance(e, str) and _TAME.match(e) for e in x.get("failed", {}).values()) and len(x.get("failed", {})) <= 1   # a Go map: no order
    return False


def run(ctx, spec, out):
    rng = random.Random("C10-%d" % ctx["seed"])
    v = out.v
    n = 400 if ctx["tier"] == "quick" else 6000
    nsess = 60 if ctx["tier"] == "quick" else 800
    lq = set()
    made = 0
    sessions_done = 0
    while made < n:
        batches = []
        for _ in range(20):
            ds = nasty_dataset(rng, {"nbackends": [1, 1, 2, 3], "states": rng.random() < 0.3})
            qs = []
            for _ in range(10):
                text = gen_request(rng, ctx["schema"], ds, {"depth": [0, 1], "nfilters": [0, 1], "sort": 0.3, "limit": 0.3, "offset": 0.2, "backends": 0.2, "colheaders": 0.0})
                for _ in range(20):
                    # a value taken from the data may contain an empty line ("\r\n"): that would be two requests, not one
                    if head_of(text).rstrip("\n") == text.rstrip("\n"):
                        break
                    text = gen_request(rng, ctx["schema"], ds, {"depth": [0, 1], "nfilters": [0, 1], "sort": 0.3, "limit": 0.3, "offset": 0.2, "backends": 0.2, "colheaders": 0.0})
                qs.append({"text": text, "optimize": True, "has_header_row": queryfam.has_header_row(text)})
                made += 1
            batches.append((ds, qs))
        lines, cases = queryfam.build_lines(batches)
        scratch = os.path.join(common.BUILD, "scratch-%d" % os.getpid())
        impl = common.run_impl(ctx["binary"], lines, scratch)
        model = common.run_model(ctx["schema_path"], lines)
        # model's header for every (code, size) seen
        frame_lines, keys = [], {}
        for cid, case in cases.items():
            res = impl.get(cid) or {}
            raw = (res.get("raw") or "").encode("utf-8", "surrogatepass")
            if "responseheader: fixed16" in case["text"].lower() and len(raw) >= 16:
                k = (res.get("code"), len(raw) - 17)
                if k not in keys and k[0] and k[1] >= 0:
                    keys[k] = len(keys) + 1
                    frame_lines.append({"op": "frame", "id": keys[k], "code": k[0], "size": k[1]})
        frames = {}
        if frame_lines:
            fr = common.run_model(ctx["schema_path"], frame_lines)
            for k, i in keys.items():
                frames[k] = fr[i]["header"]
        for cid, case in cases.items():
            case["frames"] = frames
            m = model.get(cid)
            data = check_raw(v, case, impl.get(cid), m, ctx)
            # contents against model / spec
            queryfam.evaluate_case(v, case, impl.get(cid), m, lq)
        # sessions on some of the datasets
        for ds, qs in batches:
            if sessions_done >= nsess:
                break
            if len(ds["backends"]) != 1:
                continue      # the order of rows of several backends is schedule dependent; sessions compare bytes
            sessions_done += run_sessions(ctx, v, rng, ds, qs, impl, cases)
    out.extra_cov["sessions"] = sessions_done


def run_sessions(ctx, v, rng, ds, qs, impl_single, cases):
    """keep-alive sequences over a unix socket; expected bytes = the single-request bytes composed by the model's plan"""
    by_text = {}
    for cid, c in cases.items():
        if c["dataset"] is ds:
            by_text[c["text"]] = impl_single.get(cid)
    sess = []
    for _ in range(3):
        k = rng.choice([1, 2, 3, 4, 6])
        picks = [rng.choice(qs) for _ in range(k)]
        reqs = []
        for p in picks:
            text = p["text"]
            ka = rng.random() < 0.75
            lines = text.rstrip("\n").split("\n")
            if ka:
                lines.append("KeepAlive: on")
            reqs.append({"text": "\n".join(lines) + "\n\n", "base": text, "keepalive": ka, "bad": False})
        if rng.random() < 0.5:
            pos = rng.randrange(len(reqs) + 1)
            bad = rng.choice(["GET hosts\nFilter: name\n\n", "GET nosuchtable\n\n", "FOO bar\n\n", "GET hosts\nLimit: x\n\n", "GET hosts\nFilter: state ~~ *\n\n", "GET hosts\nColumns: name\nSort: nosuch asc\n\n"])
            reqs.insert(pos, {"text": bad, "base": bad, "keepalive": False, "bad": True})
        # a spare empty line behind a keep-alive request is tolerated (lmd reads it as "nothing yet"): the requests
        # that follow in the same write still have to be answered
        for r in reqs:
            r["wire"] = r["text"] + ("\n" * rng.choice([1, 1, 2]) if r["keepalive"] and not r["bad"] and rng.random() < 0.35 else "")
        sess.append(reqs)
    # single-request answers for the keep-alive variants (the KeepAlive header does not change the bytes)
    lines = [{"op": "dataset", "id": 1, "dataset": ds}]
    idx = 1
    meta = []
    for si, reqs in enumerate(sess):
        for ri, r in enumerate(reqs):
            idx += 1
            lines.append({"op": "query", "id": idx, "text": r["text"], "optimize": True})
            meta.append((idx, si, ri))
        idx += 1
        lines.append({"op": "session", "id": idx, "text": "".join(r["wire"] for r in reqs), "optimize": True})
        meta.append((idx, si, None))
    scratch = os.path.join(common.BUILD, "scratch-%d" % os.getpid())
    res = common.run_impl(ctx["binary"], lines, scratch)
    single = {(si, ri): res.get(i) for i, si, ri in meta if ri is not None}
    plans = common.run_model(ctx["schema_path"], [
        {"op": "plan", "id": si + 1, "reqs": [{"parses": bool((single.get((si, ri)) or {}).get("raw")), "keepalive": r["keepalive"]} for ri, r in enumerate(reqs)]}
        for si, reqs in enumerate(sess)])
    done = 0
    for i, si, ri in meta:
        if ri is not None:
            continue
        reqs = sess[si]
        got = (res.get(i) or {})
        case = {"text": "".join(r["wire"] for r in reqs), "optimize": True, "dataset": ds, "extra": {"session": [r["wire"] for r in reqs]}}
        v.stats["evaluated"] += 1
        if got.get("crash") or got.get("timeout"):
            v.violations.append(("crash" if got.get("crash") else "property", case, "session crashed or did not end: " + str(got)[:300]))
            continue
        expected, chunks = "", []
        for act in plans[si + 1]["actions"]:
            if "answer" in act:
                s = single.get((si, act["answer"])) or {}
                chunks.append(s.get("raw", ""))
            else:
                s = single.get((si, act["parse_error"])) or {}
                chunks.append((s.get("err") or "") + "\n")
            expected += chunks[-1]
        out_text = got.get("out", "")
        if out_text != expected and len(out_text) == len(expected):
            # where lmd's own order is not determined (Stats groups and the failed map come out of Go maps) two runs of the
            # same request may differ in order only: compare response by response, order-free
            pos, same = 0, True
            for c in chunks:
                g = out_text[pos:pos + len(c)]
                pos += len(c)
                if g != c and (canon_answer(g) is None or canon_answer(g) != canon_answer(c)):
                    same = False
                    break
            if same:
                out_text = expected
        done += 1
        nreq = len(reqs)
        if nreq >= 2:
            h = common.case_hash(case["text"])
            if h not in v.distinct:
                v.distinct.add(h)
                v.stats["nontrivial"] += 1
        if out_text != expected:
            # request ids / timings do not appear in responses, so the bytes must be identical
            v.violations.append(("property", case, "session output differs from the composition of the single responses: got %r expected %r" % (out_text[:400], expected[:400])))
    return done
