//go:build verif

// Verification hooks for package lmd.
//
// This file is NOT part of /repo.  It lives in /verif/harness/inpkg and is injected into the
// package at build time with `go build -tags verif -overlay overlay.json`, so that the harness can
// reach unexported identifiers while /repo itself stays free of hook code.
package lmd

import (
	"bufio"
	"bytes"
	"context"
	"encoding/json"
	"errors"
	"fmt"
	"os"
	"path/filepath"
	"sort"
	"strings"
	"sync/atomic"
	"time"

	"github.com/sasha-s/go-deadlock"
)

// VerifSchemaColumn describes one column of the real schema.
type VerifSchemaColumn struct {
	Name     string   `json:"name"`
	DataType string   `json:"dtype"`
	Storage  string   `json:"storage"`
	Fetch    string   `json:"fetch"`
	Optional []string `json:"optional"`
	OptBits  uint32   `json:"optbits"`
	RefTable string   `json:"reftable"`
	RefCol   string   `json:"refcol"`
	Index    int      `json:"index"`
}

// VerifSchemaTable describes one table of the real schema.
type VerifSchemaTable struct {
	Name        string              `json:"name"`
	ID          int                 `json:"id"`
	Columns     []VerifSchemaColumn `json:"columns"`
	PrimaryKey  []string            `json:"primary_key"`
	DefaultSort []string            `json:"default_sort"`
	Refs        []VerifSchemaRef    `json:"refs"`
	Virtual     string              `json:"virtual"`
	PassThrough bool                `json:"passthrough"`
	Unlocked    bool                `json:"works_unlocked"`
}

// VerifSchemaRef is one referenced table.
type VerifSchemaRef struct {
	Table   string   `json:"table"`
	Columns []string `json:"columns"`
}

// VerifSchema is the dump of everything table-like the model needs.
type VerifSchema struct {
	Tables      []VerifSchemaTable `json:"tables"`
	Operators   map[string]string  `json:"operators"`    // operator name -> Operator.String()
	OperatorsIn map[string]string  `json:"operators_in"` // request text -> operator name (parseFilterOp)
	StatsTypes  map[string]string  `json:"stats_types"`
	Flags       map[string]uint32  `json:"flags"`
	UpdateTabs  []string           `json:"update_tables"`
}

var verifOpNames = map[Operator]string{
	Equal: "Equal", Unequal: "Unequal", EqualNocase: "EqualNocase", UnequalNocase: "UnequalNocase",
	RegexMatch: "RegexMatch", RegexMatchNot: "RegexMatchNot", RegexNoCaseMatch: "RegexNoCaseMatch", RegexNoCaseMatchNot: "RegexNoCaseMatchNot",
	Contains: "Contains", ContainsNot: "ContainsNot", ContainsNoCase: "ContainsNoCase", ContainsNoCaseNot: "ContainsNoCaseNot",
	Less: "Less", LessThan: "LessThan", Greater: "Greater", GreaterThan: "GreaterThan", GroupContainsNot: "GroupContainsNot",
}

// VerifInit initialises logging and the object tables.
func VerifInit(logLevel string) {
	InitLogging(&Config{LogLevel: logLevel, LogFile: "stderr"})
	InitObjects()
	// like the daemon without -debug-deadlock (main.go): lock order checking is off unless asked for
	if secs := os.Getenv("VERIF_DEADLOCK"); secs != "" {
		deadlock.Opts.Disable = false
		if dur, err := time.ParseDuration(secs + "s"); err == nil {
			deadlock.Opts.DeadlockTimeout = dur
		}
	} else {
		deadlock.Opts.Disable = true
	}
}

// VerifDumpSchema executes the real InitObjects and returns the schema.
func VerifDumpSchema() *VerifSchema {
	InitObjects()
	schema := &VerifSchema{
		Operators:   map[string]string{},
		OperatorsIn: map[string]string{},
		StatsTypes:  map[string]string{},
		Flags:       map[string]uint32{},
	}
	names := []TableName{}
	for name := range Objects.Tables {
		names = append(names, name)
	}
	sort.Slice(names, func(i, j int) bool { return names[i] < names[j] })
	for _, name := range names {
		table := Objects.Tables[name]
		tab := VerifSchemaTable{
			Name:        name.String(),
			ID:          int(name),
			PrimaryKey:  append([]string{}, table.primaryKey...),
			DefaultSort: append([]string{}, table.defaultSort...),
			PassThrough: table.passthroughOnly,
			Unlocked:    table.worksUnlocked,
			Refs:        []VerifSchemaRef{},
		}
		if table.virtual != nil {
			switch table.name {
			case TableBackends, TableSites:
				tab.Virtual = "backends"
			case TableColumns, TableTables:
				tab.Virtual = "columns"
			default:
				tab.Virtual = "groupby"
			}
		}
		// sites/tables alias: real table name is the aliased one
		if table.name != name {
			tab.Virtual += ":" + table.name.String()
		}
		for i := range table.refTables {
			ref := &table.refTables[i]
			cols := []string{}
			for _, c := range ref.Columns {
				cols = append(cols, c.Name)
			}
			tab.Refs = append(tab.Refs, VerifSchemaRef{Table: ref.Table.name.String(), Columns: cols})
		}
		for _, col := range table.columns {
			sc := VerifSchemaColumn{
				Name:     col.Name,
				DataType: col.DataType.String(),
				Storage:  col.StorageType.String(),
				Fetch:    col.FetchType.String(),
				Optional: col.Optional.List(),
				OptBits:  uint32(col.Optional),
				Index:    col.Index,
			}
			if col.RefCol != nil {
				sc.RefTable = col.RefColTableName.String()
				sc.RefCol = col.RefCol.Name
			}
			tab.Columns = append(tab.Columns, sc)
		}
		schema.Tables = append(schema.Tables, tab)
	}
	for op, name := range verifOpNames {
		o := op
		schema.Operators[name] = o.String()
	}
	for _, txt := range []string{"=", "=~", "~", "!~", "~~", "!~~", "!=", "!=~", "<", "<=", ">", ">=", "!>=", "like", "unlike", "ilike", "iunlike"} {
		op, isRegex, err := parseFilterOp([]byte(txt))
		if err == nil {
			val := verifOpNames[op]
			if isRegex {
				val += ":regex"
			}
			schema.OperatorsIn[txt] = val
		}
	}
	for _, st := range []StatsType{Average, Sum, Min, Max} {
		s := st
		schema.StatsTypes[fmt.Sprintf("%d", st)] = s.String()
	}
	for _, fl := range OptionalFlagsStrings {
		schema.Flags[fl.name] = uint32(fl.flag)
	}
	for _, t := range Objects.UpdateTables {
		schema.UpdateTabs = append(schema.UpdateTabs, t.String())
	}

	return schema
}

// VerifBackend is one generated backend of a dataset.
type VerifBackend struct {
	ID     string                       `json:"id"`
	Name   string                       `json:"name"`
	Flags  []string                     `json:"flags"`
	State  string                       `json:"state"` // up | down | pending | broken | warning
	Error  string                       `json:"error"`
	Tables map[string]*VerifBackendData `json:"tables"`
}

// VerifBackendData is one table of a generated backend.
type VerifBackendData struct {
	Cols []string        `json:"cols"`
	Rows [][]interface{} `json:"rows"`
}

// VerifDataset is a generated multi-backend dataset.
type VerifDataset struct {
	Backends    []VerifBackend `json:"backends"`
	ServiceAuth string         `json:"service_auth"`
	GroupAuth   string         `json:"group_auth"`
}

// VerifInstance wraps a daemon loaded from a dataset.
type VerifInstance struct {
	Lmd *Daemon
}

// VerifLoadDataset writes the dataset as an importer directory and loads it with the real importer.
func VerifLoadDataset(dataset *VerifDataset, scratch string) (*VerifInstance, error) {
	InitObjects()
	_ = os.RemoveAll(scratch)
	for num := range dataset.Backends {
		backend := &dataset.Backends[num]
		dir := filepath.Join(scratch, "sites", fmt.Sprintf("%03d_%s", num, backend.ID))
		if err := os.MkdirAll(dir, 0o755); err != nil {
			return nil, err
		}
		status := 0
		if backend.State == "warning" {
			status = 1
		}
		lastErr := backend.Error
		backendsRows := [][]interface{}{
			{"peer_key", "peer_name", "key", "name", "addr", "status", "bytes_send", "bytes_received", "queries", "last_error", "last_update", "last_online", "response_time", "idling", "last_query", "section", "parent", "configtool", "thruk", "federation_key", "federation_name", "federation_addr", "federation_type", "federation_version", "flags"},
			{backend.ID, backend.Name, backend.ID, backend.Name, "verif.sock", status, 0, 0, 0, lastErr, 1700000000, 1700000000, 0.01, 0, 0, "", "", "{}", "{}", []string{}, []string{}, []string{}, []string{}, []string{}, backend.Flags},
		}
		if err := verifWriteJSONRows(filepath.Join(dir, "backends.json"), backendsRows); err != nil {
			return nil, err
		}
		for _, tableName := range Objects.UpdateTables {
			name := tableName.String()
			tab, ok := backend.Tables[name]
			rows := [][]interface{}{}
			if ok {
				hdr := make([]interface{}, len(tab.Cols))
				for i := range tab.Cols {
					hdr[i] = tab.Cols[i]
				}
				rows = append(rows, hdr)
				rows = append(rows, tab.Rows...)
			} else {
				// minimal header: primary key columns (or one column for the status table)
				hdr := []interface{}{}
				for _, k := range Objects.Tables[tableName].primaryKey {
					hdr = append(hdr, k)
				}
				if len(hdr) == 0 {
					hdr = append(hdr, "program_start")
				}
				rows = append(rows, hdr)
				if tableName == TableStatus {
					rows = append(rows, []interface{}{1700000000})
				}
			}
			if err := verifWriteJSONRows(filepath.Join(dir, name+".json"), rows); err != nil {
				return nil, err
			}
		}
	}

	lmd := NewLMDInstance()
	lmd.Config = NewConfig([]string{})
	lmd.Config.ValidateConfig()
	if dataset.ServiceAuth != "" {
		lmd.Config.ServiceAuthorization = dataset.ServiceAuth
		lmd.Config.SetServiceAuthorization()
	}
	if dataset.GroupAuth != "" {
		lmd.Config.GroupAuthorization = dataset.GroupAuth
		lmd.Config.SetGroupAuthorization()
	}
	lmd.Config.StaleBackendTimeout = 1000000000
	lmd.flags.flagImport = filepath.Join(scratch, "sites")
	lmd.nodeAccessor = NewNodes(lmd, []string{}, "")
	if err := initializePeersWithImport(lmd, filepath.Join(scratch, "sites")); err != nil {
		return nil, err
	}
	// apply non-up states after import
	for num := range dataset.Backends {
		backend := &dataset.Backends[num]
		peer := lmd.PeerMap[backend.ID]
		if peer == nil {
			return nil, fmt.Errorf("backend %s missing after import", backend.ID)
		}
		// the imported peers have no backend behind them.  A request with Wait headers makes lmd refresh the peer first,
		// which fails here: the data must survive that (a peer that was never online, or long ago, is dropped at the first
		// error), so the peers count as just synchronised and the stale timeout is out of reach
		peer.lastOnline.Set(currentUnixTime())
		switch backend.State {
		case "", "up":
		case "warning":
			peer.peerState.Set(PeerStatusWarning)
			peer.lastError.Set(backend.Error)
		case "down":
			peer.peerState.Set(PeerStatusDown)
			peer.lastError.Set(backend.Error)
			peer.data.Store(nil)
		case "pending":
			peer.peerState.Set(PeerStatusPending)
			peer.lastError.Set(backend.Error)
			peer.data.Store(nil)
		case "broken":
			// through lmd's own transition: the data set of a synchronised backend has to go with it
			peer.setBroken(strings.TrimPrefix(backend.Error, "broken: "))
		default:
			return nil, fmt.Errorf("unknown backend state %s", backend.State)
		}
	}
	_ = os.RemoveAll(scratch)

	return &VerifInstance{Lmd: lmd}, nil
}

func verifWriteJSONRows(file string, rows [][]interface{}) error {
	var buf bytes.Buffer
	buf.WriteString("[")
	for i, row := range rows {
		if i > 0 {
			buf.WriteString(",\n")
		}
		enc, err := json.Marshal(row)
		if err != nil {
			return err
		}
		buf.Write(enc)
	}
	buf.WriteString("]\n")

	return os.WriteFile(file, buf.Bytes(), 0o644)
}

// VerifQueryResult is the outcome of one request.
type VerifQueryResult struct {
	Code    int    `json:"code"`
	Body    string `json:"body"`
	Raw     string `json:"raw"` // full bytes as written by Response.send (header + body + newline)
	Err     string `json:"err"`
	Reprint string `json:"reprint"` // Request.String() of the parsed request
	SubErr  string `json:"sub_err"` // what the parser says to the request data a cluster node generates from this request
}

// VerifQuery parses and answers one request text through NewRequest / ExpandRequestedBackends / BuildResponse / send.
func (inst *VerifInstance) VerifQuery(text string, optimize bool) (result *VerifQueryResult) {
	result = &VerifQueryResult{}
	ctx := context.Background()
	opts := ParseDefault
	if optimize {
		opts = ParseOptimize
	}
	req, _, err := NewRequest(ctx, inst.Lmd, bufio.NewReader(strings.NewReader(text)), opts)
	if err != nil {
		result.Code = 400
		result.Err = err.Error()

		return result
	}
	if req == nil {
		result.Code = 0
		result.Err = "empty request"

		return result
	}
	err = req.ExpandRequestedBackends()
	if err != nil {
		result.Code = 400
		result.Err = err.Error()

		return result
	}
	if req.Command != "" {
		// commands are not answered by BuildResponse (ClientConnection.processRequests queues them); see VerifSession
		result.Code = 202
		result.Reprint = req.String()

		return result
	}
	result.Reprint = req.String()
	// (asked last: building the request data must not get a chance to touch the request before it is answered)
	defer func() { result.SubErr = verifSubRequestError(req) }()
	res, err := req.BuildResponse(ctx)
	if err != nil {
		// mirrors ClientConnection.processRequest
		code := ReturnCodeBadRequest
		var peerErr *PeerError
		if errors.As(err, &peerErr) && peerErr.kind == ConnectionError {
			code = ReturnCodeConnectionError
		}
		res = &Response{code: code, request: req, err: err}
		result.Err = err.Error()
	}
	var buf bytes.Buffer
	_, err = res.send(&buf)
	if err != nil {
		result.Code = 500
		result.Err = err.Error()

		return result
	}
	result.Code = res.code
	result.Raw = buf.String()
	body := buf.String()
	if req.ResponseFixed16 && len(body) >= 16 {
		body = body[16:]
	}
	result.Body = body

	return result
}

// verifSubRequestError builds the request data a cluster node sends to its partners for this request
// (buildDistributedRequestData), reads it back like the receiving node does and returns the parser's verdict.
func verifSubRequestError(req *Request) (msg string) {
	defer func() {
		if r := recover(); r != nil {
			msg = fmt.Sprintf("panic: %v", r)
		}
	}()
	backends := make([]string, 0, len(req.BackendsMap))
	for id := range req.BackendsMap {
		backends = append(backends, id)
	}
	sort.Strings(backends)
	if _, err := req.localSubRequest(backends); err != nil {
		return err.Error()
	}

	return ""
}

// VerifSetPeerFlags overrides the flags of a peer.
func (inst *VerifInstance) VerifSetPeerFlags(id string, flags []string) {
	peer := inst.Lmd.PeerMap[id]
	fl := NoFlags
	fl.Load(flags)
	atomic.StoreUint32(&peer.flags, uint32(fl))
}
