//go:build verif

package lmd

import (
	"context"
	"fmt"
	"net"
	"os"
	"sort"
	"sync/atomic"
	"time"
)

// verifClockOffset shifts lmd's notion of "now" (nanoseconds); see VerifClockAdvance.
var verifClockOffset atomic.Int64

// verifNow replaces time.Now() in the few places lmd reads the wall clock for its bookkeeping
// (currentUnixTime, the full scan guard, the timeperiod minute).  The replacement is done on copies of
// the working tree's files at build time (see bin/vlib/common.py build_harness), /repo is not changed.
func verifNow() time.Time {
	if frozen := verifClockFrozen.Load(); frozen != 0 {
		return time.Unix(0, frozen)
	}

	return time.Now().Add(time.Duration(verifClockOffset.Load()))
}

// verifClockFrozen, when non-zero, is the virtual time in nanoseconds: time only passes when the harness says so.
var verifClockFrozen atomic.Int64

// VerifClockSet freezes the virtual clock at the given unix time (seconds).
func VerifClockSet(unix float64) {
	verifClockFrozen.Store(int64(unix * float64(time.Second)))
}

// VerifNow exposes the virtual clock to the scripted backends.
func VerifNow() time.Time { return verifNow() }

// VerifClockAdvance lets d seconds pass.
func VerifClockAdvance(d float64) {
	if verifClockFrozen.Load() != 0 {
		verifClockFrozen.Add(int64(d * float64(time.Second)))

		return
	}
	verifClockOffset.Add(int64(d * float64(time.Second)))
}

var verifTicker atomic.Int64

// verifTickerInterval is how often an update loop looks at the (virtual) clock: UpdateLoopTickerInterval unless the
// harness shortened it together with letting virtual time run faster.
func verifTickerInterval() time.Duration {
	if v := verifTicker.Load(); v > 0 {
		return time.Duration(v)
	}

	return UpdateLoopTickerInterval
}

// VerifSetTicker sets the interval for update loops started afterwards (0 = default).
func VerifSetTicker(d time.Duration) { verifTicker.Store(int64(d)) }

// VerifConn is one configured backend connection.
type VerifConn struct {
	ID       string   `json:"id"`
	Name     string   `json:"name"`
	Source   []string `json:"source"`
	Fallback []string `json:"fallback"`
	Flags    []string `json:"flags"`
	Section  string   `json:"section"`
}

// VerifConfig carries the settings the harness varies.
type VerifConfig struct {
	UpdateInterval             int64  `json:"update_interval"`
	FullUpdateInterval         int64  `json:"full_update_interval"`
	StaleBackendTimeout        int    `json:"stale_backend_timeout"`
	IdleTimeout                int64  `json:"idle_timeout"`
	IdleInterval               int64  `json:"idle_interval"`
	UpdateOffset               int64  `json:"update_offset"`
	MaxParallelPeerConnections int    `json:"max_parallel_peer_connections"`
	SyncIsExecuting            *bool  `json:"sync_is_executing"`
	NetTimeout                 int    `json:"net_timeout"`
	ConnectTimeout             int    `json:"connect_timeout"`
	BackendKeepAlive           *bool  `json:"backend_keepalive"`
	ServiceAuth                string `json:"service_auth"`
	GroupAuth                  string `json:"group_auth"`
}

// VerifNewWorld creates a daemon with the given peers; nothing is started, the harness drives every step.
func VerifNewWorld(cfg *VerifConfig, conns []VerifConn) *VerifInstance {
	return verifNewDaemon(cfg, conns, true)
}

func verifNewDaemon(cfg *VerifConfig, conns []VerifConn, withPeers bool) *VerifInstance {
	InitObjects()
	lmd := NewLMDInstance()
	lmd.Config = NewConfig([]string{})
	lmd.Config.ValidateConfig()
	if cfg.UpdateInterval > 0 {
		lmd.Config.UpdateInterval = cfg.UpdateInterval
	}
	if cfg.FullUpdateInterval > 0 {
		lmd.Config.FullUpdateInterval = cfg.FullUpdateInterval
	}
	if cfg.StaleBackendTimeout > 0 {
		lmd.Config.StaleBackendTimeout = cfg.StaleBackendTimeout
	}
	if cfg.IdleTimeout > 0 {
		lmd.Config.IdleTimeout = cfg.IdleTimeout
	}
	if cfg.IdleInterval > 0 {
		lmd.Config.IdleInterval = cfg.IdleInterval
	}
	if cfg.UpdateOffset > 0 {
		lmd.Config.UpdateOffset = cfg.UpdateOffset
	}
	if cfg.MaxParallelPeerConnections > 0 {
		lmd.Config.MaxParallelPeerConnections = cfg.MaxParallelPeerConnections
	}
	if cfg.SyncIsExecuting != nil {
		lmd.Config.SyncIsExecuting = *cfg.SyncIsExecuting
	}
	if cfg.NetTimeout > 0 {
		lmd.Config.NetTimeout = cfg.NetTimeout
	}
	if cfg.ConnectTimeout > 0 {
		lmd.Config.ConnectTimeout = cfg.ConnectTimeout
	}
	if cfg.BackendKeepAlive != nil {
		lmd.Config.BackendKeepAlive = *cfg.BackendKeepAlive
	}
	if cfg.ServiceAuth != "" {
		lmd.Config.ServiceAuthorization = cfg.ServiceAuth
		lmd.Config.SetServiceAuthorization()
	}
	if cfg.GroupAuth != "" {
		lmd.Config.GroupAuthorization = cfg.GroupAuth
		lmd.Config.SetGroupAuthorization()
	}
	lmd.lastMainRestart = currentUnixTime()
	for i := range conns {
		con := &Connection{Name: conns[i].Name, ID: conns[i].ID, Source: conns[i].Source, Fallback: conns[i].Fallback, Flags: conns[i].Flags, Section: conns[i].Section}
		lmd.Config.Connections = append(lmd.Config.Connections, *con)
		if !withPeers {
			continue
		}
		peer := NewPeer(lmd, con)
		lmd.PeerMap[con.ID] = peer
		lmd.PeerMapOrder = append(lmd.PeerMapOrder, con.ID)
	}
	lmd.nodeAccessor = NewNodes(lmd, []string{}, "")

	return &VerifInstance{Lmd: lmd}
}

// VerifExportImport runs the real Exporter (-export) against the configured connections and loads the
// snapshot with the real importer (-import) into a fresh daemon, which is returned.
func VerifExportImport(cfg *VerifConfig, conns []VerifConn, file string) (*VerifInstance, error) {
	src := verifNewDaemon(cfg, conns, false)
	src.Lmd.flags.flagExport = file
	ex := &Exporter{lmd: src.Lmd}
	if err := ex.Export(file); err != nil {
		return nil, fmt.Errorf("export: %w", err)
	}
	dst := verifNewDaemon(cfg, nil, false)
	dst.Lmd.flags.flagImport = file
	if err := initializePeersWithImport(dst.Lmd, file); err != nil {
		return nil, fmt.Errorf("import: %w", err)
	}

	return dst, nil
}

// VerifServeUnix answers client connections on a unix socket with the real ClientConnection.Handle until the
// returned function is called.
func (inst *VerifInstance) VerifServeUnix(path string) (stop func(), err error) {
	listener, err := net.Listen("unix", path)
	if err != nil {
		return nil, err
	}
	go func() {
		for {
			conn, aErr := listener.Accept()
			if aErr != nil {
				return
			}
			go func() {
				defer func() { _ = recover() }()
				cl := NewClientConnection(inst.Lmd, conn, inst.Lmd.Config.ListenTimeout, inst.Lmd.Config.LogSlowQueryThreshold, inst.Lmd.Config.LogHugeQueryThreshold)
				cl.Handle()
			}()
		}
	}()

	return func() { _ = listener.Close(); _ = os.Remove(path) }, nil
}

// VerifExportImportFederated points the real Exporter at another lmd (inner, served on a unix socket) instead of
// at the cores: the exporter finds the inner daemon's backends as federated sub peers, with the state the inner
// daemon reports for them. Both the exporting and the importing daemon are returned.
func VerifExportImportFederated(inner *VerifInstance, cfg *VerifConfig, file, sock string) (src, dst *VerifInstance, stop func(), err error) {
	stop, err = inner.VerifServeUnix(sock)
	if err != nil {
		return nil, nil, nil, err
	}
	src = verifNewDaemon(cfg, []VerifConn{{ID: "fed", Name: "fed", Source: []string{sock}}}, false)
	src.Lmd.flags.flagExport = file
	ex := &Exporter{lmd: src.Lmd}
	if err = ex.Export(file); err != nil {
		stop()

		return nil, nil, nil, fmt.Errorf("export: %w", err)
	}
	dst = verifNewDaemon(cfg, nil, false)
	dst.Lmd.flags.flagImport = file
	if err = initializePeersWithImport(dst.Lmd, file); err != nil {
		stop()

		return nil, nil, nil, fmt.Errorf("import: %w", err)
	}

	return src, dst, stop, nil
}

func errString(err error) string {
	if err == nil {
		return ""
	}

	return err.Error()
}

// VerifPeerInit runs what the update loop does first: InitAllTables.
func (inst *VerifInstance) VerifPeerInit(id string) string {
	peer := inst.Lmd.PeerMap[id]
	if peer == nil {
		return "no such peer"
	}

	return errString(peer.InitAllTables(context.Background()))
}

// VerifPeerTick runs one iteration of the update loop body: periodicUpdate + initTablesIfRestartRequiredError.
func (inst *VerifInstance) VerifPeerTick(id string) (ran bool, errStr string) {
	peer := inst.Lmd.PeerMap[id]
	if peer == nil {
		return false, "no such peer"
	}
	ctx := context.Background()
	ok, loopErr := peer.periodicUpdate(ctx)
	lastErr := peer.initTablesIfRestartRequiredError(ctx, loopErr)
	if ok {
		peer.clearLastRequest()
	}

	return ok, errString(lastErr)
}

// VerifPeerInfo is the externally visible and the bookkeeping state of a peer; timestamps are relative to the virtual now.
type VerifPeerInfo struct {
	Status         int      `json:"status"`
	LastError      string   `json:"last_error"`
	HasData        bool     `json:"has_data"`
	Idling         bool     `json:"idling"`
	ErrorCount     int64    `json:"error_count"`
	PeerAddr       string   `json:"peer_addr"`
	LastOnlineAgo  float64  `json:"last_online_ago"`
	LastUpdateAgo  float64  `json:"last_update_ago"`
	LastQueryAgo   float64  `json:"last_query_ago"`
	LastFullAgo    float64  `json:"last_full_ago"`
	LastOnlineZero bool     `json:"last_online_zero"`
	LastQueryZero  bool     `json:"last_query_zero"`
	Flags          []string `json:"flags"`
	ForceFull      bool     `json:"force_full"`
	ProgramStart   int64    `json:"program_start"`
}

// VerifPeerState reports the state of a peer.
func (inst *VerifInstance) VerifPeerState(id string) *VerifPeerInfo {
	peer := inst.Lmd.PeerMap[id]
	if peer == nil {
		return nil
	}
	now := currentUnixTime()
	flags := OptionalFlags(atomic.LoadUint32(&peer.flags))

	return &VerifPeerInfo{
		Status:         int(peer.peerState.Get()),
		LastError:      peer.lastError.Get(),
		HasData:        peer.data.Load() != nil,
		Idling:         peer.idling.Load(),
		ErrorCount:     peer.errorCount.Load(),
		PeerAddr:       peer.peerAddr.Get(),
		LastOnlineAgo:  now - peer.lastOnline.Get(),
		LastUpdateAgo:  now - peer.lastUpdate.Get(),
		LastQueryAgo:   now - peer.lastQuery.Get(),
		LastFullAgo:    now - peer.lastFullUpdate.Get(),
		LastOnlineZero: peer.lastOnline.Get() == 0,
		LastQueryZero:  peer.lastQuery.Get() == 0,
		Flags:          flags.List(),
		ForceFull:      peer.forceFull.Load(),
		ProgramStart:   peer.programStart.Load(),
	}
}

// VerifSendCommands sends commands through the client path of SendCommands (per peer, with retry).
func (inst *VerifInstance) VerifSendCommands(id string, commands []string) string {
	peer := inst.Lmd.PeerMap[id]
	if peer == nil {
		return "no such peer"
	}

	return errString(peer.SendCommandsWithRetry(context.Background(), commands))
}

// VerifSetMaxParallel is a no-op placeholder to keep the API stable.
func (inst *VerifInstance) VerifDescribe() string {
	return fmt.Sprintf("%d peers", len(inst.Lmd.PeerMapOrder))
}

// verifSortedKeys: the harness build walks the map of changed timeperiods by name (see CLOCK_PATCHES)
func verifSortedKeys(m map[string]bool) []string {
	keys := make([]string, 0, len(m))
	for k := range m {
		keys = append(keys, k)
	}
	sort.Strings(keys)

	return keys
}
