//go:build verif

package lmd

import (
	"fmt"
	"io"
	"net"
	"os"
	"time"
)

// VerifSession sends raw bytes over a real unix socket connection which is served by the real
// ClientConnection.Handle (ParseRequests / processRequests / Response.Send), closes the write side and
// returns everything the daemon wrote until it closed the connection (or the timeout hit).
func (inst *VerifInstance) VerifSession(input []byte, scratch string, timeout time.Duration) (out []byte, timedOut bool, err error) {
	if err = os.MkdirAll(scratch, 0o755); err != nil {
		return nil, false, err
	}
	path := fmt.Sprintf("%s/s%d.sock", scratch, time.Now().UnixNano())
	listener, err := net.Listen("unix", path)
	if err != nil {
		return nil, false, err
	}
	defer os.Remove(path)
	defer listener.Close()
	done := make(chan bool, 1)
	go func() {
		defer inst.Lmd.logPanicExit()
		conn, aErr := listener.Accept()
		if aErr != nil {
			done <- true

			return
		}
		cl := NewClientConnection(inst.Lmd, conn, inst.Lmd.Config.ListenTimeout, inst.Lmd.Config.LogSlowQueryThreshold, inst.Lmd.Config.LogHugeQueryThreshold)
		cl.Handle()
		done <- true
	}()
	conn, err := net.Dial("unix", path)
	if err != nil {
		return nil, false, err
	}
	defer conn.Close()
	go func() {
		_, _ = conn.Write(input)
		if uc, ok := conn.(*net.UnixConn); ok {
			_ = uc.CloseWrite()
		}
	}()
	_ = conn.SetReadDeadline(time.Now().Add(timeout))
	out, rErr := io.ReadAll(conn)
	if rErr != nil {
		if nErr, ok := rErr.(net.Error); ok && nErr.Timeout() {
			timedOut = true
		}
	}
	select {
	case <-done:
	case <-time.After(timeout):
		timedOut = true
	}

	return out, timedOut, nil
}
