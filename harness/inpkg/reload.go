//go:build verif

package lmd

import (
	"bufio"
	"context"
	"fmt"
	"io"
	"net"
	"sort"
	"strings"
	"sync"
	"time"
)

// VerifStartDaemon creates a daemon the way mainLoop does on its first pass: listeners are opened and the
// peers are created and started by the real initializeListeners / initializePeers (update loops run).
func VerifStartDaemon(cfg *VerifConfig, conns []VerifConn, listen []string) *VerifInstance {
	inst := verifNewDaemon(cfg, nil, false)
	inst.Lmd.Config.Connections = verifConnections(conns)
	inst.Lmd.Config.Listen = listen
	inst.verifMainLoopHead()

	return inst
}

func verifConnections(conns []VerifConn) []Connection {
	out := make([]Connection, 0, len(conns))
	for i := range conns {
		out = append(out, Connection{Name: conns[i].Name, ID: conns[i].ID, Source: conns[i].Source, Fallback: conns[i].Fallback, Flags: conns[i].Flags, Section: conns[i].Section})
	}

	return out
}

// verifMainLoopHead is the part of mainLoop between reading the configuration and waiting for signals.
func (inst *VerifInstance) verifMainLoopHead() {
	lmd := inst.Lmd
	lmd.lastMainRestart = currentUnixTime()
	lmd.shutdownChannel = make(chan bool)
	lmd.waitGroupInit = &sync.WaitGroup{}
	lmd.waitGroupListener = &sync.WaitGroup{}
	lmd.waitGroupPeers = &sync.WaitGroup{}
	lmd.initializeListeners()
	lmd.initializePeers(context.Background())
}

// VerifReload is what a SIGHUP leads to: mainLoop returns -1 and runs again with the configuration read anew.
func (inst *VerifInstance) VerifReload(conns []VerifConn, listen []string) {
	newCfg := *inst.Lmd.Config
	newCfg.Connections = verifConnections(conns)
	newCfg.Listen = listen
	inst.Lmd.Config = &newCfg
	inst.verifMainLoopHead()
}

// VerifSettle waits until no peer is in its initial synchronisation any more.
func (inst *VerifInstance) VerifSettle(timeout time.Duration) bool {
	deadline := time.Now().Add(timeout)
	for time.Now().Before(deadline) {
		busy := false
		inst.Lmd.PeerMapLock.RLock()
		for _, id := range inst.Lmd.PeerMapOrder {
			p := inst.Lmd.PeerMap[id]
			st := p.peerState.Get()
			if p.paused.Load() || st == PeerStatusPending || st == PeerStatusSyncing {
				busy = true
			}
		}
		inst.Lmd.PeerMapLock.RUnlock()
		if !busy {
			return true
		}
		time.Sleep(20 * time.Millisecond)
	}

	return false
}

// VerifDaemonPeer describes one entry of the peer map.
type VerifDaemonPeer struct {
	ID      string   `json:"id"`
	Object  string   `json:"object"` // identity of the Peer object
	Name    string   `json:"name"`
	Source  []string `json:"source"`
	Status  int      `json:"status"`
	HasData bool     `json:"has_data"`
	Paused  bool     `json:"paused"`
	Queries int64    `json:"queries"`
	LastErr string   `json:"last_error"`
}

// every Peer object ever observed gets a number; keeping the reference also keeps its address from being reused
var (
	verifSeenPeers     = map[*Peer]int{}
	verifSeenPeersLock sync.Mutex
)

func verifPeerToken(p *Peer) string {
	verifSeenPeersLock.Lock()
	defer verifSeenPeersLock.Unlock()
	n, ok := verifSeenPeers[p]
	if !ok {
		n = len(verifSeenPeers) + 1
		verifSeenPeers[p] = n
	}

	return fmt.Sprintf("peer#%d", n)
}

// VerifDaemonState lists the peer map in order and the open listeners.
func (inst *VerifInstance) VerifDaemonState() (peers []VerifDaemonPeer, listeners []string) {
	lmd := inst.Lmd
	lmd.PeerMapLock.RLock()
	for _, id := range lmd.PeerMapOrder {
		p := lmd.PeerMap[id]
		peers = append(peers, VerifDaemonPeer{ID: id, Object: verifPeerToken(p), Name: p.Name, Source: p.source, Status: int(p.peerState.Get()),
			HasData: p.data.Load() != nil, Paused: p.paused.Load(), Queries: p.queries.Load(), LastErr: p.lastError.Get()})
	}
	lmd.PeerMapLock.RUnlock()
	lmd.ListenersLock.Lock()
	for l := range lmd.Listeners {
		listeners = append(listeners, l)
	}
	lmd.ListenersLock.Unlock()
	sort.Strings(listeners)

	return
}

// VerifDial sends a request to a listener of the daemon over a real connection and returns the answer.
func VerifDial(path string, input []byte, timeout time.Duration) (out []byte, err error) {
	conn, err := net.DialTimeout("unix", path, timeout)
	if err != nil {
		return nil, err
	}
	defer conn.Close()
	_ = conn.SetDeadline(time.Now().Add(timeout))
	if _, err = conn.Write(input); err != nil {
		return nil, err
	}
	if uc, ok := conn.(*net.UnixConn); ok {
		_ = uc.CloseWrite()
	}

	return io.ReadAll(conn)
}

// VerifStopDaemon ends the update loops and listeners of a daemon started with VerifStartDaemon.
func (inst *VerifInstance) VerifStopDaemon() {
	lmd := inst.Lmd
	if lmd.shutdownChannel != nil {
		close(lmd.shutdownChannel)
	}
	lmd.ListenersLock.Lock()
	for con, l := range lmd.Listeners {
		delete(lmd.Listeners, con)
		l.Stop()
	}
	lmd.ListenersLock.Unlock()
	if lmd.waitGroupPeers != nil {
		waitTimeout(context.Background(), lmd.waitGroupPeers, 2*time.Second)
	}
}

// VerifAffectedTables returns the tables a request read-locks (Request.affectedTables), in locking order.
func (inst *VerifInstance) VerifAffectedTables(text string) (tables []string, err error) {
	req, _, err := NewRequest(context.Background(), inst.Lmd, bufio.NewReader(strings.NewReader(text)), ParseOptimize)
	if err != nil {
		return nil, err
	}
	if req == nil || req.Command != "" {
		return nil, fmt.Errorf("not a GET request")
	}
	for _, name := range req.affectedTables(Objects.Tables[req.Table]) {
		tables = append(tables, name.String())
	}

	return tables, nil
}
