//go:build verif

package lmd

import (
	"context"
	"fmt"

	"github.com/sasha-s/go-deadlock"
)

// VerifRedistribute runs the real Nodes.redistribute for a cluster of len(online) nodes (node ownIdx is this
// node) over the given backends and returns the node -> backends map and this node's assignment.
// The peers of the daemon do not exist: starting them panics after the assignment has been stored, which is
// recovered here (only the bookkeeping is observed).
func VerifRedistribute(online []bool, ownIdx int, backends []string, previous []string) (nodeBackends map[string][]string, ours []string, panicked string) {
	lmd := NewLMDInstance()
	lmd.Config = NewConfig([]string{})
	nodes := &Nodes{
		lock:         new(deadlock.RWMutex),
		lmd:          lmd,
		nodeBackends: make(map[string][]string),
		backends:     backends,
	}
	nodes.assignedBackends = previous
	for i := range online {
		addr := &NodeAddress{id: fmt.Sprintf("n%d", i), ip: fmt.Sprintf("10.0.0.%d", i+1), url: fmt.Sprintf("http://10.0.0.%d:8080/", i+1), port: 8080, isMe: i == ownIdx}
		nodes.nodeAddresses = append(nodes.nodeAddresses, addr)
		if online[i] {
			nodes.onlineNodes = append(nodes.onlineNodes, addr)
		}
	}
	lmd.nodeAccessor = nodes
	func() {
		defer func() {
			if r := recover(); r != nil {
				panicked = fmt.Sprintf("%v", r)
			}
		}()
		nodes.redistribute(context.Background())
	}()

	return nodes.nodeBackends, nodes.assignedBackends, panicked
}
