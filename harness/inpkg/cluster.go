//go:build verif

package lmd

import (
	"context"
	"fmt"
	"time"

	"github.com/sasha-s/go-deadlock"
)

// VerifRedistribute runs the real Nodes.redistribute for a cluster of len(online) nodes (node ownIdx is this
// node) over the given backends and returns the node -> backends map and this node's assignment.
// The peers of the daemon do not exist: starting them panics after the assignment has been stored, which is
// recovered here (only the bookkeeping is observed).
func VerifRedistribute(online []bool, ownIdx int, backends []string, previous []string) (nodeBackends map[string][]string, ours []string, panicked string) {
	lmd := NewLMDInstance()
	lmd.Config = NewConfig([]string{})
	nodes := &Nodes{
		lock:         new(deadlock.RWMutex),
		lmd:          lmd,
		nodeBackends: make(map[string][]string),
		backends:     backends,
	}
	nodes.assignedBackends = previous
	for i := range online {
		addr := &NodeAddress{id: fmt.Sprintf("n%d", i), ip: fmt.Sprintf("10.0.0.%d", i+1), url: fmt.Sprintf("http://10.0.0.%d:8080/", i+1), port: 8080, isMe: i == ownIdx}
		nodes.nodeAddresses = append(nodes.nodeAddresses, addr)
		if online[i] {
			nodes.onlineNodes = append(nodes.onlineNodes, addr)
		}
	}
	lmd.nodeAccessor = nodes
	func() {
		defer func() {
			if r := recover(); r != nil {
				panicked = fmt.Sprintf("%v", r)
			}
		}()
		nodes.redistribute(context.Background())
	}()

	return nodes.nodeBackends, nodes.assignedBackends, panicked
}

// ---- a running cluster: several daemons of this process, each with an http listener, configured as nodes of one cluster ----

var (
	verifHeartbeat    = 3
	verifNodeInterval = 10
)

// verifHeartbeatTimeout / verifNodeLoopInterval replace the defaults of Nodes.Initialize in the harness build (see
// CLOCK_PATCHES): the harness triggers the availability checks itself and does not want to wait 3 s for every node that is down.
func verifHeartbeatTimeout() int  { return verifHeartbeat }
func verifNodeLoopInterval() int  { return verifNodeInterval }
func VerifSetNodeTiming(heartbeat, interval int) {
	verifHeartbeat, verifNodeInterval = heartbeat, interval
}

// VerifStartNode starts a daemon as mainLoop does, as one node of a cluster: listen is its own http address, nodes are the
// addresses of all nodes.  initializePeers creates the node accessor and runs the first availability check.
func VerifStartNode(cfg *VerifConfig, conns []VerifConn, listen string, nodes []string) *VerifInstance {
	inst := verifNewDaemon(cfg, nil, false)
	inst.Lmd.Config.Connections = verifConnections(conns)
	inst.Lmd.Config.Listen = []string{listen}
	inst.Lmd.Config.Nodes = nodes
	inst.verifMainLoopHead()

	return inst
}

// VerifNodeCheck runs one round of Nodes.checkNodeAvailability (what the node loop does every 10 s).
func (inst *VerifInstance) VerifNodeCheck() (panicked string) {
	defer func() {
		if r := recover(); r != nil {
			panicked = fmt.Sprintf("%v", r)
		}
	}()
	inst.Lmd.nodeAccessor.checkNodeAvailability(context.Background())

	return ""
}

// VerifNodeForget closes the idle connections this node keeps to its partners: a partner process that ended would have
// closed them.
func (inst *VerifInstance) VerifNodeForget() {
	if inst.Lmd.nodeAccessor != nil && inst.Lmd.nodeAccessor.httpClient != nil {
		inst.Lmd.nodeAccessor.httpClient.CloseIdleConnections()
	}
}

// VerifNodeState is the cluster bookkeeping of one node, with node ids translated to positions in the node list.
type VerifNodeState struct {
	Own          int              `json:"own"`
	Online       []int            `json:"online"`
	NodeBackends map[string][]string `json:"node_backends"` // position (or "?id" for an id no address carries) -> backends
	Assigned     []string         `json:"assigned"`
	Peers        []VerifDaemonPeer `json:"peers"`
}

func (inst *VerifInstance) VerifNodeState() *VerifNodeState {
	n := inst.Lmd.nodeAccessor
	st := &VerifNodeState{Own: -1, NodeBackends: map[string][]string{}}
	n.lock.RLock()
	for i, a := range n.nodeAddresses {
		if a.isMe {
			st.Own = i
		}
		for _, o := range n.onlineNodes {
			if o.url == a.url {
				st.Online = append(st.Online, i)
			}
		}
	}
	n.lock.RUnlock()
	for id, list := range n.nodeBackends {
		key := "?" + id
		for i, a := range n.nodeAddresses {
			if a.id == id {
				key = fmt.Sprintf("%d", i)
			}
		}
		st.NodeBackends[key] = append([]string{}, list...)
	}
	st.Assigned = append([]string{}, n.assignedBackends...)
	st.Peers, _ = inst.VerifDaemonState()

	return st
}

// VerifNodeSettle waits until every backend assigned to this node has finished (or failed) its initial synchronisation.
func (inst *VerifInstance) VerifNodeSettle(timeout time.Duration) bool {
	deadline := time.Now().Add(timeout)
	for time.Now().Before(deadline) {
		busy := false
		assigned := inst.Lmd.nodeAccessor.assignedBackends
		inst.Lmd.PeerMapLock.RLock()
		for _, id := range assigned {
			p := inst.Lmd.PeerMap[id]
			if p == nil {
				continue
			}
			st := p.peerState.Get()
			if p.paused.Load() || st == PeerStatusPending || st == PeerStatusSyncing {
				busy = true
			}
		}
		inst.Lmd.PeerMapLock.RUnlock()
		if !busy {
			return true
		}
		time.Sleep(20 * time.Millisecond)
	}

	return false
}
