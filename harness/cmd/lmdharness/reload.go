package main

import (
	"bufio"
	"encoding/json"
	"fmt"
	"os"
	"path/filepath"
	"time"

	"lmdharness/backend"
	"pkg/lmd"
)

// a daemon started the way mainLoop starts it (real listeners, real update loops), for configuration reloads

type daemonWorld struct {
	inst      *lmd.VerifInstance
	backends  map[string]*backend.Backend
	dir       string
	cfg       lmd.VerifConfig
	lastConns []lmd.VerifConn
	listen_   []string
}

var curDaemon *daemonWorld

func (d *daemonWorld) close() {
	if d == nil {
		return
	}
	d.inst.VerifStopDaemon()
	for _, b := range d.backends {
		b.Close()
	}
	_ = os.RemoveAll(d.dir)
}

type daemonLine struct {
	ID       int             `json:"id"`
	Config   lmd.VerifConfig `json:"config"`
	Backends []worldBackend  `json:"backends"`
	Listen   []string        `json:"listen"`
	Listener string          `json:"listener"`
	Text     string          `json:"text"`
	Backend  string          `json:"backend"`
	Soak     soakSpec        `json:"soak"`
	TickerMS int             `json:"ticker_ms"`
}

func (d *daemonWorld) conns(specs []worldBackend) ([]lmd.VerifConn, error) {
	conns := []lmd.VerifConn{}
	for i := range specs {
		wb := &specs[i]
		if d.backends[wb.ID] == nil && wb.Tables != nil {
			b, err := backend.New(wb.ID, filepath.Join(d.dir, wb.ID+".sock"), lmd.VerifNow)
			if err != nil {
				return nil, err
			}
			b.Tables = wb.Tables
			d.backends[wb.ID] = b
		}
		src := []string{}
		for _, s := range wb.Sources {
			switch {
			case s == "self":
				src = append(src, filepath.Join(d.dir, wb.ID+".sock"))
			case s == "dead":
				src = append(src, filepath.Join(d.dir, "dead-"+wb.ID+".sock"))
			case len(s) > 6 && s[:6] == "other:":
				src = append(src, filepath.Join(d.dir, s[6:]+".sock"))
			default:
				src = append(src, s)
			}
		}
		if len(src) == 0 {
			src = []string{filepath.Join(d.dir, wb.ID+".sock")}
		}
		name := wb.Name
		if name == "" {
			name = "Backend " + wb.ID
		}
		conns = append(conns, lmd.VerifConn{ID: wb.ID, Name: name, Source: src, Flags: wb.Flags})
	}

	return conns, nil
}

func (d *daemonWorld) listen(names []string) []string {
	out := []string{}
	for _, n := range names {
		out = append(out, filepath.Join(d.dir, "listen-"+n+".sock"))
	}

	return out
}

func daemonOp(out *bufio.Writer, op string, raw []byte, scratch string) bool {
	switch op {
	case "daemon", "reload", "dquery", "dstate", "dstop", "dbackend_log", "soak":
	default:
		return false
	}
	var line daemonLine
	if err := json.Unmarshal(raw, &line); err != nil {
		emit(out, map[string]interface{}{"error": err.Error()})

		return true
	}
	res := map[string]interface{}{"id": line.ID, "op": op}
	fail := func(msg string) bool {
		res["error"] = msg
		emit(out, res)

		return true
	}
	fmt.Fprintf(os.Stderr, "@start %d\n", line.ID)
	switch op {
	case "daemon":
		curDaemon.close()
		worldSeq++
		dir := filepath.Join(scratch, fmt.Sprintf("daemon%d", worldSeq))
		_ = os.RemoveAll(dir)
		if err := os.MkdirAll(dir, 0o755); err != nil {
			return fail(err.Error())
		}
		d := &daemonWorld{backends: map[string]*backend.Backend{}, dir: dir, cfg: line.Config}
		conns, err := d.conns(line.Backends)
		if err != nil {
			return fail(err.Error())
		}
		lmd.VerifSetTicker(time.Duration(line.TickerMS) * time.Millisecond)
		d.lastConns, d.listen_ = conns, d.listen(line.Listen)
		d.inst = lmd.VerifStartDaemon(&line.Config, conns, d.listen(line.Listen))
		curDaemon = d
		res["settled"] = d.inst.VerifSettle(8 * time.Second)
	case "reload":
		if curDaemon == nil {
			return fail("no daemon")
		}
		conns, err := curDaemon.conns(line.Backends)
		if err != nil {
			return fail(err.Error())
		}
		// a client that keeps asking while the configuration is reloaded
		stop := make(chan bool)
		done := make(chan bool)
		answers := map[string]int{}
		errs := []string{}
		asked := 0
		if line.Text != "" {
			path := filepath.Join(curDaemon.dir, "listen-"+line.Listener+".sock")
			go func() {
				defer close(done)
				for {
					body, dErr := lmd.VerifDial(path, []byte(line.Text), 5*time.Second)
					asked++
					if dErr != nil {
						errs = append(errs, dErr.Error())
					} else {
						answers[string(body)]++
					}
					select {
					case <-stop:
						return
					default:
					}
					time.Sleep(2 * time.Millisecond)
				}
			}()
			time.Sleep(15 * time.Millisecond)
		}
		curDaemon.lastConns, curDaemon.listen_ = conns, curDaemon.listen(line.Listen)
		curDaemon.inst.VerifReload(conns, curDaemon.listen(line.Listen))
		res["settled"] = curDaemon.inst.VerifSettle(8 * time.Second)
		if line.Text != "" {
			time.Sleep(15 * time.Millisecond)
			close(stop)
			<-done
			distinct := []string{}
			for a := range answers {
				distinct = append(distinct, a)
			}
			res["hammer_answers"] = distinct
			res["hammer_errors"] = errs
			res["hammer_asked"] = asked
		}
	case "dquery":
		if curDaemon == nil {
			return fail("no daemon")
		}
		path := filepath.Join(curDaemon.dir, "listen-"+line.Listener+".sock")
		// a listener that was just opened may need a moment
		var body []byte
		var err error
		for try := 0; try < 20; try++ {
			body, err = lmd.VerifDial(path, []byte(line.Text), 5*time.Second)
			if err == nil {
				break
			}
			time.Sleep(25 * time.Millisecond)
		}
		if err != nil {
			res["dial_error"] = err.Error()
		}
		res["out"] = string(body)
	case "dstate":
		if curDaemon == nil {
			return fail("no daemon")
		}
		peers, listeners := curDaemon.inst.VerifDaemonState()
		names := []string{}
		for _, l := range listeners {
			names = append(names, filepath.Base(l))
		}
		res["peers"] = peers
		res["listeners"] = names
	case "dbackend_log":
		if curDaemon == nil || curDaemon.backends[line.Backend] == nil {
			return fail("no such backend")
		}
		log, _ := curDaemon.backends[line.Backend].TakeLog()
		res["log"] = log
	case "soak":
		if curDaemon == nil {
			return fail("no daemon")
		}
		res["result"] = soak(curDaemon, line.Soak)
	case "dstop":
		curDaemon.close()
		curDaemon = nil
		res["ok"] = true
	}
	emit(out, res)

	return true
}
