package main

import (
	"bufio"
	"encoding/json"
	"fmt"
	"net"
	"os"
	"path/filepath"
	"time"

	"lmdharness/backend"
	"pkg/lmd"
)

// a cluster: several daemons of this process, each started the way mainLoop starts it, each with an http listener, all with
// the same connections and the same node list.  The harness triggers the availability checks of the nodes itself.

type clusterWorld struct {
	dir      string
	cfg      lmd.VerifConfig
	conns    []lmd.VerifConn
	addrs    []string
	nodes    []*lmd.VerifInstance // nil = this node is down
	backends map[string]*backend.Backend
}

var curCluster *clusterWorld

func (c *clusterWorld) close() {
	if c == nil {
		return
	}
	for _, n := range c.nodes {
		if n != nil {
			n.VerifStopDaemon()
		}
	}
	for _, b := range c.backends {
		b.Close()
	}
	_ = os.RemoveAll(c.dir)
}

type clusterLine struct {
	ID       int             `json:"id"`
	Config   lmd.VerifConfig `json:"config"`
	Backends []worldBackend  `json:"backends"`
	Nodes    int             `json:"nodes"`
	Start    []int           `json:"start"`
	Node     int             `json:"node"`
	Text     string          `json:"text"`
	Optimize bool            `json:"optimize"`
}

func freePort() (int, error) {
	l, err := net.Listen("tcp", "127.0.0.1:0")
	if err != nil {
		return 0, err
	}
	defer l.Close()

	return l.Addr().(*net.TCPAddr).Port, nil
}

func (c *clusterWorld) startNode(i int) {
	c.nodes[i] = lmd.VerifStartNode(&c.cfg, c.conns, c.addrs[i], c.addrs)
}

func (c *clusterWorld) stopNode(i int) {
	if c.nodes[i] == nil {
		return
	}
	c.nodes[i].VerifStopDaemon()
	c.nodes[i] = nil
	// the partners' connections to a process that ended are gone
	for _, n := range c.nodes {
		if n != nil {
			n.VerifNodeForget()
		}
	}
}

func clusterOp(out *bufio.Writer, op string, raw []byte, scratch string) bool {
	switch op {
	case "cluster", "cstart", "cstop", "ccheck", "cstate", "cquery", "cend", "creload":
	default:
		return false
	}
	var line clusterLine
	if err := json.Unmarshal(raw, &line); err != nil {
		emit(out, map[string]interface{}{"error": err.Error()})

		return true
	}
	res := map[string]interface{}{"id": line.ID, "op": op}
	fail := func(msg string) bool {
		res["error"] = msg
		emit(out, res)

		return true
	}
	fmt.Fprintf(os.Stderr, "@start %d\n", line.ID)
	if op != "cluster" && curCluster == nil {
		return fail("no cluster")
	}
	if op != "cluster" && op != "cend" && (line.Node < 0 || line.Node >= len(curCluster.nodes)) {
		return fail("no such node")
	}
	switch op {
	case "cluster":
		curCluster.close()
		curCluster = nil
		worldSeq++
		dir := filepath.Join(scratch, fmt.Sprintf("cluster%d", worldSeq))
		_ = os.RemoveAll(dir)
		if err := os.MkdirAll(dir, 0o755); err != nil {
			return fail(err.Error())
		}
		c := &clusterWorld{dir: dir, cfg: line.Config, backends: map[string]*backend.Backend{}, nodes: make([]*lmd.VerifInstance, line.Nodes)}
		for i := range line.Backends {
			wb := &line.Backends[i]
			b, err := backend.New(wb.ID, filepath.Join(dir, wb.ID+".sock"), lmd.VerifNow)
			if err != nil {
				return fail(err.Error())
			}
			b.Tables = wb.Tables
			c.backends[wb.ID] = b
			name := wb.Name
			if name == "" {
				name = "Backend " + wb.ID
			}
			c.conns = append(c.conns, lmd.VerifConn{ID: wb.ID, Name: name, Source: []string{filepath.Join(dir, wb.ID+".sock")}, Flags: wb.Flags})
		}
		for i := 0; i < line.Nodes; i++ {
			port, err := freePort()
			if err != nil {
				return fail(err.Error())
			}
			c.addrs = append(c.addrs, fmt.Sprintf("http://127.0.0.1:%d", port))
		}
		lmd.VerifSetNodeTiming(2, 100000)
		curCluster = c
		for _, i := range line.Start {
			c.startNode(i)
			if line.Nodes == 1 {
				// a single node is not a cluster: all peers are started at once
				c.nodes[i].VerifSettle(8 * time.Second)
			} else {
				c.nodes[i].VerifNodeSettle(8 * time.Second)
			}
		}
		res["addrs"] = c.addrs
	case "cstart":
		if curCluster.nodes[line.Node] != nil {
			return fail("node is running")
		}
		curCluster.startNode(line.Node)
		res["settled"] = curCluster.nodes[line.Node].VerifNodeSettle(8 * time.Second)
	case "cstop":
		curCluster.stopNode(line.Node)
	case "ccheck":
		n := curCluster.nodes[line.Node]
		if n == nil {
			return fail("node is down")
		}
		res["panic"] = n.VerifNodeCheck()
		res["settled"] = n.VerifNodeSettle(8 * time.Second)
	case "creload":
		// what a SIGHUP leads to on this node: mainLoop runs again with the (unchanged) configuration
		n := curCluster.nodes[line.Node]
		if n == nil {
			return fail("node is down")
		}
		n.VerifReload(curCluster.conns, []string{curCluster.addrs[line.Node]})
		res["settled"] = n.VerifNodeSettle(8 * time.Second)
	case "cstate":
		n := curCluster.nodes[line.Node]
		if n == nil {
			res["down"] = true
		} else {
			res["state"] = n.VerifNodeState()
		}
	case "cquery":
		n := curCluster.nodes[line.Node]
		if n == nil {
			return fail("node is down")
		}
		r := n.VerifQuery(line.Text, line.Optimize)
		res["code"], res["body"], res["raw"], res["err"] = r.Code, r.Body, r.Raw, r.Err
	case "cend":
		curCluster.close()
		curCluster = nil
	}
	emit(out, res)

	return true
}
