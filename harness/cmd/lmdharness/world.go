package main

import (
	"bufio"
	"encoding/json"
	"fmt"
	"os"
	"path/filepath"

	"lmdharness/backend"
	"pkg/lmd"
)

type worldBackend struct {
	ID       string                    `json:"id"`
	Name     string                    `json:"name"`
	Flags    []string                  `json:"flags"`
	Tables   map[string]*backend.Table `json:"tables"`
	Sources  []string                  `json:"sources"` // "self" = this backend's socket, "dead" = a path nobody listens on, "other:<id>"
	Fallback []string                  `json:"fallback"`
	Section  string                    `json:"section"`
	// the backend writes texts the way a core does: bytes as they are (control bytes unescaped; a code point U+E080..U+E0FF
	// of the dataset stands for the single byte 0x80..0xFF, which is not UTF-8)
	RawStrings bool `json:"raw_strings"`
}

type worldSpec struct {
	Config   lmd.VerifConfig `json:"config"`
	Backends []worldBackend  `json:"backends"`
}

type world struct {
	cfg      *lmd.VerifConfig
	conns    []lmd.VerifConn
	inst     *lmd.VerifInstance
	backends map[string]*backend.Backend
	dir      string
	exporter *lmd.VerifInstance // federated export: the daemon that wrote the snapshot
	importer *lmd.VerifInstance
	stopFed  func()
}

var curWorld *world

var worldSeq int

func (w *world) close() {
	if w == nil {
		return
	}
	if w.stopFed != nil {
		w.stopFed()
	}
	for _, b := range w.backends {
		b.Close()
	}
	_ = os.RemoveAll(w.dir)
}

func newWorld(spec *worldSpec, scratch string) (*world, error) {
	// a directory of its own per world: a sender of an earlier world that is still waiting for its peer must
	// not reach the backends of this one
	worldSeq++
	dir := filepath.Join(scratch, fmt.Sprintf("world%d", worldSeq))
	_ = os.RemoveAll(dir)
	if err := os.MkdirAll(dir, 0o755); err != nil {
		return nil, err
	}
	wld := &world{backends: map[string]*backend.Backend{}, dir: dir}
	conns := []lmd.VerifConn{}
	for i := range spec.Backends {
		wb := &spec.Backends[i]
		path := filepath.Join(dir, wb.ID+".sock")
		b, err := backend.New(wb.ID, path, lmd.VerifNow)
		if err != nil {
			return nil, err
		}
		b.Tables = wb.Tables
		b.RawStrings = wb.RawStrings
		wld.backends[wb.ID] = b
	}
	resolve := func(self string, list []string) []string {
		out := []string{}
		for _, s := range list {
			switch {
			case s == "self":
				out = append(out, filepath.Join(dir, self+".sock"))
			case s == "dead":
				out = append(out, filepath.Join(dir, "dead-"+self+".sock"))
			case len(s) > 6 && s[:6] == "other:":
				out = append(out, filepath.Join(dir, s[6:]+".sock"))
			default:
				out = append(out, s)
			}
		}

		return out
	}
	for i := range spec.Backends {
		wb := &spec.Backends[i]
		src := wb.Sources
		if len(src) == 0 {
			src = []string{"self"}
		}
		name := wb.Name
		if name == "" {
			name = "Backend " + wb.ID
		}
		conns = append(conns, lmd.VerifConn{ID: wb.ID, Name: name, Source: resolve(wb.ID, src), Fallback: resolve(wb.ID, wb.Fallback), Flags: wb.Flags, Section: wb.Section})
	}
	wld.inst = lmd.VerifNewWorld(&spec.Config, conns)
	wld.cfg = &spec.Config
	wld.conns = conns

	return wld, nil
}

type change struct {
	Table   string                   `json:"table"`
	Key     map[string]interface{}   `json:"key"`
	Set     map[string]interface{}   `json:"set"`
	Add     map[string]interface{}   `json:"add"`
	Remove  bool                     `json:"remove"`
	Replace []map[string]interface{} `json:"replace"`
	AddCol  string                   `json:"add_col"`
	DelCol  string                   `json:"del_col"`
	Reverse bool                     `json:"reverse"` // the backend lists the table in the opposite order from now on
}

func keyMatches(row, key map[string]interface{}) bool {
	for k, v := range key {
		if fmt.Sprintf("%v", row[k]) != fmt.Sprintf("%v", v) {
			return false
		}
	}

	return true
}

func applyChanges(b *backend.Backend, changes []change) {
	b.Mutate(func(tables map[string]*backend.Table) {
		for _, ch := range changes {
			tab := tables[ch.Table]
			if tab == nil {
				tab = &backend.Table{}
				tables[ch.Table] = tab
			}
			switch {
			case ch.Replace != nil:
				tab.Rows = ch.Replace
			case ch.Add != nil:
				tab.Rows = append(tab.Rows, ch.Add)
			case ch.Remove:
				rows := tab.Rows[:0]
				for _, r := range tab.Rows {
					if !keyMatches(r, ch.Key) {
						rows = append(rows, r)
					}
				}
				tab.Rows = rows
			case ch.Reverse:
				for i, j := 0, len(tab.Rows)-1; i < j; i, j = i+1, j-1 {
					tab.Rows[i], tab.Rows[j] = tab.Rows[j], tab.Rows[i]
				}
			case ch.AddCol != "":
				tab.Cols = append(tab.Cols, ch.AddCol)
			case ch.DelCol != "":
				cols := tab.Cols[:0]
				for _, c := range tab.Cols {
					if c != ch.DelCol {
						cols = append(cols, c)
					}
				}
				tab.Cols = cols
			default:
				for _, r := range tab.Rows {
					if keyMatches(r, ch.Key) {
						for k, v := range ch.Set {
							r[k] = v
						}
					}
				}
			}
		}
	})
}

type worldLine struct {
	ID        int             `json:"id"`
	World     json.RawMessage `json:"world"`
	Peer      string          `json:"peer"`
	Backend   string          `json:"backend"`
	Seconds   float64         `json:"seconds"`
	Changes   []change        `json:"changes"`
	Mode      string          `json:"mode"`
	FailAfter *int            `json:"fail_after"`
	FailMode  string          `json:"fail_mode"`
	CmdReply  *string         `json:"cmd_reply"`
	Commands  []string        `json:"commands"`
	Federated bool            `json:"federated"`
	Reset     *bool           `json:"reset"`
	FailTable string          `json:"fail_table"`
	Which     string          `json:"which"`
}

func worldOp(out *bufio.Writer, inst **lmd.VerifInstance, op string, raw []byte, scratch string) bool {
	var line worldLine
	if err := json.Unmarshal(raw, &line); err != nil {
		emit(out, map[string]interface{}{"error": err.Error()})

		return true
	}
	res := map[string]interface{}{"id": line.ID, "op": op}
	fail := func(msg string) bool {
		res["error"] = msg
		emit(out, res)

		return true
	}
	switch op {
	case "world":
		curWorld.close()
		var spec worldSpec
		if err := json.Unmarshal(line.World, &spec); err != nil {
			return fail(err.Error())
		}
		w, err := newWorld(&spec, scratch)
		if err != nil {
			return fail(err.Error())
		}
		curWorld = w
		*inst = w.inst
		res["ok"] = true
	case "init":
		if curWorld == nil {
			return fail("no world")
		}
		fmt.Fprintf(os.Stderr, "@start %d\n", line.ID)
		res["err"] = curWorld.inst.VerifPeerInit(line.Peer)
		res["state"] = curWorld.inst.VerifPeerState(line.Peer)
	case "tick":
		if curWorld == nil {
			return fail("no world")
		}
		fmt.Fprintf(os.Stderr, "@start %d\n", line.ID)
		ran, errStr := curWorld.inst.VerifPeerTick(line.Peer)
		res["ran"] = ran
		res["err"] = errStr
		res["state"] = curWorld.inst.VerifPeerState(line.Peer)
	case "export_import":
		if curWorld == nil {
			return fail("no world")
		}
		fmt.Fprintf(os.Stderr, "@start %d\n", line.ID)
		file := filepath.Join(curWorld.dir, "snapshot.tgz")
		if line.Federated {
			src, dst, stop, err := lmd.VerifExportImportFederated(curWorld.inst, curWorld.cfg, file, filepath.Join(curWorld.dir, "fed.sock"))
			if err != nil {
				return fail(err.Error())
			}
			curWorld.exporter, curWorld.importer, curWorld.stopFed = src, dst, stop
			*inst = dst
			res["ok"] = true

			break
		}
		imported, err := lmd.VerifExportImport(curWorld.cfg, curWorld.conns, file)
		if err != nil {
			return fail(err.Error())
		}
		*inst = imported
		res["ok"] = true
	case "use":
		// which of the two daemons of a federated export the following queries go to
		if curWorld == nil || curWorld.exporter == nil {
			return fail("no federated export")
		}
		if line.Which == "exporter" {
			*inst = curWorld.exporter
		} else {
			*inst = curWorld.importer
		}
		res["ok"] = true
	case "advance":
		lmd.VerifClockAdvance(line.Seconds)
		res["ok"] = true
	case "clock":
		lmd.VerifClockSet(line.Seconds)
		res["ok"] = true
	case "mutate":
		if curWorld == nil || curWorld.backends[line.Backend] == nil {
			return fail("no such backend")
		}
		applyChanges(curWorld.backends[line.Backend], line.Changes)
		res["ok"] = true
	case "mode":
		if curWorld == nil || curWorld.backends[line.Backend] == nil {
			return fail("no such backend")
		}
		b := curWorld.backends[line.Backend]
		if line.FailAfter != nil {
			b.Mutate(func(_ map[string]*backend.Table) {})
			b.FailAfter = *line.FailAfter
			b.FailMode = line.FailMode
		}
		if line.CmdReply != nil {
			b.CmdReply = *line.CmdReply
		}
		if line.FailTable != "" {
			ft, fm := line.FailTable, line.FailMode
			b.Mutate(func(_ map[string]*backend.Table) { b.FailTable, b.FailTableMode = ft, fm })
		}
		if line.Reset != nil {
			v := *line.Reset
			b.Mutate(func(_ map[string]*backend.Table) { b.ResetCmd = v })
		}
		if line.Mode != "" {
			if err := b.SetMode(line.Mode); err != nil {
				return fail(err.Error())
			}
		}
		res["ok"] = true
	case "state":
		if curWorld == nil {
			return fail("no world")
		}
		res["state"] = curWorld.inst.VerifPeerState(line.Peer)
	case "backend_log":
		if curWorld == nil || curWorld.backends[line.Backend] == nil {
			return fail("no such backend")
		}
		log, cmds := curWorld.backends[line.Backend].TakeLog()
		res["log"] = log
		res["commands"] = cmds
		res["batches"] = curWorld.backends[line.Backend].TakenBatches()
		res["replies"] = curWorld.backends[line.Backend].TakenReplies()
	case "commands":
		if curWorld == nil {
			return fail("no world")
		}
		fmt.Fprintf(os.Stderr, "@start %d\n", line.ID)
		res["err"] = curWorld.inst.VerifSendCommands(line.Peer, line.Commands)
	default:
		return false
	}
	if curWorld != nil && line.Peer != "" {
		if b := curWorld.backends[line.Peer]; b != nil {
			b.Mutate(func(_ map[string]*backend.Table) {
				res["backend_queries"] = b.Queries
				res["fail_table_hits"] = b.FailTableHits
			})
		}
	}
	emit(out, res)

	return true
}
