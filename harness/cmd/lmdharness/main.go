// lmdharness runs the real lmd code (from /repo's working tree, with the verif overlay) on the
// JSON-line cases written by /verif/bin/check and prints one JSON result per case.
package main

import (
	"bufio"
	"encoding/json"
	"fmt"
	"os"
	"time"

	"pkg/lmd"
)

type opLine struct {
	Op       string              `json:"op"`
	ID       int                 `json:"id"`
	Dataset  json.RawMessage     `json:"dataset"`
	Text     string              `json:"text"`
	Optimize bool                `json:"optimize"`
	Env      map[string][]string `json:"env"`
	Timeout  float64             `json:"timeout"`
}

func main() {
	if len(os.Args) < 2 {
		fmt.Fprintln(os.Stderr, "usage: lmdharness <dump-schema|run> [args]")
		os.Exit(2)
	}
	switch os.Args[1] {
	case "dump-schema":
		lmd.VerifInit("Off")
		enc := json.NewEncoder(os.Stdout)
		if err := enc.Encode(lmd.VerifDumpSchema()); err != nil {
			panic(err)
		}
	case "run":
		run()
	default:
		extra(os.Args[1], os.Args[2:])
	}
}

func run() {
	logLevel := os.Getenv("VERIF_LMD_LOGLEVEL")
	if logLevel == "" {
		logLevel = "Error"
	}
	lmd.VerifInit(logLevel)
	scratch := os.Getenv("VERIF_SCRATCH")
	if scratch == "" {
		scratch = fmt.Sprintf("/scratch/lmdharness-%d", os.Getpid())
	}
	defer os.RemoveAll(scratch)
	in := bufio.NewReaderSize(os.Stdin, 1<<20)
	out := bufio.NewWriter(os.Stdout)
	defer out.Flush()
	var inst *lmd.VerifInstance
	dec := json.NewDecoder(in)
	for {
		var rawLine json.RawMessage
		var line opLine
		err := dec.Decode(&rawLine)
		if err == nil {
			err = json.Unmarshal(rawLine, &line)
		}
		if err != nil {
			// a worker goroutine of lmd that panicked ends the process with os.Exit only after it has
			// released the request's wait group and written its report: give it the time to do so
			time.Sleep(200 * time.Millisecond)

			break
		}
		switch line.Op {
		case "dataset":
			var ds lmd.VerifDataset
			if err := json.Unmarshal(line.Dataset, &ds); err != nil {
				emit(out, map[string]interface{}{"id": line.ID, "op": "dataset", "error": err.Error()})
				inst = nil

				continue
			}
			var err error
			inst, err = lmd.VerifLoadDataset(&ds, scratch)
			if err != nil {
				emit(out, map[string]interface{}{"id": line.ID, "op": "dataset", "error": err.Error()})
				inst = nil

				continue
			}
			emit(out, map[string]interface{}{"id": line.ID, "op": "dataset", "ok": true})
		case "query":
			if inst == nil {
				emit(out, map[string]interface{}{"id": line.ID, "op": "query", "error": "no dataset"})

				continue
			}
			// announce the case before running it, so that a crash can be attributed
			fmt.Fprintf(os.Stderr, "@start %d\n", line.ID)
			res := inst.VerifQuery(line.Text, line.Optimize)
			emit(out, map[string]interface{}{"id": line.ID, "op": "query", "code": res.Code, "body": res.Body, "raw": res.Raw, "err": res.Err, "reprint": res.Reprint, "sub_err": res.SubErr})
		default:
			if worldOp(out, &inst, line.Op, rawLine, scratch) {
				continue
			}
			if daemonOp(out, line.Op, rawLine, scratch) {
				continue
			}
			if clusterOp(out, line.Op, rawLine, scratch) {
				continue
			}
			if !extraOp(out, &inst, line.Op, line) {
				emit(out, map[string]interface{}{"id": line.ID, "error": "unknown op " + line.Op})
			}
		}
	}
}

func emit(out *bufio.Writer, val interface{}) {
	enc, err := json.Marshal(val)
	if err != nil {
		panic(err)
	}
	out.Write(enc)
	out.WriteByte('\n')
	out.Flush()
}
