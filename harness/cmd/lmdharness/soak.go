package main

import (
	"encoding/json"
	"fmt"
	"strconv"
	"strings"
	"sync"
	"sync/atomic"
	"time"

	"lmdharness/backend"
	"pkg/lmd"
)

// soak: clients query a running daemon while the scripted backends change their objects continuously and the
// virtual clock advances, so that the update loops run delta updates, full scans and rebuilds under the queries.
// Every object carries a version stamp in several columns of different kinds (number, string, list, float); a row
// whose columns stem from two versions is torn.

type soakSpec struct {
	DurationMS int  `json:"duration_ms"`
	Clients    int  `json:"clients"`
	Restarts   bool `json:"restarts"`
	Failures   bool `json:"failures"`
	Reloads    bool `json:"reloads"`
}

type soakResult struct {
	Queries   int64    `json:"queries"`
	Rows      int64    `json:"rows"`
	Mutations int64    `json:"mutations"`
	Reloads   int64    `json:"reloads"`
	Torn      []string `json:"torn"`
	Backward  []string `json:"backward"`
	Errors    []string `json:"errors"`
	Versions  int64    `json:"max_version_seen"`
}

func stampHost(row map[string]interface{}, v int64) {
	row["current_attempt"] = float64(v % 100000)
	row["plugin_output"] = fmt.Sprintf("v%d", v)
	row["long_plugin_output"] = fmt.Sprintf("long v%d", v)
	row["perf_data"] = fmt.Sprintf("version=%d", v)
	row["latency"] = float64(v) + 0.5
	row["state"] = float64(v % 4)
}

func soak(d *daemonWorld, spec soakSpec) soakResult {
	res := soakResult{}
	var mu sync.Mutex
	addErr := func(list *[]string, msg string) {
		mu.Lock()
		if len(*list) < 10 {
			*list = append(*list, msg)
		}
		mu.Unlock()
	}
	stop := make(chan bool)
	wg := &sync.WaitGroup{}
	var version int64
	listeners := []string{}
	_, ls := d.inst.VerifDaemonState()
	listeners = append(listeners, ls...)
	if len(listeners) == 0 {
		res.Errors = append(res.Errors, "no listener")

		return res
	}
	// the mutator: one new version per step for a few objects of every backend, virtual time moves on
	wg.Add(1)
	go func() {
		defer wg.Done()
		step := 0
		for {
			select {
			case <-stop:
				return
			default:
			}
			step++
			v := atomic.AddInt64(&version, 1)
			now := float64(lmd.VerifNow().Unix())
			for _, b := range d.backends {
				b.Mutate(func(tables map[string]*backend.Table) {
					for _, tname := range []string{"hosts", "services"} {
						t := tables[tname]
						if t == nil {
							continue
						}
						for i, row := range t.Rows {
							if (i+step)%2 == 0 {
								stampHost(row, v)
								row["last_check"] = now
								if _, ok := row["last_update"]; ok {
									row["last_update"] = now
								}
							}
						}
					}
					// comments come and go (the id lists of hosts and services are rebuilt), timeperiods flip
					if ct := tables["comments"]; ct != nil && len(ct.Rows) > 0 && step%7 == 0 {
						tmpl := ct.Rows[0]
						row := map[string]interface{}{}
						for k, val := range tmpl {
							row[k] = val
						}
						row["id"] = float64(100000 + v)
						row["comment"] = fmt.Sprintf("soak %d", v)
						if sv := tables["services"]; sv != nil && len(sv.Rows) > 0 {
							target := sv.Rows[int(v)%len(sv.Rows)]
							row["host_name"] = target["host_name"]
							if v%2 == 0 {
								row["service_description"] = target["description"]
							} else {
								row["service_description"] = ""
							}
						}
						ct.Rows = append(ct.Rows, row)
						if len(ct.Rows) > 6 {
							ct.Rows = append(ct.Rows[:1], ct.Rows[2:]...)
						}
					}
					if tp := tables["timeperiods"]; tp != nil && len(tp.Rows) > 0 && step%11 == 0 {
						cur, _ := tp.Rows[0]["in"].(float64)
						tp.Rows[0]["in"] = 1 - cur
					}
					if spec.Restarts && step%20 == 0 {
						if st := tables["status"]; st != nil && len(st.Rows) > 0 {
							st.Rows[0]["program_start"] = now
						}
						// the restarted core comes back with other contacts: who may see an object changes with the rebuild
						for _, tname := range []string{"hosts", "services"} {
							if t := tables[tname]; t != nil {
								for i, row := range t.Rows {
									if (i+step/20)%2 == 0 {
										row["contacts"] = []interface{}{"alice"}
									} else {
										row["contacts"] = []interface{}{"bob"}
									}
								}
							}
						}
					}
				})
				if spec.Failures && step%25 == 0 {
					bb := b
					b.Mutate(func(_ map[string]*backend.Table) {
						bb.FailAfter = 2
						bb.FailMode = "closeearly"
					})
				}
				if spec.Failures && step%25 == 5 {
					_ = b.SetMode("ok")
				}
			}
			atomic.AddInt64(&res.Mutations, 1)
			lmd.VerifClockAdvance(1)
			time.Sleep(20 * time.Millisecond)
		}
	}()
	// configuration reloads while everything else goes on: an unchanged configuration, and the last connection renamed
	// back and forth (its peer is replaced by a new one that synchronises under the queries)
	if spec.Reloads && len(d.lastConns) > 0 {
		wg.Add(1)
		go func() {
			defer wg.Done()
			n := 0
			for {
				select {
				case <-stop:
					return
				case <-time.After(700 * time.Millisecond):
				}
				n++
				conns := append([]lmd.VerifConn{}, d.lastConns...)
				if n%2 == 1 {
					last := conns[len(conns)-1]
					last.Name += " r"
					conns[len(conns)-1] = last
				}
				d.inst.VerifReload(conns, d.listen_)
				atomic.AddInt64(&res.Reloads, 1)
			}
		}()
	}
	queries := []string{
		"GET hosts\nColumns: peer_key name current_attempt plugin_output long_plugin_output perf_data latency state\nOutputFormat: json\n\n",
		"GET services\nColumns: peer_key host_name description current_attempt plugin_output long_plugin_output perf_data latency state\nOutputFormat: json\n\n",
		"GET hosts\nColumns: peer_key name current_attempt plugin_output long_plugin_output perf_data latency state\nFilter: state >= 0\nSort: name asc\nLimit: 100\nOutputFormat: json\n\n",
		"GET hosts\nStats: state = 0\nStats: state = 1\nStats: state = 2\nStats: state = 3\nStats: sum current_attempt\nOutputFormat: json\n\n",
		"GET hostsbygroup\nColumns: peer_key name current_attempt plugin_output long_plugin_output perf_data latency state\nOutputFormat: json\n\n",
		"GET services\nColumns: peer_key host_name description current_attempt plugin_output long_plugin_output perf_data latency state host_current_attempt host_plugin_output\nOutputFormat: json\n\n",
		// columns of another table that are used by the filter, the sort order or Stats only (not by the column list)
		"GET services\nColumns: description\nFilter: host_current_attempt >= 0\nFilter: host_plugin_output ~ v\nOr: 2\nSort: host_latency desc\nOutputFormat: json\n\n",
		"GET services\nStats: host_state = 0\nStats: sum host_current_attempt\nStats: host_plugin_output ~ ^v\nOutputFormat: json\n\n",
		"GET comments\nColumns: id host_name host_plugin_output service_plugin_output\nFilter: host_current_attempt >= 0\nOutputFormat: json\n\n",
		"GET servicesbygroup\nColumns: servicegroup_name description\nFilter: host_latency >= 0\nStats: host_current_attempt >= 1\nOutputFormat: json\n\n",
		"GET hosts\nColumns: name comments downtimes comments_with_info downtimes_with_info services services_with_state services_with_info\nOutputFormat: json\n\n",
		"GET services\nColumns: description comments comments_with_info host_comments host_comments_with_info\nAuthUser: alice\nOutputFormat: json\n\n",
		"GET comments\nColumns: id host_name service_description comment host_state service_state\nSort: id asc\nOutputFormat: json\n\n",
		// what a contact may see is decided on the same objects that are printed: every row carries the contact
		"GET hosts\nColumns: peer_key name contacts\nAuthUser: alice\nOutputFormat: json\n\n",
		"GET hosts\nColumns: peer_key name contacts\nAuthUser: bob\nOutputFormat: json\n\n",
		"GET services\nColumns: peer_key host_name description contacts host_contacts\nAuthUser: alice\nOutputFormat: json\n\n",
		"GET hostgroups\nColumns: name members members_with_state num_hosts num_services_crit worst_host_state\nOutputFormat: json\n\n",
		"GET hosts\nColumns: name state\nWaitTrigger: all\nWaitCondition: state >= 0\nWaitTimeout: 20\nOutputFormat: json\n\n",
		"GET sites\nColumns: peer_key status last_error\nOutputFormat: json\n\n",
		// the id lists of comments and downtimes are rewritten when an entry comes or goes; no column of another table here
		"GET services\nColumns: description comments downtimes\nFilter: comments >= 1\nOutputFormat: json\n\n",
		"GET services\nStats: comments >= 1\nStats: downtimes >= 1\nOutputFormat: json\n\n",
		"GET hosts\nColumns: name comments downtimes\nFilter: comments != \nOutputFormat: json\n\n",
		// wait requests for objects that do not exist: whatever they take (locks) has to be given back
		"GET hosts\nColumns: name state\nWaitTrigger: all\nWaitObject: no-such-host\nWaitCondition: state >= 0\nWaitTimeout: 20\nOutputFormat: json\n\n",
		"GET services\nColumns: description state\nWaitTrigger: check\nWaitObject: no-such-host;nothing\nWaitCondition: state >= 0\nWaitTimeout: 20\nOutputFormat: json\n\n",
	}
	for c := 0; c < spec.Clients; c++ {
		wg.Add(1)
		go func(c int) {
			defer wg.Done()
			seen := map[string]int64{}
			n := 0
			for {
				select {
				case <-stop:
					return
				default:
				}
				n++
				q := queries[(c+n)%len(queries)]
				body, err := lmd.VerifDial(listeners[(c+n)%len(listeners)], []byte(q), 10*time.Second)
				atomic.AddInt64(&res.Queries, 1)
				if err != nil {
					addErr(&res.Errors, "dial: "+err.Error())

					continue
				}
				var rows [][]interface{}
				if jErr := json.Unmarshal(body, &rows); jErr != nil {
					if !strings.HasPrefix(string(body), "[") {
						// an error text (e.g. all backends down) is an answer, not a violation
						continue
					}
					addErr(&res.Errors, "answer is not JSON: "+string(body[:minInt(len(body), 200)]))

					continue
				}
				if strings.Contains(q, " contacts") && strings.Contains(q, "AuthUser: ") {
					user := strings.TrimSpace(strings.SplitN(strings.SplitN(q, "AuthUser: ", 2)[1], "\n", 2)[0])
					for _, row := range rows {
						atomic.AddInt64(&res.Rows, 1)
						found := false
						for _, cell := range row[2:] {
							if list, ok := cell.([]interface{}); ok {
								for _, c := range list {
									if c == user {
										found = true
									}
								}
							}
						}
						if !found {
							enc, _ := json.Marshal(row)
							addErr(&res.Torn, fmt.Sprintf("returned for AuthUser %s although the contacts printed in the same row do not name the user: %s", user, string(enc)))
						}
					}

					continue
				}
				if strings.Contains(q, "Stats:") || !strings.Contains(q, "long_plugin_output perf_data latency state") {
					continue
				}
				koff := 2
				if strings.HasPrefix(q, "GET services") {
					koff = 3
				}
				for _, row := range rows {
					atomic.AddInt64(&res.Rows, 1)
					if len(row) < koff+6 {
						continue
					}
					attempt, _ := row[koff].(float64)
					po, _ := row[koff+1].(string)
					lpo, _ := row[koff+2].(string)
					perf, _ := row[koff+3].(string)
					lat, _ := row[koff+4].(float64)
					if !strings.HasPrefix(po, "v") {
						continue // the object has not been stamped yet
					}
					v, pErr := strconv.ParseInt(po[1:], 10, 64)
					if pErr != nil {
						continue
					}
					if lpo != fmt.Sprintf("long v%d", v) || perf != fmt.Sprintf("version=%d", v) || int64(attempt) != v%100000 || lat != float64(v)+0.5 {
						enc, _ := json.Marshal(row)
						addErr(&res.Torn, string(enc))
					}
					key := fmt.Sprintf("%d|%v", koff, row[:koff])
					if old, ok := seen[key]; ok && v < old {
						addErr(&res.Backward, fmt.Sprintf("%s went from version %d back to %d", key, old, v))
					}
					seen[key] = v
					if v > atomic.LoadInt64(&res.Versions) {
						atomic.StoreInt64(&res.Versions, v)
					}
				}
			}
		}(c)
	}
	time.Sleep(time.Duration(spec.DurationMS) * time.Millisecond)
	close(stop)
	wg.Wait()

	return res
}

func minInt(a, b int) int {
	if a < b {
		return a
	}

	return b
}
