package main

import (
	"bufio"
	"encoding/json"
	"fmt"
	"os"
	"time"

	"pkg/lmd"
)

func extra(cmd string, _ []string) {
	fmt.Fprintln(os.Stderr, "unknown command", cmd)
	os.Exit(2)
}

func extraOp(out *bufio.Writer, inst **lmd.VerifInstance, op string, line opLine) bool {
	switch op {
	case "session":
		if *inst == nil {
			emit(out, map[string]interface{}{"id": line.ID, "op": "session", "error": "no dataset"})

			return true
		}
		fmt.Fprintf(os.Stderr, "@start %d\n", line.ID)
		scratch := os.Getenv("VERIF_SCRATCH")
		if scratch == "" {
			scratch = fmt.Sprintf("/scratch/lmdharness-%d", os.Getpid())
		}
		res, timedOut, err := (*inst).VerifSession([]byte(line.Text), scratch+"-sock", 5*time.Second)
		errStr := ""
		if err != nil {
			errStr = err.Error()
		}
		emit(out, map[string]interface{}{"id": line.ID, "op": "session", "out": string(res), "timeout": timedOut, "err": errStr})

		return true
	case "redistribute":
		var spec struct {
			Online   []bool   `json:"online"`
			Own      int      `json:"own"`
			Backends []string `json:"backends"`
			Previous []string `json:"previous"`
		}
		if err := json.Unmarshal([]byte(line.Text), &spec); err != nil {
			emit(out, map[string]interface{}{"id": line.ID, "op": "redistribute", "error": err.Error()})

			return true
		}
		nb, ours, panicked := lmd.VerifRedistribute(spec.Online, spec.Own, spec.Backends, spec.Previous)
		emit(out, map[string]interface{}{"id": line.ID, "op": "redistribute", "node_backends": nb, "ours": ours, "panic": panicked})

		return true
	default:
		return false
	}
}
