package main

import (
	"bufio"
	"encoding/json"
	"fmt"
	"os"
	"strings"
	"sync"
	"time"

	"pkg/lmd"
)

func extra(cmd string, _ []string) {
	fmt.Fprintln(os.Stderr, "unknown command", cmd)
	os.Exit(2)
}

func extraOp(out *bufio.Writer, inst **lmd.VerifInstance, op string, line opLine) bool {
	switch op {
	case "session", "cmdsession":
		if *inst == nil {
			emit(out, map[string]interface{}{"id": line.ID, "op": op, "error": "no dataset"})

			return true
		}
		fmt.Fprintf(os.Stderr, "@start %d\n", line.ID)
		scratch := os.Getenv("VERIF_SCRATCH")
		if scratch == "" {
			scratch = fmt.Sprintf("/scratch/lmdharness-%d", os.Getpid())
		}
		// what happens around a sender that waits: step i of a peer runs 500ms + i seconds after the start
		envDone := &sync.WaitGroup{}
		for peerID, steps := range line.Env {
			envDone.Add(1)
			go func(peerID string, steps []string) {
				defer envDone.Done()
				start := time.Now()
				for i, step := range steps {
					time.Sleep(time.Until(start.Add(500*time.Millisecond + time.Duration(i)*time.Second)))
					switch {
					case step == "tick":
						if curWorld != nil {
							curWorld.inst.VerifPeerTick(peerID)
						}
					case strings.HasPrefix(step, "tick+mode:"):
						if curWorld != nil {
							curWorld.inst.VerifPeerTick(peerID)
							if curWorld.backends[peerID] != nil {
								_ = curWorld.backends[peerID].SetMode(step[10:])
							}
						}
					case strings.HasPrefix(step, "mode:"):
						if curWorld != nil && curWorld.backends[peerID] != nil {
							_ = curWorld.backends[peerID].SetMode(step[5:])
						}
					}
				}
			}(peerID, steps)
		}
		timeout := 5 * time.Second
		if line.Timeout > 0 {
			timeout = time.Duration(line.Timeout * float64(time.Second))
		}
		res, timedOut, err := (*inst).VerifSession([]byte(line.Text), scratch+"-sock", timeout)
		envDone.Wait()
		errStr := ""
		if err != nil {
			errStr = err.Error()
		}
		emit(out, map[string]interface{}{"id": line.ID, "op": op, "out": string(res), "timeout": timedOut, "err": errStr})

		return true
	case "sleep":
		time.Sleep(time.Duration(line.Timeout * float64(time.Second)))
		emit(out, map[string]interface{}{"id": line.ID, "op": op, "ok": true})

		return true
	case "locks":
		if *inst == nil {
			emit(out, map[string]interface{}{"id": line.ID, "op": op, "error": "no dataset"})

			return true
		}
		tables, err := (*inst).VerifAffectedTables(line.Text)
		if err != nil {
			emit(out, map[string]interface{}{"id": line.ID, "op": op, "bad": err.Error()})

			return true
		}
		emit(out, map[string]interface{}{"id": line.ID, "op": op, "affected": tables})

		return true
	case "redistribute":
		var spec struct {
			Online   []bool   `json:"online"`
			Own      int      `json:"own"`
			Backends []string `json:"backends"`
			Previous []string `json:"previous"`
		}
		if err := json.Unmarshal([]byte(line.Text), &spec); err != nil {
			emit(out, map[string]interface{}{"id": line.ID, "op": "redistribute", "error": err.Error()})

			return true
		}
		nb, ours, panicked := lmd.VerifRedistribute(spec.Online, spec.Own, spec.Backends, spec.Previous)
		emit(out, map[string]interface{}{"id": line.ID, "op": "redistribute", "node_backends": nb, "ours": ours, "panic": panicked})

		return true
	default:
		return false
	}
}
