package main

import (
	"bufio"
	"fmt"
	"os"

	"pkg/lmd"
)

func extra(cmd string, _ []string) {
	fmt.Fprintln(os.Stderr, "unknown command", cmd)
	os.Exit(2)
}

func extraOp(_ *bufio.Writer, _ **lmd.VerifInstance, _ string, _ opLine) bool {
	return false
}
