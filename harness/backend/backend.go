// Package backend is a scripted Livestatus backend for the verification harness: a unix-socket
// server with its own small request parser and evaluator (independent of lmd's), whose object set
// is mutated by the harness between steps, which logs every request it receives and which can be
// switched to refuse connections, reply garbage, truncate replies or fail after n queries.
package backend

import (
	"bufio"
	"encoding/json"
	"fmt"
	"net"
	"os"
	"regexp"
	"sort"
	"strconv"
	"strings"
	"sync"
	"time"
)

// Table is one table of the backend: the columns it knows and its rows.
type Table struct {
	Cols []string                 `json:"cols"`
	Rows []map[string]interface{} `json:"rows"`
}

// Backend is one scripted Livestatus server.
type Backend struct {
	mu            sync.Mutex
	ID            string
	Path          string
	Tables        map[string]*Table
	Mode          string // ok | refuse | garbage | badheader | truncate | wrongwidth | error500 | closeearly
	FailAfter     int    // answer this many more queries, then switch to FailMode (-1: never)
	FailMode      string
	Log           []string   // every request text received
	Replies       []Reply    // what was answered to Log[i] (Code 0: nothing usable was sent)
	Commands      []string   // every command line received
	Batches       [][]string // the commands received, one list per connection
	connSeq       int
	takenBatches  [][]string
	takenReplies  []Reply
	CmdReply      string // reply to commands ("" = none)
	FailTable     string // the next request for this table is answered like FailTableMode (once), whatever the order of the requests
	FailTableMode string
	FailTableHits int
	RawStrings    bool // texts are written byte by byte like a core does (see rawJSON)
	ResetCmd      bool // a closing backend (closeearly) drops a command's connection with unread bytes queued: the sender reads ECONNRESET, not EOF
	Queries       int
	listener      net.Listener
	Now           func() time.Time
	conns         map[net.Conn]bool
}

// Reply is what the backend answered to one request.
type Reply struct {
	Code int     `json:"code"`
	Body *string `json:"body"`
}

// New creates a backend listening on path.
func New(id, path string, now func() time.Time) (*Backend, error) {
	b := &Backend{ID: id, Path: path, Tables: map[string]*Table{}, Mode: "ok", FailAfter: -1, Now: now, conns: map[net.Conn]bool{}}
	if err := b.listen(); err != nil {
		return nil, err
	}

	return b, nil
}

func (b *Backend) listen() error {
	_ = os.Remove(b.Path)
	l, err := net.Listen("unix", b.Path)
	if err != nil {
		return err
	}
	b.listener = l
	go b.acceptLoop(l)

	return nil
}

// SetMode switches the failure mode; "refuse" closes the listener (connection refused), anything else re-opens it.
func (b *Backend) SetMode(mode string) error {
	b.mu.Lock()
	defer b.mu.Unlock()
	if mode == "refuse" {
		if b.listener != nil {
			b.listener.Close()
			b.listener = nil
			_ = os.Remove(b.Path)
		}
		for c := range b.conns {
			c.Close()
		}
		b.conns = map[net.Conn]bool{}
		b.Mode = mode

		return nil
	}
	b.Mode = mode
	if b.listener == nil {
		return b.listen()
	}

	return nil
}

// Close stops the backend.
func (b *Backend) Close() {
	b.mu.Lock()
	defer b.mu.Unlock()
	if b.listener != nil {
		b.listener.Close()
		b.listener = nil
	}
	for c := range b.conns {
		c.Close()
	}
	_ = os.Remove(b.Path)
}

func (b *Backend) acceptLoop(l net.Listener) {
	for {
		conn, err := l.Accept()
		if err != nil {
			return
		}
		b.mu.Lock()
		b.conns[conn] = true
		b.mu.Unlock()
		go b.serve(conn)
	}
}

func (b *Backend) serve(conn net.Conn) {
	defer func() {
		conn.Close()
		b.mu.Lock()
		delete(b.conns, conn)
		b.mu.Unlock()
	}()
	rd := bufio.NewReader(conn)
	b.mu.Lock()
	b.connSeq++
	cid := b.connSeq
	bytewise := b.ResetCmd
	b.mu.Unlock()
	batch := -1
	readLine := func() (string, error) {
		if !bytewise {
			return rd.ReadString('\n')
		}
		// nothing is read ahead: what the backend did not ask for stays queued in the socket
		var sb strings.Builder
		one := make([]byte, 1)
		for {
			n, err := conn.Read(one)
			if n == 1 {
				sb.WriteByte(one[0])
				if one[0] == '\n' {
					return sb.String(), nil
				}
			}
			if err != nil {
				return sb.String(), err
			}
		}
	}
	for {
		lines := []string{}
		for {
			_ = conn.SetReadDeadline(time.Now().Add(30 * time.Second))
			line, err := readLine()
			line = strings.TrimRight(line, "\r\n")
			if bytewise && err == nil && len(lines) == 0 && strings.HasPrefix(line, "COMMAND ") {
				// the command line is all this backend reads before it decides
				if !b.handle(conn, []string{line}, cid, &batch) {
					time.Sleep(100 * time.Millisecond) // the rest of the request arrives and stays unread

					return
				}

				continue
			}
			if err != nil {
				if line != "" {
					lines = append(lines, line)
				}
				if len(lines) == 0 {
					return
				}

				break
			}
			if line == "" {
				if len(lines) == 0 {
					continue
				}

				break
			}
			lines = append(lines, line)
		}
		keep := b.handle(conn, lines, cid, &batch)
		if !keep {
			return
		}
	}
}

type request struct {
	table     string
	columns   []string
	filters   []*node
	stats     []*stat
	limit     int
	fixed16   bool
	keepalive bool
	authuser  string
	command   string
}

type node struct {
	col, op, val string
	isAnd        bool
	kids         []*node
	neg          bool
}

type stat struct {
	agg string // "" = counter
	col string
	f   *node
}

func parse(lines []string) (*request, error) {
	req := &request{limit: -1}
	first := lines[0]
	switch {
	case strings.HasPrefix(first, "GET "):
		req.table = strings.TrimSpace(first[4:])
	case strings.HasPrefix(first, "COMMAND "):
		req.command = first

		return req, nil
	default:
		return nil, fmt.Errorf("bad request: %s", first)
	}
	statsStack := []*stat{}
	for _, line := range lines[1:] {
		parts := strings.SplitN(line, ":", 2)
		if len(parts) != 2 {
			return nil, fmt.Errorf("bad header: %s", line)
		}
		key, val := parts[0], strings.TrimLeft(parts[1], " ")
		switch key {
		case "Columns":
			req.columns = strings.Fields(val)
		case "Filter":
			n, err := parseLeaf(val)
			if err != nil {
				return nil, err
			}
			req.filters = append(req.filters, n)
		case "And", "Or":
			k, err := strconv.Atoi(val)
			if err != nil || k < 0 || k > len(req.filters) {
				return nil, fmt.Errorf("bad %s", line)
			}
			if k == 0 {
				continue
			}
			grp := &node{isAnd: key == "And", kids: append([]*node{}, req.filters[len(req.filters)-k:]...)}
			req.filters = append(req.filters[:len(req.filters)-k], grp)
		case "Negate":
			if len(req.filters) == 0 {
				return nil, fmt.Errorf("nothing to negate")
			}
			req.filters[len(req.filters)-1].neg = !req.filters[len(req.filters)-1].neg
		case "Stats":
			f := strings.SplitN(val, " ", 2)
			switch strings.ToLower(f[0]) {
			case "sum", "min", "max", "avg":
				if len(f) < 2 {
					return nil, fmt.Errorf("bad stats: %s", line)
				}
				statsStack = append(statsStack, &stat{agg: strings.ToLower(f[0]), col: strings.TrimSpace(f[1])})
			default:
				n, err := parseLeaf(val)
				if err != nil {
					return nil, err
				}
				statsStack = append(statsStack, &stat{f: n})
			}
		case "StatsAnd", "StatsOr":
			k, err := strconv.Atoi(val)
			if err != nil || k <= 0 || k > len(statsStack) {
				return nil, fmt.Errorf("bad %s", line)
			}
			grp := &node{isAnd: key == "StatsAnd"}
			for _, s := range statsStack[len(statsStack)-k:] {
				if s.f == nil {
					return nil, fmt.Errorf("cannot group aggregates")
				}
				grp.kids = append(grp.kids, s.f)
			}
			statsStack = append(statsStack[:len(statsStack)-k], &stat{f: grp})
		case "StatsNegate":
			if len(statsStack) == 0 || statsStack[len(statsStack)-1].f == nil {
				return nil, fmt.Errorf("nothing to negate")
			}
			statsStack[len(statsStack)-1].f.neg = !statsStack[len(statsStack)-1].f.neg
		case "Limit":
			k, err := strconv.Atoi(val)
			if err != nil {
				return nil, fmt.Errorf("bad limit")
			}
			req.limit = k
		case "ResponseHeader":
			req.fixed16 = val == "fixed16"
		case "KeepAlive":
			req.keepalive = val == "on"
		case "AuthUser":
			req.authuser = val
		case "OutputFormat", "ColumnHeaders", "Localtime", "Backends", "Sort", "Offset":
		default:
			return nil, fmt.Errorf("unknown header: %s", line)
		}
	}
	req.stats = statsStack

	return req, nil
}

func parseLeaf(val string) (*node, error) {
	f := strings.SplitN(val, " ", 3)
	if len(f) < 2 {
		return nil, fmt.Errorf("bad filter: %s", val)
	}
	n := &node{col: f[0], op: f[1]}
	if len(f) == 3 {
		n.val = strings.TrimSpace(f[2])
	}

	return n, nil
}

func toFloat(v interface{}) (float64, bool) {
	switch x := v.(type) {
	case float64:
		return x, true
	case int:
		return float64(x), true
	case int64:
		return float64(x), true
	case bool:
		if x {
			return 1, true
		}

		return 0, true
	}

	return 0, false
}

func toString(v interface{}) string {
	switch x := v.(type) {
	case string:
		return x
	case nil:
		return ""
	case float64:
		return strconv.FormatFloat(x, 'f', -1, 64)
	}

	return fmt.Sprintf("%v", v)
}

func matchLeaf(n *node, row map[string]interface{}) (bool, error) {
	v, ok := row[n.col]
	if !ok {
		return false, fmt.Errorf("no column %s", n.col)
	}
	if list, isList := v.([]interface{}); isList {
		switch n.op {
		case ">=":
			for _, e := range list {
				if toString(e) == n.val {
					return true, nil
				}
			}

			return false, nil
		case "!>=", "<=":
			for _, e := range list {
				if toString(e) == n.val {
					return false, nil
				}
			}

			return true, nil
		case "=":
			return n.val == "" && len(list) == 0, nil
		case "!=":
			return n.val == "" && len(list) != 0, nil
		}

		return false, nil
	}
	if num, isNum := toFloat(v); isNum {
		if n.val == "" {
			return n.op == "!=" || n.op == ">" || n.op == ">=", nil
		}
		rhs, err := strconv.ParseFloat(n.val, 64)
		if err == nil {
			switch n.op {
			case "=":
				return num == rhs, nil
			case "!=":
				return num != rhs, nil
			case "<":
				return num < rhs, nil
			case "<=":
				return num <= rhs, nil
			case ">":
				return num > rhs, nil
			case ">=":
				return num >= rhs, nil
			}
		}
	}
	s := toString(v)
	switch n.op {
	case "=":
		return s == n.val, nil
	case "!=":
		return s != n.val, nil
	case "<":
		return s < n.val, nil
	case "<=":
		return s <= n.val, nil
	case ">":
		return s > n.val, nil
	case ">=":
		return s >= n.val, nil
	case "=~":
		return strings.EqualFold(s, n.val), nil
	case "!=~":
		return !strings.EqualFold(s, n.val), nil
	case "~", "!~", "~~", "!~~":
		pat := n.val
		if strings.Contains(n.op, "~~") {
			pat = "(?i)" + pat
		}
		re, err := regexp.Compile(pat)
		if err != nil {
			return false, err
		}
		m := re.MatchString(s)
		if strings.HasPrefix(n.op, "!") {
			m = !m
		}

		return m, nil
	}

	return false, fmt.Errorf("unsupported operator %s", n.op)
}

func match(n *node, row map[string]interface{}) (bool, error) {
	var res bool
	if n.kids != nil {
		res = n.isAnd
		for _, k := range n.kids {
			m, err := match(k, row)
			if err != nil {
				return false, err
			}
			if n.isAnd && !m {
				res = false

				break
			}
			if !n.isAnd && m {
				res = true

				break
			}
		}
	} else {
		m, err := matchLeaf(n, row)
		if err != nil {
			return false, err
		}
		res = m
	}
	if n.neg {
		return !res, nil
	}

	return res, nil
}

// Answer evaluates a parsed request on the current object set.
func (b *Backend) answer(req *request) (code int, body []byte) {
	tab, ok := b.Tables[req.table]
	if !ok {
		return 404, []byte(fmt.Sprintf("Table '%s' does not exist.", req.table))
	}
	known := map[string]bool{}
	for _, c := range tab.Cols {
		known[c] = true
	}
	cols := req.columns
	if len(cols) == 0 && len(req.stats) == 0 {
		cols = tab.Cols
	}
	for _, c := range cols {
		if !known[c] {
			return 400, []byte(fmt.Sprintf("Table '%s' has no column '%s'", req.table, c))
		}
	}
	rows := []map[string]interface{}{}
	for _, row := range tab.Rows {
		full := b.virtualCols(req.table, row)
		keep := true
		for _, f := range req.filters {
			m, err := match(f, full)
			if err != nil {
				return 400, []byte(err.Error())
			}
			if !m {
				keep = false

				break
			}
		}
		if keep {
			rows = append(rows, full)
		}
	}
	out := [][]interface{}{}
	if len(req.stats) > 0 {
		groups := map[string][]map[string]interface{}{}
		order := []string{}
		for _, row := range rows {
			keyParts := []string{}
			for _, c := range cols {
				keyParts = append(keyParts, toString(row[c]))
			}
			key := strings.Join(keyParts, "\x00")
			if _, ok := groups[key]; !ok {
				order = append(order, key)
			}
			groups[key] = append(groups[key], row)
		}
		if len(cols) == 0 && len(order) == 0 {
			order = append(order, "")
			groups[""] = nil
		}
		sort.Strings(order)
		for _, key := range order {
			grp := groups[key]
			line := []interface{}{}
			if len(cols) > 0 && len(grp) > 0 {
				for _, c := range cols {
					line = append(line, grp[0][c])
				}
			}
			for _, s := range req.stats {
				val := 0.0
				cnt := 0
				for _, row := range grp {
					if s.agg == "" {
						m, err := match(s.f, row)
						if err != nil {
							return 400, []byte(err.Error())
						}
						if m {
							val++
						}

						continue
					}
					num, _ := toFloat(row[s.col])
					switch s.agg {
					case "sum", "avg":
						val += num
					case "min":
						if cnt == 0 || num < val {
							val = num
						}
					case "max":
						if cnt == 0 || num > val {
							val = num
						}
					}
					cnt++
				}
				if s.agg == "avg" && cnt > 0 {
					val /= float64(cnt)
				}
				line = append(line, val)
			}
			out = append(out, line)
		}
	} else {
		for _, row := range rows {
			if req.limit >= 0 && len(out) >= req.limit {
				break
			}
			line := make([]interface{}, len(cols))
			for i, c := range cols {
				line[i] = row[c]
			}
			out = append(out, line)
		}
	}
	if b.Mode == "wrongwidth" && len(out) > 0 {
		out[len(out)-1] = append(out[len(out)-1], "extra")
	}
	var sb strings.Builder
	sb.WriteString("[")
	for i, line := range out {
		if i > 0 {
			sb.WriteString(",\n")
		}
		if b.RawStrings {
			rawJSON(&sb, line)

			continue
		}
		enc, err := json.Marshal(line)
		if err != nil {
			return 500, []byte(err.Error())
		}
		sb.Write(enc)
	}
	sb.WriteString("]\n")

	return 200, []byte(sb.String())
}

// rawJSON writes a value the way the cores do: a text is its bytes between quotes, only the quote and the backslash are
// escaped - control bytes and bytes that are not UTF-8 go out as they are (U+E080..U+E0FF stands for the byte 0x80..0xFF).
func rawJSON(sb *strings.Builder, v interface{}) {
	switch val := v.(type) {
	case string:
		sb.WriteByte('"')
		for _, r := range val {
			switch {
			case r == '"' || r == '\\':
				sb.WriteByte('\\')
				sb.WriteRune(r)
			case r >= 0xE080 && r <= 0xE0FF:
				sb.WriteByte(byte(r - 0xE000))
			default:
				sb.WriteRune(r)
			}
		}
		sb.WriteByte('"')
	case []interface{}:
		sb.WriteByte('[')
		for i, e := range val {
			if i > 0 {
				sb.WriteByte(',')
			}
			rawJSON(sb, e)
		}
		sb.WriteByte(']')
	default:
		enc, err := json.Marshal(v)
		if err != nil {
			sb.WriteString("null")

			return
		}
		sb.Write(enc)
	}
}

// virtualCols adds computed columns (localtime, lmd_last_cache_update) to a row view.
func (b *Backend) virtualCols(table string, row map[string]interface{}) map[string]interface{} {
	if table != "status" {
		return row
	}
	full := make(map[string]interface{}, len(row)+1)
	for k, v := range row {
		full[k] = v
	}
	if _, ok := full["localtime"]; ok {
		full["localtime"] = float64(b.Now().Unix())
	}

	return full
}

func (b *Backend) handle(conn net.Conn, lines []string, _ int, batch *int) (keep bool) {
	b.mu.Lock()
	defer b.mu.Unlock()
	text := strings.Join(lines, "\n")
	b.Log = append(b.Log, text)
	b.Replies = append(b.Replies, Reply{})
	replyIdx := len(b.Replies) - 1
	mode := b.Mode
	if b.FailAfter == 0 {
		mode = b.FailMode
		b.Mode = b.FailMode
		b.FailAfter = -1
	} else if b.FailAfter > 0 {
		b.FailAfter--
	}
	b.Queries++
	req, err := parse(lines)
	if err != nil {
		writeReply(conn, true, 400, []byte(err.Error()+"\n"))

		return false
	}
	if req.command == "" && b.FailTable != "" && req.table == b.FailTable && mode == "ok" {
		mode = b.FailTableMode
		b.FailTable = ""
		b.FailTableHits++
	}
	if req.command != "" {
		b.Commands = append(b.Commands, req.command)
		if *batch < 0 {
			b.Batches = append(b.Batches, nil)
			*batch = len(b.Batches) - 1
		}
		if *batch < len(b.Batches) {
			b.Batches[*batch] = append(b.Batches[*batch], req.command)
		}
		switch mode {
		case "closeearly", "refuse":
			return false
		}
		if b.CmdReply != "" {
			_, _ = conn.Write([]byte(b.CmdReply + "\n"))
		}

		// like the core: further commands may follow on the same connection
		return true
	}
	switch mode {
	case "closeearly", "refuse":
		return false
	case "garbage":
		_, _ = conn.Write([]byte("this is not livestatus <html>\x00\x01\n"))

		return false
	case "badheader":
		_, _ = conn.Write([]byte("200 abcdefghijk\n[]\n"))

		return false
	case "error500":
		writeReply(conn, req.fixed16, 500, []byte("internal error\n"))

		return false
	}
	code, body := b.answer(req)
	if mode == "truncate" {
		full := body
		if len(full) > 4 {
			body = full[:len(full)/2]
		} else if len(full) > 0 {
			body = full[:len(full)-1]
		}
		if req.fixed16 {
			_, _ = fmt.Fprintf(conn, "%d %11d\n", code, len(full))
			_, _ = conn.Write(body)
		} else {
			_, _ = conn.Write(body)
		}

		return false
	}
	if mode == "badjson" {
		body = []byte("[[\"unterminated\", 1, \n")
	} else if replyIdx < len(b.Replies) {
		txt := string(body)
		b.Replies[replyIdx] = Reply{Code: code, Body: &txt}
	}
	writeReply(conn, req.fixed16, code, body)

	return req.keepalive
}

func writeReply(conn net.Conn, fixed16 bool, code int, body []byte) {
	if fixed16 {
		_, _ = fmt.Fprintf(conn, "%d %11d\n", code, len(body))
	}
	_, _ = conn.Write(body)
}

// Mutate applies one change to the object set under the lock.
func (b *Backend) Mutate(fn func(tables map[string]*Table)) {
	b.mu.Lock()
	defer b.mu.Unlock()
	fn(b.Tables)
}

// TakeLog returns and clears the request log.
func (b *Backend) TakeLog() (log []string, commands []string) {
	b.mu.Lock()
	defer b.mu.Unlock()
	log, commands = b.Log, b.Commands
	b.takenReplies = b.Replies
	b.Log, b.Commands, b.Replies = nil, nil, nil
	b.takenBatches = b.Batches
	b.Batches = nil

	return
}

// TakenBatches returns the per-connection command batches removed by the last TakeLog.
func (b *Backend) TakenBatches() [][]string {
	b.mu.Lock()
	defer b.mu.Unlock()
	if b.takenBatches == nil {
		return [][]string{}
	}

	return b.takenBatches
}

// TakenReplies returns the replies removed by the last TakeLog (parallel to the returned log).
func (b *Backend) TakenReplies() []Reply {
	b.mu.Lock()
	defer b.mu.Unlock()
	if b.takenReplies == nil {
		return []Reply{}
	}

	return b.takenReplies
}
