module lmdharness

go 1.23.0

require pkg/lmd v0.0.0-00010101000000-000000000000

require (
	github.com/BurntSushi/toml v1.5.0 // indirect
	github.com/OneOfOne/xxhash v1.2.8 // indirect
	github.com/SaveTheRbtz/generic-sync-map-go v0.0.0-20230201052002-6c5833b989be // indirect
	github.com/a8m/djson v0.0.0-20170509170705-c02c5aef757f // indirect
	github.com/beorn7/perks v1.0.1 // indirect
	github.com/buger/jsonparser v1.1.1 // indirect
	github.com/cespare/xxhash/v2 v2.3.0 // indirect
	github.com/json-iterator/go v1.1.12 // indirect
	github.com/julienschmidt/httprouter v1.3.0 // indirect
	github.com/kdar/factorlog v0.0.0-20211012144011-6ea75a169038 // indirect
	github.com/klauspost/compress v1.18.0 // indirect
	github.com/lkarlslund/stringdedup v0.6.2 // indirect
	github.com/mattn/go-colorable v0.1.14 // indirect
	github.com/mattn/go-isatty v0.0.20 // indirect
	github.com/mgutz/ansi v0.0.0-20200706080929-d51e80ef957d // indirect
	github.com/modern-go/concurrent v0.0.0-20180306012644-bacd9c7ef1dd // indirect
	github.com/modern-go/reflect2 v1.0.2 // indirect
	github.com/munnerz/goautoneg v0.0.0-20191010083416-a7dc8b61c822 // indirect
	github.com/petermattis/goid v0.0.0-20250319124200-ccd6737f222a // indirect
	github.com/prometheus/client_golang v1.22.0 // indirect
	github.com/prometheus/client_model v0.6.2 // indirect
	github.com/prometheus/common v0.63.0 // indirect
	github.com/prometheus/procfs v0.16.0 // indirect
	github.com/sasha-s/go-deadlock v0.3.5 // indirect
	go4.org/unsafe/assume-no-moving-gc v0.0.0-20231121144256-b99613f794b6 // indirect
	golang.org/x/sys v0.32.0 // indirect
	google.golang.org/protobuf v1.36.6 // indirect
)

replace pkg/lmd => /repo/pkg/lmd
