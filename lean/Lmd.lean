import Lmd.Basic
import Lmd.Regex
import Lmd.Filter
import Lmd.Parse
import Lmd.Store
import Lmd.Query
import Lmd.Stats
import Lmd.Render
