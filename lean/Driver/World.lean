/-
  Driver.World — the line-protocol side of the peer / scripted-backend model (Lmd.Peer, Lmd.PeerLoop).
-/
import Lmd.PeerLoop
import Lmd.Commands
import Driver.Ops

open Lean (Json)
open Lmd

namespace Driver

structure PeerEntry where
  id : String
  name : String
  p : PeerSt
  b : BackendSt
  cb : CmdBackend := {}
  gen : Nat := 0                      -- identity of the Peer object (a fresh number for every NewPeer)
  specSources : List String := []     -- the connection as configured (`Connection.Equals` compares these)
  specFlags : List String := []
  deriving Inhabited

structure WState where
  w : World
  now : Int
  peers : List PeerEntry
  listeners : List String := []
  nextGen : Nat := 0
  deriving Inhabited

def parseCfg (j : Json) : Cfg :=
  let g := fun (k : String) (d : Int) => let v := jNat j k; if v == 0 then d else (v : Int)
  { updateInterval := g "update_interval" 7, fullUpdateInterval := g "full_update_interval" 0,
    staleTimeout := g "stale_backend_timeout" 30, idleTimeout := g "idle_timeout" 120, idleInterval := g "idle_interval" 1800,
    updateOffset := g "update_offset" 3,
    syncIsExecuting := match (j.getObjVal? "sync_is_executing").toOption with | some (.bool b) => b | _ => true }

def parseAddr (s : String) : Addr := if s == "self" then .self else .dead

def parseWorld (schema : Schema) (now : Int) (j : Json) : WState :=
  let peers := (jArr j "backends").map fun bj =>
    let tables := (jFields (jObj bj "tables")).map fun (name, tj) =>
      (name, (jArr tj "rows").map fun row => (jFields row))
    let cols := (jFields (jObj bj "tables")).map fun (name, tj) => (name, jStrs tj "cols")
    let srcs := (jStrs bj "sources").map parseAddr
    let srcs := if srcs.isEmpty then [Addr.self] else srcs
    let name := jStr bj "name"
    let icinga := (jStrs bj "flags").any (fun f => goLower f == "icinga2")
    { id := jStr bj "id", name := if name == "" then "Backend " ++ jStr bj "id" else name,
      p := { sources := srcs, addr := srcs.headD .self, flags := if icinga then flagBit schema "Icinga2" else 0,
             cfgFlags := if icinga then flagBit schema "Icinga2" else 0 },
      b := { tables := tables, cols := cols } : PeerEntry }
  { w := { cfg := parseCfg (jObj j "config"), schema := schema, mainRestart := now }, now := now, peers := peers }

/-- a new peer for a configured connection (`NewPeer`), wired to the given object set -/
def freshEntry (schema : Schema) (gen : Nat) (id name : String) (sources flags : List String)
    (tables : List (String × List ReplyRow)) (cols : List (String × List String)) : PeerEntry :=
  let srcs := sources.map fun s => if s == "dead" then Addr.dead else Addr.self
  let srcs := if srcs.isEmpty then [Addr.self] else srcs
  let icinga := flags.any (fun f => goLower f == "icinga2")
  { id := id, name := if name == "" then "Backend " ++ id else name, gen := gen, specSources := sources, specFlags := flags,
    p := { sources := srcs, addr := srcs.headD .self, flags := if icinga then flagBit schema "Icinga2" else 0,
           cfgFlags := if icinga then flagBit schema "Icinga2" else 0 },
    b := { tables := tables, cols := cols } }

def backendTables (bj : Json) : List (String × List ReplyRow) × List (String × List String) :=
  ((jFields (jObj bj "tables")).map fun (name, tj) => (name, (jArr tj "rows").map fun row => (jFields row)),
   (jFields (jObj bj "tables")).map fun (name, tj) => (name, jStrs tj "cols"))

/-- `initializePeers` on a reload: a connection whose settings are unchanged keeps its peer (object, cache, counters),
    every other configured connection gets a new peer that is synchronised from its source; peers of connections that
    are gone are dropped; the order is the order of the configuration -/
def reloadPeers (schema : Schema) (ws : WState) (conns : List Json) : WState :=
  let step := fun (acc : List PeerEntry × Nat) (cj : Json) =>
    let (out, gen) := acc
    let id := jStr cj "id"
    let name := if jStr cj "name" == "" then "Backend " ++ id else jStr cj "name"
    let sources := jStrs cj "sources"
    let flags := jStrs cj "flags"
    match ws.peers.find? (·.id == id) with
    | some old =>
      if old.name == name && old.specSources == sources && old.specFlags == flags then (out ++ [old], gen)
      else
        -- the object set behind the (new) source
        let (tables, cols) :=
          match sources.head? with
          | some s =>
            if s.startsWith "other:" then
              match ws.peers.find? (·.id == (s.drop 6).toString) with
              | some o => (o.b.tables, o.b.cols)
              | none => (old.b.tables, old.b.cols)
            else (old.b.tables, old.b.cols)
          | none => (old.b.tables, old.b.cols)
        let e := freshEntry schema gen id name sources flags tables cols
        let e := { e with b := { e.b with mode := if sources.head? == some "dead" then "refuse" else "ok" } }
        let r := initAllTables ws.w ws.now e.p e.b
        (out ++ [{ e with p := r.p, b := r.b }], gen + 1)
    | none =>
      let (tables, cols) :=
        match sources.head? with
        | some s =>
          if s.startsWith "other:" then
            match ws.peers.find? (·.id == (s.drop 6).toString) with
            | some o => (o.b.tables, o.b.cols)
            | none => backendTables cj
          else backendTables cj
        | none => backendTables cj
      let e := freshEntry schema gen id name sources flags tables cols
      let e := { e with b := { e.b with mode := if sources.head? == some "dead" then "refuse" else "ok" } }
      let r := initAllTables ws.w ws.now e.p e.b
      (out ++ [{ e with p := r.p, b := r.b }], gen + 1)
  let (peers, gen) := conns.foldl step ([], ws.nextGen)
  { ws with peers := peers, nextGen := gen }

def WState.dataset (ws : WState) (base : Dataset) : Dataset :=
  { base with backends := ws.peers.map fun e =>
      { id := e.id, name := e.name, flags := e.p.flags, state := e.p.status, err := e.p.lastError,
        hasData := e.p.cache.isSome, tables := e.p.cache.getD [], addr := "" } }

def mapPeer (ws : WState) (id : String) (f : PeerEntry → PeerEntry) : WState :=
  { ws with peers := ws.peers.map fun e => if e.id == id then f e else e }

def peerJson (ws : WState) (e : PeerEntry) : Json :=
  let p := e.p
  Json.mkObj [
    ("status", .num ⟨p.status.num, 0⟩), ("has_data", .bool p.cache.isSome), ("idling", .bool p.idling),
    ("error_count", .num ⟨(p.errorCount : Int), 0⟩), ("last_error", .str p.lastError),
    ("last_online_zero", .bool (p.lastOnline == 0)), ("last_online_ago", .num ⟨ws.now - p.lastOnline, 0⟩),
    ("last_update_ago", .num ⟨ws.now - p.lastUpdate, 0⟩), ("last_full_ago", .num ⟨ws.now - p.lastFullUpdate, 0⟩),
    ("last_query_zero", .bool (p.lastQuery == 0)), ("last_query_ago", .num ⟨ws.now - p.lastQuery, 0⟩),
    ("addr_idx", .num ⟨(p.addrIdx : Int), 0⟩), ("flags", .arr ((flagNames ws.w.schema p.flags).map Json.str).toArray),
    ("force_full", .bool p.forceFull), ("backend_queries", .num ⟨(e.b.hits : Int), 0⟩), ("program_start", .num ⟨p.programStart, 0⟩) ]

def errKind : StepErr → String
  | .none => ""
  | .failed m => "failed: " ++ m
  | .restartRequired => "restart"

def jsonKeyStr (j : Json) : String :=
  match j with
  | .str s => s
  | .num n => milliToGo (jsonNumMilli n)
  | other => other.compress

def keyMatches (row : ReplyRow) (key : List (String × Json)) : Bool :=
  key.all fun (k, v) => match row.find? (·.1 == k) with | some (_, x) => jsonKeyStr x == jsonKeyStr v | none => false

def setField (row : ReplyRow) (k : String) (v : Json) : ReplyRow :=
  if row.any (·.1 == k) then row.map (fun (n, x) => if n == k then (n, v) else (n, x)) else row ++ [(k, v)]

def applyChange (tables : List (String × List ReplyRow)) (ch : Json) : List (String × List ReplyRow) :=
  let t := jStr ch "table"
  let rows := match tables.find? (·.1 == t) with | some (_, rs) => rs | none => []
  let key := jFields (jObj ch "key")
  let rows' :=
    match (ch.getObjVal? "replace").toOption, (ch.getObjVal? "add").toOption with
    | some (.arr a), _ => a.toList.map jFields
    | _, some (.obj o) => rows ++ [o.toList]
    | _, _ =>
      if jBool ch "remove" then rows.filter (fun r => !keyMatches r key)
      else rows.map fun r => if keyMatches r key then (jFields (jObj ch "set")).foldl (fun r (k, v) => setField r k v) r else r
  if tables.any (·.1 == t) then tables.map (fun (n, rs) => if n == t then (n, rows') else (n, rs)) else tables ++ [(t, rows')]

def worldStep (schema : Schema) (ws? : Option WState) (clock : Int) (j : Json) : Option WState × Int × Option Json :=
  let id := jNat j "id"
  let base : List (String × Json) := [("id", .num ⟨(id : Int), 0⟩), ("op", .str (jStr j "op"))]
  match jStr j "op", ws? with
  | "clock", ws? =>
    let t := (jNat j "seconds" : Int)
    (ws?.map (fun ws => { ws with now := t }), t, none)
  | "world", _ =>
    (some (parseWorld schema clock (jObj j "world")), clock, none)
  | "daemon", _ =>
    let ws0 : WState := { w := { cfg := parseCfg (jObj j "config"), schema := schema, mainRestart := clock }, now := clock, peers := [] }
    let ws := reloadPeers schema ws0 (jArr j "backends")
    (some { ws with listeners := (jStrs j "listen").eraseDups }, clock, some (Json.mkObj (base ++ [("ok", .bool true)])))
  | "reload", some ws =>
    let ws := reloadPeers schema { ws with w := { ws.w with mainRestart := ws.now } } (jArr j "backends")
    (some { ws with listeners := (jStrs j "listen").eraseDups }, clock, some (Json.mkObj (base ++ [("ok", .bool true)])))
  | "dstate", some ws =>
    let peers := ws.peers.map fun e => Json.mkObj [("id", .str e.id), ("gen", .num ⟨(e.gen : Int), 0⟩), ("name", .str e.name),
      ("status", .num ⟨e.p.status.num, 0⟩), ("has_data", .bool e.p.cache.isSome), ("queries", .num ⟨(e.b.hits : Int), 0⟩),
      ("dead", .bool (e.specSources.head? == some "dead")),
      ("source", .str (match e.specSources.head? with | some s => if s.startsWith "other:" then (s.drop 6).toString else if s == "dead" then "dead-" ++ e.id else e.id | none => e.id))]
    (some ws, clock, some (Json.mkObj (base ++ [("peers", .arr peers.toArray), ("listeners", .arr (ws.listeners.map Json.str).toArray)])))
  | "advance", some ws =>
    let d := (jNat j "seconds" : Int)
    (some { ws with now := ws.now + d }, clock + d, none)
  | "init", some ws =>
    let pid := jStr j "peer"
    match ws.peers.find? (·.id == pid) with
    | none => (some ws, clock, some (Json.mkObj (base ++ [("error", .str "no such peer")])))
    | some e =>
      let r := initAllTables ws.w ws.now e.p e.b
      let ws := mapPeer ws pid (fun e => { e with p := r.p, b := r.b })
      let e' := (ws.peers.find? (·.id == pid)).getD e
      (some ws, clock, some (Json.mkObj (base ++ [("err", .str (errKind r.err)), ("state", peerJson ws e')])))
  | "tick", some ws =>
    let pid := jStr j "peer"
    match ws.peers.find? (·.id == pid) with
    | none => (some ws, clock, some (Json.mkObj (base ++ [("error", .str "no such peer")])))
    | some e =>
      let r := tick ws.w ws.now e.p e.b
      let ws := mapPeer ws pid (fun e => { e with p := r.p, b := r.b })
      let e' := (ws.peers.find? (·.id == pid)).getD e
      (some ws, clock, some (Json.mkObj (base ++ [("ran", .bool r.ran), ("err", .str (errKind r.err)), ("state", peerJson ws e')])))
  | "state", some ws =>
    let pid := jStr j "peer"
    match ws.peers.find? (·.id == pid) with
    | none => (some ws, clock, some (Json.mkObj (base ++ [("error", .str "no such peer")])))
    | some e => (some ws, clock, some (Json.mkObj (base ++ [("state", peerJson ws e)])))
  | "mutate", some ws =>
    let bid := jStr j "backend"
    let ws := mapPeer ws bid fun e => { e with b := { e.b with tables := (jArr j "changes").foldl applyChange e.b.tables } }
    (some ws, clock, none)
  | "mode", some ws =>
    let bid := jStr j "backend"
    let ws := mapPeer ws bid fun e =>
      let b := e.b
      let b := match (j.getObjVal? "fail_after").toOption with
        | some (.num n) => { b with failAfter := some n.mantissa.toNat, failMode := jStr j "fail_mode" }
        | _ => b
      let b := if jStr j "mode" != "" then { b with mode := jStr j "mode" } else b
      let cb := match (j.getObjVal? "cmd_reply").toOption with
        | some (.str r) => { e.cb with reply := r }
        | _ => e.cb
      { e with b := b, cb := cb }
    (some ws, clock, none)
  | "backend_log", some ws =>
    let bid := jStr j "backend"
    match ws.peers.find? (·.id == bid) with
    | none => (some ws, clock, some (Json.mkObj (base ++ [("error", .str "no such backend")])))
    | some e =>
      let batches := Json.arr (e.cb.batches.map (fun b => Json.arr (b.map Json.str).toArray)).toArray
      let ws := mapPeer ws bid fun e => { e with cb := { e.cb with batches := [] } }
      (some ws, clock, some (Json.mkObj (base ++ [("batches", batches)])))
  | _, ws? => (ws?, clock, some (Json.mkObj (base ++ [("error", .str "unknown world op")])))

end Driver
