/-
  Driver.World — the line-protocol side of the peer / scripted-backend model (Lmd.Peer, Lmd.PeerLoop).
-/
import Lmd.PeerLoop
import Lmd.Commands
import Lmd.Reload
import Driver.Ops

open Lean (Json)
open Lmd

namespace Driver

structure PeerEntry where
  id : String
  name : String
  p : PeerSt
  b : BackendSt
  cb : CmdBackend := {}
  gen : Nat := 0                      -- identity of the Peer object (a fresh number for every NewPeer)
  specSources : List String := []     -- the connection as configured (`Connection.Equals` compares these)
  specFlags : List String := []
  /-- command batches whose sender gave the client "will continue in background" and is still polling for the peer -/
  pending : List (List String) := []
  deriving Inhabited

structure WState where
  w : World
  now : Int
  peers : List PeerEntry
  listeners : List String := []
  nextGen : Nat := 0
  /-- the scripted backends that exist (by id), whether a peer is wired to them or not -/
  pool : List (String × List (String × List ReplyRow) × List (String × List String)) := []
  deriving Inhabited

def parseCfg (j : Json) : Cfg :=
  let g := fun (k : String) (d : Int) => let v := jNat j k; if v == 0 then d else (v : Int)
  { updateInterval := g "update_interval" 7, fullUpdateInterval := g "full_update_interval" 0,
    staleTimeout := g "stale_backend_timeout" 30, idleTimeout := g "idle_timeout" 120, idleInterval := g "idle_interval" 1800,
    updateOffset := g "update_offset" 3,
    syncIsExecuting := match (j.getObjVal? "sync_is_executing").toOption with | some (.bool b) => b | _ => true }

def parseAddr (s : String) : Addr := if s == "self" then .self else .dead

def parseWorld (schema : Schema) (now : Int) (j : Json) : WState :=
  let peers := (jArr j "backends").map fun bj =>
    let tables := (jFields (jObj bj "tables")).map fun (name, tj) =>
      (name, (jArr tj "rows").map fun row => (jFields row))
    let cols := (jFields (jObj bj "tables")).map fun (name, tj) => (name, jStrs tj "cols")
    let srcs := (jStrs bj "sources").map parseAddr
    let srcs := if srcs.isEmpty then [Addr.self] else srcs
    let name := jStr bj "name"
    let icinga := (jStrs bj "flags").any (fun f => goLower f == "icinga2")
    { id := jStr bj "id", name := if name == "" then "Backend " ++ jStr bj "id" else name,
      p := { sources := srcs, addr := srcs.headD .self, flags := if icinga then flagBit schema "Icinga2" else 0,
             cfgFlags := if icinga then flagBit schema "Icinga2" else 0 },
      b := { tables := tables, cols := cols } : PeerEntry }
  { w := { cfg := parseCfg (jObj j "config"), schema := schema, mainRestart := now }, now := now, peers := peers }

/-- a new peer for a configured connection (`NewPeer`), wired to the given object set -/
def freshEntry (schema : Schema) (gen : Nat) (id name : String) (sources flags : List String)
    (tables : List (String × List ReplyRow)) (cols : List (String × List String)) : PeerEntry :=
  let srcs := sources.map fun s => if s == "dead" then Addr.dead else Addr.self
  let srcs := if srcs.isEmpty then [Addr.self] else srcs
  let icinga := flags.any (fun f => goLower f == "icinga2")
  { id := id, name := if name == "" then "Backend " ++ id else name, gen := gen, specSources := sources, specFlags := flags,
    p := { sources := srcs, addr := srcs.headD .self, flags := if icinga then flagBit schema "Icinga2" else 0,
           cfgFlags := if icinga then flagBit schema "Icinga2" else 0 },
    b := { tables := tables, cols := cols } }

def backendTables (bj : Json) : List (String × List ReplyRow) × List (String × List String) :=
  ((jFields (jObj bj "tables")).map fun (name, tj) => (name, (jArr tj "rows").map fun row => (jFields row)),
   (jFields (jObj bj "tables")).map fun (name, tj) => (name, jStrs tj "cols"))

/-- `initializePeers` on a reload: a connection whose settings are unchanged keeps its peer (object, cache, counters),
    every other configured connection gets a new peer that is synchronised from its source; peers of connections that
    are gone are dropped; the order is the order of the configuration -/
def connOf (cj : Json) : Conn :=
  let id := jStr cj "id"
  { id := id, name := if jStr cj "name" == "" then "Backend " ++ id else jStr cj "name", sources := jStrs cj "sources", flags := jStrs cj "flags" }

def PeerEntry.conn (e : PeerEntry) : Conn := { id := e.id, name := e.name, sources := e.specSources, flags := e.specFlags }

def reloadPeers (schema : Schema) (ws : WState) (conns : List Json) : WState :=
  -- scripted backends are created when their id first appears in a configuration and stay
  let pool := conns.foldl (fun pool cj =>
    let id := jStr cj "id"
    if pool.any (·.1 == id) then pool
    else match (cj.getObjVal? "tables").toOption with
      | some _ => let (t, c) := backendTables cj; pool ++ [(id, t, c)]
      | none => pool) ws.pool
  -- the decisions are those of `Lmd.reloadPlan`; a created peer is synchronised from the object set behind its source
  let (plan, next) := reloadPlan (ws.peers.map fun e => (e.conn, e.gen)) (conns.map connOf) ws.nextGen
  let peers := plan.map fun (c, d) =>
    match d with
    | .keep g => (ws.peers.find? (fun e => e.id == c.id && e.gen == g)).getD default
    | .create g =>
      let target := match c.sources.head? with
        | some s => if s.startsWith "other:" then (s.drop 6).toString else c.id
        | none => c.id
      let (tables, cols) := match pool.find? (·.1 == target) with
        | some (_, t, cl) => (t, cl)
        | none => ([], [])
      let e := freshEntry schema g c.id c.name c.sources c.flags tables cols
      let e := { e with b := { e.b with mode := if c.sources.head? == some "dead" then "refuse" else "ok" } }
      let r := initAllTables ws.w ws.now e.p e.b
      { e with p := r.p, b := r.b }
  { ws with peers := peers, nextGen := next, pool := pool }

def WState.dataset (ws : WState) (base : Dataset) : Dataset :=
  { base with backends := ws.peers.map fun e =>
      { id := e.id, name := e.name, flags := e.p.flags, state := e.p.status, err := e.p.lastError,
        hasData := e.p.cache.isSome, tables := e.p.cache.getD [], addr := "" } }

def mapPeer (ws : WState) (id : String) (f : PeerEntry → PeerEntry) : WState :=
  { ws with peers := ws.peers.map fun e => if e.id == id then f e else e }

def peerJson (ws : WState) (e : PeerEntry) : Json :=
  let p := e.p
  Json.mkObj [
    ("status", .num ⟨p.status.num, 0⟩), ("has_data", .bool p.cache.isSome), ("idling", .bool p.idling),
    ("error_count", .num ⟨(p.errorCount : Int), 0⟩), ("last_error", .str p.lastError),
    ("last_online_zero", .bool (p.lastOnline == 0)), ("last_online_ago", .num ⟨ws.now - p.lastOnline, 0⟩),
    ("last_update_ago", .num ⟨ws.now - p.lastUpdate, 0⟩), ("last_full_ago", .num ⟨ws.now - p.lastFullUpdate, 0⟩),
    ("last_query_zero", .bool (p.lastQuery == 0)), ("last_query_ago", .num ⟨ws.now - p.lastQuery, 0⟩),
    ("addr_idx", .num ⟨(p.addrIdx : Int), 0⟩), ("flags", .arr ((flagNames ws.w.schema p.flags).map Json.str).toArray),
    ("force_full", .bool p.forceFull), ("backend_queries", .num ⟨(e.b.hits : Int), 0⟩), ("program_start", .num ⟨p.programStart, 0⟩) ]

def errKind : StepErr → String
  | .none => ""
  | .failed m => "failed: " ++ m
  | .restartRequired => "restart"

def jsonKeyStr (j : Json) : String :=
  match j with
  | .str s => s
  | .num n => milliToGo (jsonNumMilli n)
  | other => other.compress

def keyMatches (row : ReplyRow) (key : List (String × Json)) : Bool :=
  key.all fun (k, v) => match row.find? (·.1 == k) with | some (_, x) => jsonKeyStr x == jsonKeyStr v | none => false

def setField (row : ReplyRow) (k : String) (v : Json) : ReplyRow :=
  if row.any (·.1 == k) then row.map (fun (n, x) => if n == k then (n, v) else (n, x)) else row ++ [(k, v)]

def applyChange (tables : List (String × List ReplyRow)) (ch : Json) : List (String × List ReplyRow) :=
  let t := jStr ch "table"
  let rows := match tables.find? (·.1 == t) with | some (_, rs) => rs | none => []
  let key := jFields (jObj ch "key")
  let rows' :=
    match (ch.getObjVal? "replace").toOption, (ch.getObjVal? "add").toOption with
    | some (.arr a), _ => a.toList.map jFields
    | _, some (.obj o) => rows ++ [o.toList]
    | _, _ =>
      if jBool ch "reverse" then rows.reverse
      else if jBool ch "remove" then rows.filter (fun r => !keyMatches r key)
      else rows.map fun r => if keyMatches r key then (jFields (jObj ch "set")).foldl (fun r (k, v) => setField r k v) r else r
  if tables.any (·.1 == t) then tables.map (fun (n, rs) => if n == t then (n, rows') else (n, rs)) else tables ++ [(t, rows')]

def worldStep (schema : Schema) (ws? : Option WState) (clock : Int) (j : Json) : Option WState × Int × Option Json :=
  let id := jNat j "id"
  let base : List (String × Json) := [("id", .num ⟨(id : Int), 0⟩), ("op", .str (jStr j "op"))]
  match jStr j "op", ws? with
  | "clock", ws? =>
    let t := (jNat j "seconds" : Int)
    (ws?.map (fun ws => { ws with now := t }), t, none)
  | "world", _ =>
    (some (parseWorld schema clock (jObj j "world")), clock, none)
  | "daemon", _ =>
    let ws0 : WState := { w := { cfg := parseCfg (jObj j "config"), schema := schema, mainRestart := clock }, now := clock, peers := [] }
    let ws := reloadPeers schema ws0 (jArr j "backends")
    (some { ws with listeners := (reloadListeners [] (jStrs j "listen")).nowOpen }, clock, some (Json.mkObj (base ++ [("ok", .bool true)])))
  | "reload", some ws =>
    let lp := reloadListeners ws.listeners (jStrs j "listen")
    let ws := reloadPeers schema { ws with w := { ws.w with mainRestart := ws.now } } (jArr j "backends")
    (some { ws with listeners := lp.nowOpen }, clock, some (Json.mkObj (base ++ [("ok", .bool true), ("closed", .arr (lp.closed.map Json.str).toArray), ("opened", .arr (lp.opened.map Json.str).toArray)])))
  | "dstate", some ws =>
    let peers := ws.peers.map fun e => Json.mkObj [("id", .str e.id), ("gen", .num ⟨(e.gen : Int), 0⟩), ("name", .str e.name),
      ("status", .num ⟨e.p.status.num, 0⟩), ("has_data", .bool e.p.cache.isSome), ("queries", .num ⟨(e.b.hits : Int), 0⟩),
      ("dead", .bool (e.specSources.head? == some "dead")),
      ("source", .str (match e.specSources.head? with | some s => if s.startsWith "other:" then (s.drop 6).toString else if s == "dead" then "dead-" ++ e.id else e.id | none => e.id))]
    (some ws, clock, some (Json.mkObj (base ++ [("peers", .arr peers.toArray), ("listeners", .arr (ws.listeners.map Json.str).toArray)])))
  | "advance", some ws =>
    let d := (jNat j "seconds" : Int)
    (some { ws with now := ws.now + d }, clock + d, none)
  | "init", some ws =>
    let pid := jStr j "peer"
    match ws.peers.find? (·.id == pid) with
    | none => (some ws, clock, some (Json.mkObj (base ++ [("error", .str "no such peer")])))
    | some e =>
      let r := initAllTables ws.w ws.now e.p e.b
      let ws := mapPeer ws pid (fun e => { e with p := r.p, b := r.b })
      let e' := (ws.peers.find? (·.id == pid)).getD e
      (some ws, clock, some (Json.mkObj (base ++ [("err", .str (errKind r.err)), ("state", peerJson ws e')])))
  | "tick", some ws =>
    let pid := jStr j "peer"
    match ws.peers.find? (·.id == pid) with
    | none => (some ws, clock, some (Json.mkObj (base ++ [("error", .str "no such peer")])))
    | some e =>
      let r := tick ws.w ws.now e.p e.b
      let ws := mapPeer ws pid (fun e => { e with p := r.p, b := r.b })
      let e' := (ws.peers.find? (·.id == pid)).getD e
      (some ws, clock, some (Json.mkObj (base ++ [("ran", .bool r.ran), ("err", .str (errKind r.err)), ("state", peerJson ws e')])))
  | "state", some ws =>
    let pid := jStr j "peer"
    match ws.peers.find? (·.id == pid) with
    | none => (some ws, clock, some (Json.mkObj (base ++ [("error", .str "no such peer")])))
    | some e => (some ws, clock, some (Json.mkObj (base ++ [("state", peerJson ws e)])))
  | "sleep", some ws =>
    -- real time passes: senders that are still waiting for their peer poll its state: up → they send now, down → they give up
    let peers := ws.peers.map fun e =>
      if e.pending.isEmpty then e
      else match e.p.status with
        | .up | .syncing =>
          let (p, b, cb) := e.pending.foldl (fun (acc : PeerSt × BackendSt × CmdBackend) cmds =>
            let (p, b, cb, _) := sendCommands ws.w ws.now acc.1 acc.2.1 acc.2.2 cmds
            (p, b, cb)) (e.p, e.b, e.cb)
          { e with p := p, b := b, cb := cb, pending := [] }
        | .down | .broken => { e with pending := [] }
        | _ => e
    (some { ws with peers := peers }, clock, none)
  | "mutate", some ws =>
    let bid := jStr j "backend"
    let ws := mapPeer ws bid fun e => { e with b := { e.b with tables := (jArr j "changes").foldl applyChange e.b.tables } }
    (some ws, clock, none)
  | "mode", some ws =>
    let bid := jStr j "backend"
    let ws := mapPeer ws bid fun e =>
      let b := e.b
      let b := match (j.getObjVal? "fail_after").toOption with
        | some (.num n) => { b with failAfter := some n.mantissa.toNat, failMode := jStr j "fail_mode" }
        | _ => b
      let b := if jStr j "mode" != "" then { b with mode := jStr j "mode" } else b
      let cb := match (j.getObjVal? "cmd_reply").toOption with
        | some (.str r) => { e.cb with reply := r }
        | _ => e.cb
      { e with b := b, cb := cb }
    (some ws, clock, none)
  | "backend_log", some ws =>
    let bid := jStr j "backend"
    match ws.peers.find? (·.id == bid) with
    | none => (some ws, clock, some (Json.mkObj (base ++ [("error", .str "no such backend")])))
    | some e =>
      let batches := Json.arr (e.cb.batches.map (fun b => Json.arr (b.map Json.str).toArray)).toArray
      let ws := mapPeer ws bid fun e => { e with cb := { e.cb with batches := [] } }
      (some ws, clock, some (Json.mkObj (base ++ [("batches", batches)])))
  | _, ws? => (ws?, clock, some (Json.mkObj (base ++ [("error", .str "unknown world op")])))

end Driver
