/-
  Driver.Ops — decoding of schema / dataset / query lines and the per-case evaluation.
-/
import Lmd.Render
import Lmd.Print
import Lmd.Frame
import Lmd.Sync
import Lmd.Cluster
import Lmd.Distributed
import Lmd.Lemmas.BodyLemmas

open Lean (Json)
open Lmd

namespace Driver

/-! ### JSON helpers -/

def jStr (j : Json) (k : String) : String := ((j.getObjVal? k).toOption.bind (fun v => v.getStr?.toOption)).getD ""
def jNat (j : Json) (k : String) : Nat := ((j.getObjVal? k).toOption.bind (fun v => v.getNat?.toOption)).getD 0
def jBool (j : Json) (k : String) : Bool := ((j.getObjVal? k).toOption.bind (fun v => v.getBool?.toOption)).getD false
def jArr (j : Json) (k : String) : List Json := ((j.getObjVal? k).toOption.bind (fun v => v.getArr?.toOption)).map (·.toList) |>.getD []
def jObj (j : Json) (k : String) : Json := (j.getObjVal? k).toOption.getD Json.null
def jStrs (j : Json) (k : String) : List String := (jArr j k).filterMap (fun v => v.getStr?.toOption)

def jFields (j : Json) : List (String × Json) :=
  match j with
  | .obj kvs => kvs.toList
  | _ => []

/-! ### schema -/

def parseDataType : String → DataType
  | "StringCol" => .str
  | "StringListCol" => .strList
  | "IntCol" => .int
  | "Int64Col" => .int64
  | "Int64ListCol" => .int64List
  | "FloatCol" => .float
  | "JSONCol" => .json
  | "CustomVarCol" => .customVar
  | "ServiceMemberListCol" => .svcMemberList
  | "InterfaceListCol" => .ifaceList
  | "StringLargeCol" => .strLarge
  | _ => .str

def parseStorage : String → Storage
  | "LocalStore" => .loc
  | "RefStore" => .ref
  | _ => .virt

def parseColumn (j : Json) : Column :=
  { name := jStr j "name", dtype := parseDataType (jStr j "dtype"), storage := parseStorage (jStr j "storage"),
    optional := jNat j "optbits", refTable := jStr j "reftable", refCol := jStr j "refcol", fetch := jStr j "fetch" }

def parseTable (j : Json) : Table :=
  let virt := jStr j "virtual"
  let kind : VirtualKind :=
    if hasPrefix virt "backends" then .backends
    else if hasPrefix virt "columns" then .columns
    else if hasPrefix virt "groupby" then .groupby
    else .none
  -- `Table.columnsIndex` is a map by name: a name that occurs twice (peer_key of the by-group tables) means the last one
  let all := (jArr j "columns").map parseColumn
  let cols := all.map fun c => (all.reverse.find? (·.name == c.name)).getD c
  { name := jStr j "name", tid := jNat j "id", cols := cols,
    primaryKey := jStrs j "primary_key", defaultSort := jStrs j "default_sort",
    refs := (jArr j "refs").map (fun r => { table := jStr r "table", cols := jStrs r "columns" }),
    virt := kind, passthrough := jBool j "passthrough" }

def parseSchema (j : Json) : Schema :=
  { tables := (jArr j "tables").map parseTable,
    flags := (jFields (jObj j "flags")).map (fun (k, v) => (k, v.getNat?.toOption.getD 0)) }

/-! ### dataset -/

def flagBits (s : Schema) (names : List String) : Nat :=
  names.foldl (fun acc n =>
    match s.flags.find? (fun (k, _) => goLower k == goLower n) with
    | some (_, bit) => acc ||| bit
    | none => acc) 0

def parseState : String → PeerState
  | "warning" => .warning
  | "down" => .down
  | "broken" => .broken
  | "pending" => .pending
  | "syncing" => .syncing
  | _ => .up

def parseRows (t : Table) (j : Json) : List Row :=
  let cols := (jStrs j "cols").map (fun n => (n, t.col? n))
  (jArr j "rows").map fun row =>
    let vals := match row with | .arr a => a.toList | _ => []
    { cells := (cols.zip vals).filterMap fun ((n, c?), v) =>
        match c? with
        | some c => if c.storage == .loc then some (n, coerce c.dtype v) else none
        | none => none }

def parseBackend (s : Schema) (j : Json) : Backend :=
  let st := parseState (jStr j "state")
  { id := jStr j "id", name := jStr j "name", flags := flagBits s (jStrs j "flags"),
    state := st, err := jStr j "error", hasData := st == .up || st == .warning, addr := "verif.sock", section_ := jStr j "section",
    tables := (jFields (jObj j "tables")).map fun (name, tj) =>
      (name, parseRows ((s.table? name).getD { name := name, cols := [] }) tj) }

/-- `Config.SetServiceAuthorization` / `SetGroupAuthorization` read the setting without regard to case
    (the caller maps anything that is neither `loose` nor `strict` to the setting's default) -/
def authSetting (v : String) : String := v.toLower

def parseReply (j : Json) : List ReplyRow :=
  let cols := jStrs j "cols"
  (jArr j "rows").map fun row =>
    let vals := match row with | .arr a => a.toList | _ => []
    cols.zip vals

/-- a backend whose tables are raw replies (any row order): the cache is what `syncBackend` builds -/
def parseSyncedBackend (s : Schema) (j : Json) : Backend :=
  let b := parseBackend s (j.setObjVal! "tables" (Json.mkObj []))
  let tables := (jFields (jObj j "tables")).map fun (name, tj) => (name, parseReply tj)
  { b with tables := syncBackend s tables }

def parseSyncedDataset (s : Schema) (j : Json) : Dataset :=
  { backends := (jArr j "backends").map (parseSyncedBackend s),
    serviceAuthLoose := authSetting (jStr j "service_auth") != "strict",
    groupAuthLoose := authSetting (jStr j "group_auth") == "loose" }

def parseDataset (s : Schema) (j : Json) : Dataset :=
  { backends := (jArr j "backends").map (parseBackend s),
    serviceAuthLoose := authSetting (jStr j "service_auth") != "strict",
    groupAuthLoose := authSetting (jStr j "group_auth") == "loose" }

/-! ### acceptance of a result against a sorted pool with tie classes -/

structure Classed where
  cls : Nat
  row : String     -- canonical text of the row
  deriving Inhabited

/-- assign a class id to each element of a sorted list: equal keys share a class -/
def classify (dirs : List Bool) (sorted : Bool) (exact : Bool) : List Hit → Nat → Option (List SortKey) → List Nat
  | [], _, _ => []
  | h :: hs, n, prev =>
    if !sorted then
      (if exact then n else 0) :: classify dirs sorted exact hs (n + 1) none
    else
      let same : Bool := match prev with
        | some k => cmpKeys dirs k h.keys == .eq
        | none => false
      let n' := if same then n else n + 1
      n' :: classify dirs sorted exact hs n' (some h.keys)

def removeFirstMatch (c : Nat) (row : String) : List Classed → Option (List Classed)
  | [] => none
  | x :: xs => if x.cls == c && x.row == row then some xs else (removeFirstMatch c row xs).map (x :: ·)

/-- does `result` (rows in order) fit positions `[offset, offset+|result|)` of `pool`, ties in any order? -/
def acceptWindow (pool : List Classed) (offset : Nat) (limit : Option Nat) (result : List String) : Bool :=
  let expectedLen := match limit with
    | some l => min l (pool.length - offset)
    | none => pool.length - offset
  if result.length != expectedLen then false
  else
    let classes := (pool.drop offset).map (·.cls)
    let rec go : List Nat → List String → List Classed → Bool
      | c :: cs, r :: rs, avail =>
        match removeFirstMatch c r avail with
        | some avail' => go cs rs avail'
        | none => false
      | _, [], _ => true
      | [], _ :: _, _ => false
    go classes result pool

/-! ### one query -/

structure State where
  schema : Schema
  ds : Dataset

def failedJson (f : List (String × String)) : Json := .mkObj (f.map (fun (k, v) => (k, Json.str (trimSpace v))))

def quirkList : List (String × (Quirks → Quirks)) :=
  [ ("negOr", fun q => { q with negOr := false }),
    ("int8Trunc", fun q => { q with int8Trunc := false }),
    ("idListInt8", fun q => { q with idListInt8 := false }),
    ("optNumZero", fun q => { q with optNumZero := false }) ]

structure DataOut where
  window : List String
  pool : List Classed
  total : Nat
  failed : List (String × String)

/-- does a cluster node distribute this request? (`BuildResponse`: not when it names backends and all of them are its own) -/
def distributes (t : Table) (req : Request) (ours : List String) : Bool :=
  -- the tables and columns tables describe the schema: every node answers them itself
  t.name != "tables" && t.name != "columns" && (req.backends.isEmpty || !(req.backends.all ours.contains))

def evalData (st : State) (t : Table) (m : EvalMode) (q : Quirks) (text : String) (optimize : Bool) (isSpec : Bool := false) (specDots : Bool := false)
    (dist : Option (List (List String) × List String) := none) : Option (Request × DataOut × List Json) :=
  match parseRequest st.schema { optimize := optimize, q := q, specDots := isSpec && specDots } text with
  | .error _ => none
  | .ok req =>
    let res := match dist with
      | some (shares, ours) => if distributes t req ours then distData m st.schema st.ds t req shares else dataQuery m st.schema st.ds t req
      | none => dataQuery m st.schema st.ds t req
    let cols := requestColumns t req
    let dirs := req.sort.map (·.desc)
    let nBackends := (selectBackends st.ds t req).peers.length
    let exact := nBackends ≤ 1 && !isSpec && dist.isNone
    let rowsJ := res.hits.map (hitJson st.schema st.ds t cols)
    let poolJ := res.pool.map (fun h => (hitJson st.schema st.ds t cols h).compress)
    let classes := classify dirs (!req.sort.isEmpty) exact res.pool 0 none
    some (req, { window := rowsJ.map Json.compress, pool := (classes.zip poolJ).map (fun (c, r) => { cls := c, row := r }),
                 total := res.total, failed := res.failed }, rowsJ)

def sameFailed (a b : List (String × String)) : Bool :=
  a.length == b.length && a.all (fun (k, v) => b.any (fun (k', v') => k == k' && trimSpace v == trimSpace v'))

/-- is the model's answer acceptable with respect to the specification's pool? -/
def dataAgrees (req : Request) (model spec : DataOut) : Bool :=
  (if req.offset > spec.total then model.window.isEmpty else acceptWindow spec.pool req.offset req.limit model.window)
  && (req.outFmt != .wrapped || model.total == spec.total) && sameFailed model.failed spec.failed

def statsRowsJson (rows : List (String × List (Int × Nat))) : Json :=
  .arr (rows.map fun (k, vals) =>
    Json.mkObj [("key", .str k), ("vals", .arr (vals.map fun (n, d) => Json.arr #[.num ⟨n, 0⟩, .num ⟨(d : Int), 0⟩]).toArray)]).toArray

def finalRows (r : StatsResult) : List (String × List (Int × Nat)) := r.rows.map fun (k, accs) => (k, accs.map Acc.final)

def ratEq (a b : Int × Nat) : Bool := a.1 * (b.2 : Int) == b.1 * (a.2 : Int)

def statsAgree (a b : List (String × List (Int × Nat))) : Bool :=
  a.length == b.length && a.all fun (k, vs) =>
    match b.find? (·.1 == k) with
    | some (_, ws) => vs.length == ws.length && (vs.zip ws).all (fun (x, y) => ratEq x y)
    | none => false

def usesUnsupportedColumn (st : State) (t : Table) (req : Request) : Option String :=
  let cols := requestColumns t req
  let probe : Ctx := { schema := st.schema, ds := st.ds, b := (st.ds.backends.head?).getD { id := "", name := "" } }
  let bad := cols.find? fun c =>
    match c.storage with
    | .virt => (virtVal probe t { cells := [] } c).isNone
    | .ref =>
      match (probe.table c.refTable).col? c.refCol with
      | some rc => rc.storage == .virt && (virtVal probe (probe.table c.refTable) { cells := [] } rc).isNone
      | none => true
    | .loc => c.dtype == .ifaceList
  bad.map (·.name)

mutual
  def filterLeaves : Filter → List Leaf
    | .leaf l _ => [l]
    | .grp _ fs _ => filtersLeaves fs
  def filtersLeaves : List Filter → List Leaf
    | [] => []
    | f :: fs => filterLeaves f ++ filtersLeaves fs
end

def requestLeaves (req : Request) : List Leaf :=
  filtersLeaves req.filter ++ req.stats.flatMap (fun s => match s with | .counter f => filterLeaves f | .agg .. => [])

def leafUnsupported (st : State) (t : Table) (l : Leaf) : Bool :=
  let probe : Ctx := { schema := st.schema, ds := st.ds, b := (st.ds.backends.head?).getD { id := "", name := "" } }
  l.col.dtype == .ifaceList || l.col.dtype == .svcMemberList ||
  (match l.col.storage with
   | .virt => (virtVal probe t { cells := [] } l.col).isNone
   | .ref =>
     (match (probe.table l.col.refTable).col? l.col.refCol with
      | some rc => rc.storage == .virt && (virtVal probe (probe.table l.col.refTable) { cells := [] } rc).isNone
      | none => true)
   | .loc => false)

/-- the reference regex engine is quadratic in the pattern length on repetitive texts: patterns beyond 120
    characters are outside the compared input class -/
def valTooLong : Val → Bool
  | .s v => v.length > 1000
  | .sl v => v.any (·.length > 1000)
  | .cv _ vs => vs.any (·.length > 1000)
  | _ => false

def longRegex (st : State) (text : String) : Bool :=
  match parseRequest st.schema { optimize := false, q := Quirks.none } text with
  | .ok req =>
    let leaves := requestLeaves req
    leaves.any (fun l => l.rx.isSome && l.sval.length > 120) ||
    -- a repetition matched against a very long text makes the derivative terms grow with the text: requests whose
    -- regular expressions look at a column that holds such a text somewhere are outside the compared class
    (let rxCols := (leaves.filter (fun l => l.rx.isSome)).flatMap fun l =>
        let base := [l.col.name, l.col.refCol]
        let base := base ++ base.map (fun n => if n.endsWith "_lc" then (n.dropEnd 3).toString else n)
        if l.col.dtype == .customVar then base ++ ["custom_variable_values", "custom_variable_names"] else base
     !rxCols.isEmpty && st.ds.backends.any fun b => b.tables.any fun (_, rows) => rows.any fun r => r.cells.any fun (k, v) => rxCols.contains k && valTooLong v)
  | .error _ => false

def handleQuery (st : State) (j : Json) (dist : Option (List (List String) × List String) := none) : Json :=
  let id := jNat j "id"
  let text := jStr j "text"
  let optimize := jBool j "optimize"
  let base : List (String × Json) := [("id", .num ⟨(id : Int), 0⟩), ("op", .str "query")]
  match parseRequest st.schema { optimize := optimize, q := Quirks.current } text with
  | .error (.bad msg) => Json.mkObj (base ++ [("parse", .str "bad"), ("msg", .str msg)])
  | .error (.unsupported why) => Json.mkObj (base ++ [("parse", .str "unsupported"), ("why", .str why)])
  | .ok req =>
    let base := base ++ [("reprint", .str req.print)]
    match st.schema.table? req.table with
    | none => Json.mkObj (base ++ [("parse", .str "bad"), ("msg", .str "table")])
    | some t =>
      if t.passthrough || t.virt == .columns then Json.mkObj (base ++ [("parse", .str "unsupported"), ("why", .str "table not modelled")])
      else if !req.waitTrigger.isEmpty || !req.waitCondition.isEmpty then Json.mkObj (base ++ [("parse", .str "unsupported"), ("why", .str "wait headers")])
      else if (requestLeaves req).any (leafUnsupported st t) then Json.mkObj (base ++ [("parse", .str "unsupported"), ("why", .str "filter column not modelled")])
      else if longRegex st text then Json.mkObj (base ++ [("parse", .str "unsupported"), ("why", .str "regular expression or matched text too long for the reference engine")])
      else
      match usesUnsupportedColumn st t req with
      | some c => Json.mkObj (base ++ [("parse", .str "unsupported"), ("why", .str s!"column {c} not modelled")])
      | none =>
      -- the 502 rule of NewResponse
      let sel := selectBackends st.ds t req
      if req.outFmt != .wrapped && !sel.failed.isEmpty && sel.failed.length == req.backends.length then
        Json.mkObj (base ++ [("parse", .str "ok"), ("kind", .str "error502")])
      else if req.stats.isEmpty then
        -- data query
        match evalData st t (EvalMode.code Quirks.current) Quirks.current text optimize false false dist,
              evalData st t EvalMode.spec Quirks.none text false true optimize with
        | some (_, model, modelRows), some (_, spec, _) =>
          let agrees := dataAgrees req model spec
          -- attribution: which listed quirks, switched off alone, change the model's answer?
          let hit := if agrees then [] else quirkList.filterMap fun (name, off) =>
            let q' := off Quirks.current
            match evalData st t (EvalMode.code q') q' text optimize false false dist with
            | some (_, m', _) => if m'.window != model.window || m'.total != model.total then some name else none
            | none => some name
          let explained := if agrees then true else
            match evalData st t (EvalMode.code Quirks.none) Quirks.none text optimize false false dist with
            | some (req', m', _) => dataAgrees req' m' spec
            | none => false
          -- the body text as `Lmd.Body` assembles it (the definitions `Props/C10Body.lean` is about), where the row order is
          -- determined: at most one backend answers, no Sort (ties are ordered by an unstable sort), not distributed
          let bodyField : List (String × Json) :=
            if (selectBackends st.ds t req).peers.length ≤ 1 && dist.isNone && req.sort.isEmpty then
              [("body", .str (Lmd.Body.answerBody st.schema st.ds t req (dataQuery (EvalMode.code Quirks.current) st.schema st.ds t req) 0))]
            else []
          Json.mkObj (base ++ bodyField ++ [("parse", .str "ok"), ("kind", .str "data"),
            ("offset", .num ⟨(req.offset : Int), 0⟩),
            ("limit", match req.limit with | some l => .num ⟨(l : Int), 0⟩ | none => .null),
            ("wrapped", .bool (req.outFmt == .wrapped)),
            ("ncols", .num ⟨((requestColumns t req).length : Int), 0⟩),
            ("model", Json.mkObj [("rows", .arr modelRows.toArray), ("total", .num ⟨(model.total : Int), 0⟩),
                                  ("failed", failedJson model.failed),
                                  ("pool", .arr (model.pool.map (fun c => Json.arr #[.num ⟨(c.cls : Int), 0⟩, .str c.row])).toArray)]),
            ("spec", Json.mkObj [("total", .num ⟨(spec.total : Int), 0⟩), ("failed", failedJson spec.failed),
                                 ("pool", .arr (spec.pool.map (fun c => Json.arr #[.num ⟨(c.cls : Int), 0⟩, .str c.row])).toArray)]),
            ("model_eq_spec", .bool agrees), ("quirks_hit", .arr (hit.map Json.str).toArray), ("explained", .bool explained),
            ("assumptions_ok", .bool (st.ds.backends.all (groupsConsistent st.schema)))])
        | _, _ => Json.mkObj (base ++ [("parse", .str "unsupported"), ("why", .str "spec parse differs")])
      else
        -- stats query
        let mode (q : Quirks) : StatsMode := { q := q, useIndex := true, pushDown := true, grouped := optimize }
        let model := match dist with
          | some (shares, ours) =>
            if distributes t req ours then distStats (mode Quirks.current) st.schema st.ds t req shares
            else statsQuery (mode Quirks.current) st.schema st.ds t req
          | none => statsQuery (mode Quirks.current) st.schema st.ds t req
        if model.crash then Json.mkObj (base ++ [("parse", .str "ok"), ("kind", .str "crash")])
        else
          match parseRequest st.schema { optimize := false, q := Quirks.none, specDots := optimize } text with
          | .error _ => Json.mkObj (base ++ [("parse", .str "unsupported"), ("why", .str "spec parse differs")])
          | .ok sreq =>
            let spec := statsSpec st.schema st.ds t sreq
            let modelRows := finalRows model
            let agrees := statsAgree modelRows spec
            Json.mkObj (base ++ [("parse", .str "ok"), ("kind", .str "stats"),
              ("ncols", .num ⟨(req.columns.length : Int), 0⟩),
              ("model", Json.mkObj [("rows", statsRowsJson modelRows), ("failed", failedJson model.failed)]),
              ("spec", Json.mkObj [("rows", statsRowsJson spec)]),
              ("model_eq_spec", .bool agrees), ("quirks_hit", .arr #[]), ("explained", .bool agrees),
              ("assumptions_ok", .bool (st.ds.backends.all (groupsConsistent st.schema)))])

def step (st : State) (j : Json) : State × Option Json :=
  match jStr j "op" with
  | "dataset" => ({ st with ds := parseDataset st.schema (jObj j "dataset") }, none)
  | "sync" => ({ st with ds := parseSyncedDataset st.schema (jObj j "dataset") }, none)
  | "query" => (st, some (handleQuery st j))
  | "frame" =>
    let hdr := fixed16Header (jNat j "code") (jNat j "size")
    (st, some (Json.mkObj [("id", .num ⟨(jNat j "id" : Int), 0⟩), ("op", .str "frame"), ("header", .str hdr)]))
  | "redistribute" =>
    let online := (jArr j "online").map (fun b => match b with | .bool x => x | _ => false)
    let res := redistribute online (jStrs j "backends")
    let qs := quotas online (jStrs j "backends").length
    (st, some (Json.mkObj [("id", .num ⟨(jNat j "id" : Int), 0⟩), ("op", .str "redistribute"),
      ("assigned", .arr (res.map (fun l => Json.arr (l.map Json.str).toArray)).toArray),
      ("quotas", .arr (qs.map (fun (q : Nat) => Json.num ⟨(q : Int), 0⟩)).toArray)]))
  | "plan" =>
    let reqs := (jArr j "reqs").map fun r => ({ parses := jBool r "parses", keepAlive := jBool r "keepalive" } : WireReq)
    let acts := (sessionPlan 0 reqs).map fun a =>
      match a with
      | .answer i => Json.mkObj [("answer", .num ⟨(i : Int), 0⟩)]
      | .parseError i => Json.mkObj [("parse_error", .num ⟨(i : Int), 0⟩)]
    (st, some (Json.mkObj [("id", .num ⟨(jNat j "id" : Int), 0⟩), ("op", .str "plan"), ("actions", .arr acts.toArray)]))
  | op => (st, some (Json.mkObj [("error", .str s!"unknown op {op}")]))

end Driver
