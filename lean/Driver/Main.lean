/-
  lmdmodel — the line-protocol driver.  Reads the schema dump (argument 1) written by
  `lmdharness dump-schema` from the real `InitObjects`, then JSON lines on stdin:

    {"op":"dataset","id":n,"dataset":{…}}
    {"op":"query","id":n,"text":"GET …","optimize":true}

  and prints one JSON line per query with the model's answer (the code as it is today, quirks on),
  the specification's answer, and the model-vs-spec verdict with the listed quirks that explain a
  difference.
-/
import Lmd.Render
import Driver.Ops

open Lean (Json)
open Lmd Driver

partial def loop (h : IO.FS.Stream) (out : IO.FS.Stream) (st : State) : IO Unit := do
  let line ← h.getLine
  if line.isEmpty then return ()
  if line.trimAscii.toString.isEmpty then
    loop h out st
  else
    match Json.parse line with
    | .error e =>
      out.putStrLn (Json.compress (Json.mkObj [("error", .str s!"json: {e}")]))
      out.flush
      loop h out st
    | .ok j =>
      let (st', res) := step st j
      match res with
      | some r =>
        out.putStrLn (Json.compress r)
        out.flush
      | none => pure ()
      loop h out st'

def main (args : List String) : IO UInt32 := do
  match args with
  | [schemaFile] =>
    let txt ← IO.FS.readFile schemaFile
    match Json.parse txt with
    | .error e =>
      IO.eprintln s!"schema: {e}"
      return 2
    | .ok j =>
      let schema := parseSchema j
      let stdin ← IO.getStdin
      let stdout ← IO.getStdout
      loop stdin stdout { schema := schema, ds := { backends := [] } }
      return 0
  | _ =>
    IO.eprintln "usage: lmdmodel <schema.json>"
    return 2
