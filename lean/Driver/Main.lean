/-
  lmdmodel — the line-protocol driver.  Reads the schema dump (argument 1) written by
  `lmdharness dump-schema` from the real `InitObjects`, then JSON lines on stdin:

    {"op":"dataset","id":n,"dataset":{…}}            importer-style dataset
    {"op":"sync","id":n,"dataset":{…}}               raw backend replies, synchronised by Lmd.syncBackend
    {"op":"world"| "clock" | "advance" | "init" | "tick" | "mutate" | "mode" | "state", …}   peer / backend model
    {"op":"query","id":n,"text":"GET …","optimize":true}

  and prints one JSON line per query / step with the model's answer (the code as it is today),
  the specification's answer, and the model-vs-spec verdict.
-/
import Lmd.Render
import Driver.Ops
import Driver.World

open Lean (Json)
open Lmd Driver

structure Full where
  st : State
  ws : Option WState := none
  clock : Int := 0

def worldOps : List String := ["world", "clock", "advance", "init", "tick", "mutate", "mode", "state"]

/-- a client query touches the selected peers (`lastQuery`, spin-up from idle) before it is answered -/
def touchPeers (f : Full) (j : Json) : Full :=
  match f.ws with
  | none => f
  | some ws =>
    match parseRequest f.st.schema { optimize := true, q := Quirks.current } (jStr j "text") with
    | .error _ => f
    | .ok req =>
      match f.st.schema.table? req.table with
      | none => f
      | some t =>
        if t.passthrough then f
        else
          let wanted := fun (id : String) => req.backends.isEmpty || req.backends.contains id
          let touch := fun (e : PeerEntry) =>
            if !wanted e.id then e
            else if t.virt == .none then
              let (p, b) := clientQuery ws.w ws.now e.p e.b
              { e with p := p, b := b }
            else { e with p := { e.p with lastQuery := ws.now } }
          let ws' := { ws with peers := ws.peers.map touch }
          { f with ws := some ws', st := { f.st with ds := ws'.dataset f.st.ds } }

partial def loop (h : IO.FS.Stream) (out : IO.FS.Stream) (f : Full) : IO Unit := do
  let line ← h.getLine
  if line.isEmpty then return ()
  if line.trimAscii.toString.isEmpty then
    loop h out f
  else
    match Json.parse line with
    | .error e =>
      out.putStrLn (Json.compress (Json.mkObj [("error", .str s!"json: {e}")]))
      out.flush
      loop h out f
    | .ok j =>
      let op := jStr j "op"
      if worldOps.contains op then
        let (ws', clock', res) := worldStep f.st.schema f.ws f.clock j
        let st' := match ws' with
          | some ws => { f.st with ds := ws.dataset f.st.ds }
          | none => f.st
        match res with
        | some r =>
          out.putStrLn (Json.compress r)
          out.flush
        | none => pure ()
        loop h out { st := st', ws := ws', clock := clock' }
      else
        let f := if op == "query" then touchPeers f j else f
        let f := if op == "dataset" || op == "sync" then { f with ws := none } else f
        let (st', res) := step f.st j
        match res with
        | some r =>
          out.putStrLn (Json.compress r)
          out.flush
        | none => pure ()
        loop h out { f with st := st' }

def main (args : List String) : IO UInt32 := do
  match args with
  | [schemaFile] =>
    let txt ← IO.FS.readFile schemaFile
    match Json.parse txt with
    | .error e =>
      IO.eprintln s!"schema: {e}"
      return 2
    | .ok j =>
      let schema := parseSchema j
      let stdin ← IO.getStdin
      let stdout ← IO.getStdout
      loop stdin stdout { st := { schema := schema, ds := { backends := [] } } }
      return 0
  | _ =>
    IO.eprintln "usage: lmdmodel <schema.json>"
    return 2
