/-
  lmdmodel — the line-protocol driver.  Reads the schema dump (argument 1) written by
  `lmdharness dump-schema` from the real `InitObjects`, then JSON lines on stdin:

    {"op":"dataset","id":n,"dataset":{…}}            importer-style dataset
    {"op":"sync","id":n,"dataset":{…}}               raw backend replies, synchronised by Lmd.syncBackend
    {"op":"world"| "clock" | "advance" | "init" | "tick" | "mutate" | "mode" | "state", …}   peer / backend model
    {"op":"query","id":n,"text":"GET …","optimize":true}

  and prints one JSON line per query / step with the model's answer (the code as it is today),
  the specification's answer, and the model-vs-spec verdict.
-/
import Lmd.Render
import Lmd.Passthrough
import Lmd.Locks
import Driver.Ops
import Driver.World

open Lean (Json)
open Lmd Driver

/-- a cluster of nodes over the backends of the synchronised dataset: every running node's view, its identifier -/
structure ClusterSt where
  nNodes : Nat := 0
  backends : List String := []
  views : List (Option NodeView) := []
  idents : List Nat := []
  nextIdent : Nat := 1

def ClusterSt.replies (c : ClusterSt) (i : Nat) : List PingReply :=
  (List.range c.nNodes).filterMap fun j =>
    if j == i then none else
    match c.views.getD j none with
    | some v => some { pos := j, ident := c.idents.getD j 0, peers := some v.assigned }
    | none => none

def ClusterSt.start (c : ClusterSt) (i : Nat) : ClusterSt :=
  let c := { c with idents := c.idents.set i c.nextIdent, nextIdent := c.nextIdent + 1 }
  let v : NodeView := { own := i, nNodes := c.nNodes }
  { c with views := c.views.set i (some (v.check c.backends (c.replies i))) }

def ClusterSt.check (c : ClusterSt) (i : Nat) : ClusterSt :=
  match c.views.getD i none with
  | some v => { c with views := c.views.set i (some (v.check c.backends (c.replies i))) }
  | none => c

def clusterOps : List String := ["cluster", "cstart", "cstop", "ccheck", "cstate", "cquery", "cend", "creload"]

structure Full where
  st : State
  ws : Option WState := none
  clock : Int := 0
  cl : ClusterSt := {}

def worldOps : List String := ["world", "clock", "advance", "init", "tick", "mutate", "mode", "state", "backend_log", "daemon", "reload", "dstate", "sleep"]

/-- a client query touches the selected peers (`lastQuery`, spin-up from idle) before it is answered -/
def touchPeers (f : Full) (j : Json) : Full :=
  match f.ws with
  | none => f
  | some ws =>
    match parseRequest f.st.schema { optimize := true, q := Quirks.current } (jStr j "text") with
    | .error _ => f
    | .ok req =>
      match f.st.schema.table? req.table with
      | none => f
      | some t =>
        if t.passthrough then f
        else
          let wanted := fun (id : String) => req.backends.isEmpty || req.backends.contains id
          let touch := fun (e : PeerEntry) =>
            if !wanted e.id then e
            else if t.virt == .none then
              let (p, b) := clientQuery ws.w ws.now e.p e.b
              { e with p := p, b := b }
            else { e with p := { e.p with lastQuery := ws.now } }
          let ws' := { ws with peers := ws.peers.map touch }
          { f with ws := some ws', st := { f.st with ds := ws'.dataset f.st.ds } }

/-! ## command sessions (`Lmd.Commands`) -/

/-- the requests of a session text, as `NewRequest` cuts them: a first line, header lines up to an empty line -/
partial def splitChunks : List String → List (List String)
  | [] => []
  | [last] => if trimSpace last == "" then [] else [[last]]
  | first :: rest =>
    if trimSpace first == "" then [] :: splitChunks rest
    else
      let hdrs := rest.takeWhile (fun l => trimSpace l != "")
      (first :: hdrs) :: splitChunks ((rest.dropWhile (fun l => trimSpace l != "")).drop 1)

def classifyChunk (schema : Schema) (idx : Nat) (chunk : List String) : Option CReq :=
  match chunk with
  | [] => some .blank
  | first :: hdrs =>
    let first := trimSpace first
    if first.startsWith "GET " then
      match parseRequest schema { optimize := true, q := Quirks.current } ("\n".intercalate (first :: hdrs)) with
      | .ok req => some (.get idx req.keepAlive)
      | .error (.bad _) => some (.bad idx)
      | .error (.unsupported _) => none
    else if first.startsWith "COMMAND " then
      if isCommandLine first then
        match parseCommandHeaders { optimize := true, q := Quirks.current } {} hdrs with
        | .ok req => some (.cmd first req.backends req.keepAlive)
        | .error _ => some (.bad idx)
      else some (.bad idx)
    else some (.bad idx)

def outcomeJson (peer : String) : CmdOutcome → Json
  | .sent => Json.mkObj [("peer", .str peer), ("outcome", .str "sent")]
  | .rejected c m => Json.mkObj [("peer", .str peer), ("outcome", .str "rejected"), ("code", .num ⟨c, 0⟩), ("msg", .str m)]
  | .lastError => Json.mkObj [("peer", .str peer), ("outcome", .str "last_error")]
  | .retriesExceeded => Json.mkObj [("peer", .str peer), ("outcome", .str "retries_exceeded")]
  | .stillWaiting => Json.mkObj [("peer", .str peer), ("outcome", .str "waiting")]

def parseEnv (j : Json) (peer : String) : List EnvStep :=
  (jStrs (jObj j "env") peer).filterMap fun s =>
    if s == "tick" then some .tick
    else if s.startsWith "tick+mode:" then some (.tickMode (s.drop 10).toString)
    else if s.startsWith "mode:" then some (.mode (s.drop 5).toString)
    else none

def runEvents (j : Json) (chunks : List (List String)) : List Event → Full → List Json → Full × List Json
  | [], f, out => (f, out)
  | ev :: rest, f, out =>
    match ev, f.ws with
    | .flush q, some ws =>
      let (ws, results) := q.foldl (fun (acc : WState × List Json) (peer, cmds) =>
        let (ws, results) := acc
        match ws.peers.find? (·.id == peer) with
        | none => (ws, results)
        | some e =>
          let (p, b, cb, o) := peerSend ws.w ws.now (parseEnv j peer) e.p e.b e.cb cmds
          let pending := if o == .stillWaiting then e.pending ++ [cmds] else e.pending
          (mapPeer ws peer (fun e => { e with p := p, b := b, cb := cb, pending := pending }), results ++ [outcomeJson peer o])) (ws, [])
      let f := { f with ws := some ws, st := { f.st with ds := ws.dataset f.st.ds } }
      runEvents j chunks rest f (out ++ [Json.mkObj [("ev", .str "flush"), ("results", .arr results.toArray)]])
    | .flush _, none => runEvents j chunks rest f out
    | .answer idx, _ =>
      let text := "\n".intercalate (chunks.getD idx []) ++ "\n\n"
      let qj := Json.mkObj [("id", .num ⟨(idx : Int), 0⟩), ("text", .str text), ("optimize", .bool true)]
      let f := touchPeers f qj
      let res := handleQuery f.st qj
      runEvents j chunks rest f (out ++ [Json.mkObj [("ev", .str "answer"), ("idx", .num ⟨(idx : Int), 0⟩), ("text", .str text), ("res", res)]])
    | .parseError idx, _ => runEvents j chunks rest f (out ++ [Json.mkObj [("ev", .str "parse_error"), ("idx", .num ⟨(idx : Int), 0⟩)]])
    | .emptyRequest, _ => runEvents j chunks rest f (out ++ [Json.mkObj [("ev", .str "empty_request")]])

def cmdSession (f : Full) (j : Json) : Full × Json :=
  let id := jNat j "id"
  let base : List (String × Json) := [("id", .num ⟨(id : Int), 0⟩), ("op", .str "cmdsession")]
  let chunks := splitChunks ((jStr j "text").splitOn "\n")
  let classes := (List.range chunks.length).zip chunks |>.map fun (i, c) => classifyChunk f.st.schema i c
  if classes.any Option.isNone then (f, Json.mkObj (base ++ [("unsupported", .bool true)]))
  else
    let reqs := classes.filterMap (fun c => c)
    let peers := match f.ws with | some ws => ws.peers.map (·.id) | none => []
    let events := sessionEvents peers (reqs.length + 2) reqs false
    let (f, out) := runEvents j chunks events f []
    (f, Json.mkObj (base ++ [("events", .arr out.toArray)]))

/-! ## pass-through tables (`Lmd.Passthrough`) -/

def pkeyJson : PKey → Json
  | .num m => Json.mkObj [("n", .num ⟨m, 0⟩)]
  | .str s => Json.mkObj [("s", .str s)]
  | .any => .str "*"

def parsePTPeer (j : Json) : PTPeer :=
  let reply := match (j.getObjVal? "reply").toOption with
    | some (.arr rows) => some (rows.toList.map fun r => match r with | .arr cells => cells.toList | _ => [])
    | _ => none
  { id := jStr j "id", name := jStr j "name", online := jBool j "online", lastError := jStr j "last_error", reply := reply, err := jStr j "err" }

def passthroughOp (st : State) (j : Json) : Json :=
  let id := jNat j "id"
  let base : List (String × Json) := [("id", .num ⟨(id : Int), 0⟩), ("op", .str "passthrough")]
  match parseRequest st.schema { optimize := true, q := Quirks.current } (jStr j "text") with
  | .error (.bad msg) => Json.mkObj (base ++ [("kind", .str "bad"), ("msg", .str msg)])
  | .error (.unsupported why) => Json.mkObj (base ++ [("unsupported", .bool true), ("why", .str why)])
  | .ok req =>
    match st.schema.table? req.table with
    | none => Json.mkObj (base ++ [("kind", .str "bad"), ("msg", .str "table")])
    | some t =>
      if !t.passthrough then Json.mkObj (base ++ [("unsupported", .bool true), ("why", .str "not a pass-through table")])
      else
        let all := (jArr j "peers").map parsePTPeer
        let ids := all.map (·.id)
        let unknown := req.backends.filter (fun b => !ids.contains b)
        let peers := all.filter fun p => req.backends.isEmpty || req.backends.contains p.id
        let unknownFailed := unknown.map fun b => (b, "bad request: backend " ++ b ++ " does not exist")
        -- the 502 rule of NewResponse: every named backend failed before anything was asked
        if req.outFmt != .wrapped && !unknownFailed.isEmpty && unknownFailed.eraseDups.length == req.backends.length then
          Json.mkObj (base ++ [("kind", .str "error502")])
        else
          let plan := ptPlan t req
          let sub := (subRequest req plan).print
          let asked := Json.mkObj (all.map fun p => (p.id, Json.bool (peers.any (·.id == p.id) && p.online)))
          let failedJson := fun (f : List (String × String)) => Json.mkObj ((f ++ unknownFailed).map fun (k, v) => (k, Json.str v))
          let common : List (String × Json) := base ++ [("sub", .str (String.ofList (sub.toList.reverse.dropWhile (· == '\n')).reverse)), ("asked", asked),
            ("header_row", .bool (req.stats.isEmpty && (req.colHeaders || req.columns.isEmpty)))]
          if req.stats.isEmpty then
            let d := ptData t req peers
            let descs := (req.sort.filter (·.col.isSome)).map (·.desc)
            -- is the window determined? (a Sort is given and no two rows tie on all keys, or nothing is cut and there are no ties)
            let strict := (List.range d.keys.length).all fun i =>
              match d.keys[i]?, d.keys[i+1]? with
              | some a, some b => ptCmp (descs.zip (a.zip b)) == .lt
              | _, _ => true
            let sorted := !req.sort.isEmpty
            let windowKeys := (match req.limit with
              | some l => (if req.offset > d.total then [] else d.keys.drop req.offset).take l
              | none => (if req.offset > d.total then [] else d.keys.drop req.offset))
            Json.mkObj (common ++ [("kind", .str "data"), ("rows", .arr (d.rows.map (fun r => Json.arr r.toArray)).toArray),
              ("keys", .arr (d.keys.map (fun k => Json.arr (k.map pkeyJson).toArray)).toArray),
              ("window", .arr (d.window.map (fun r => Json.arr r.toArray)).toArray),
              ("window_keys", .arr (windowKeys.map (fun k => Json.arr (k.map pkeyJson).toArray)).toArray),
              ("total", .num ⟨(d.total : Int), 0⟩), ("sorted", .bool sorted), ("offset", .num ⟨(req.offset : Int), 0⟩),
              ("limit", match req.limit with | some l => .num ⟨(l : Int), 0⟩ | none => .null), ("window_exact", .bool (sorted && strict)),
              ("failed", failedJson d.failed)])
          else
            let s := ptStats t req peers
            let rows := s.rows.map fun (k, accs) =>
              Json.arr #[Json.arr (k.map Json.str).toArray, Json.arr (accs.map (fun a => let (n, d) := a.final; Json.arr #[.num ⟨n, 0⟩, .num ⟨((if a.kind == .counter then d else d * 1000 : Nat) : Int), 0⟩])).toArray]
            Json.mkObj (common ++ [("kind", .str "stats"), ("stats", .arr rows.toArray), ("nkey", .num ⟨((requestColumns t req).length : Int), 0⟩),
              ("kinds", .arr ((req.stats.map fun e => Json.str (match e.accKind with | .counter => "counter" | .sum => "sum" | .avg => "avg" | .min => "min" | .max => "max")).toArray)),
              ("skipped", .num ⟨(s.skipped : Int), 0⟩), ("failed", failedJson s.failed)])

partial def loop (h : IO.FS.Stream) (out : IO.FS.Stream) (f : Full) : IO Unit := do
  let line ← h.getLine
  if line.isEmpty then return ()
  if line.trimAscii.toString.isEmpty then
    loop h out f
  else
    match Json.parse line with
    | .error e =>
      out.putStrLn (Json.compress (Json.mkObj [("error", .str s!"json: {e}")]))
      out.flush
      loop h out f
    | .ok j =>
      let op := jStr j "op"
      if worldOps.contains op then
        let (ws', clock', res) := worldStep f.st.schema f.ws f.clock j
        let st' := match ws' with
          | some ws => { f.st with ds := ws.dataset f.st.ds }
          | none => f.st
        match res with
        | some r =>
          out.putStrLn (Json.compress r)
          out.flush
        | none => pure ()
        loop h out { st := st', ws := ws', clock := clock' }
      else if clusterOps.contains op then
        let id := jNat j "id"
        let node := jNat j "node"
        let reply := fun (r : Json) => do
          out.putStrLn (Json.compress r)
          out.flush
        match op with
        | "cluster" =>
          let n := jNat j "nodes"
          let ids := (jArr j "backends").map (fun b => jStr b "id")
          let c0 : ClusterSt := { nNodes := n, backends := ids, views := List.replicate n none, idents := List.replicate n 0 }
          let c := ((jArr j "start").map fun x => match x with | .num m => m.mantissa.toNat | _ => 0).foldl ClusterSt.start c0
          loop h out { f with cl := c }
        | "cstart" => loop h out { f with cl := f.cl.start node }
        -- a reload creates the node accessor anew: a new identifier, an empty view, the first check
        | "creload" => loop h out { f with cl := f.cl.start node }
        | "cstop" => loop h out { f with cl := { f.cl with views := f.cl.views.set node none } }
        | "ccheck" => loop h out { f with cl := f.cl.check node }
        | "cstate" =>
          match f.cl.views.getD node none with
          | none => reply (Json.mkObj [("id", .num ⟨(id : Int), 0⟩), ("op", .str "cstate"), ("down", .bool true)])
          | some v =>
            reply (Json.mkObj [("id", .num ⟨(id : Int), 0⟩), ("op", .str "cstate"), ("state", Json.mkObj [
              ("own", .num ⟨(v.own : Int), 0⟩),
              ("online", .arr (v.online.map (fun (x : Nat) => Json.num ⟨(x : Int), 0⟩)).toArray),
              ("node_backends", Json.mkObj (v.nodeBackends.map fun (k, l) => (toString k, Json.arr (l.map Json.str).toArray))),
              ("assigned", .arr (v.assigned.map Json.str).toArray)])])
          loop h out f
        | "cquery" =>
          match f.cl.views.getD node none with
          | none => reply (Json.mkObj [("id", .num ⟨(id : Int), 0⟩), ("op", .str "cquery"), ("parse", .str "unsupported"), ("why", .str "node is down")])
          | some v =>
            let shares := (v.nodeBackends.mergeSort (fun a b => a.1 ≤ b.1)).map (·.2)
            reply (handleQuery f.st j (some (shares, v.assigned)))
          loop h out f
        | _ => loop h out f
      else if op == "locks" then
        let id := jNat j "id"
        let base : List (String × Json) := [("id", .num ⟨(id : Int), 0⟩), ("op", .str "locks")]
        let r := match parseRequest f.st.schema { optimize := true, q := Quirks.current } (jStr j "text") with
          | .error (.bad msg) => Json.mkObj (base ++ [("bad", .str msg)])
          | .error (.unsupported why) => Json.mkObj (base ++ [("unsupported", .str why)])
          | .ok req =>
            match f.st.schema.table? req.table with
            | none => Json.mkObj (base ++ [("bad", .str "table")])
            | some t => Json.mkObj (base ++ [("affected", .arr ((affectedTables f.st.schema t req).map Json.str).toArray),
                ("reads", .arr ((tablesRead f.st.schema t req).eraseDups.map Json.str).toArray)])
        out.putStrLn (Json.compress r)
        out.flush
        loop h out f
      else if op == "ping" then
        out.putStrLn (Json.compress (Json.mkObj [("pong", .num ⟨(jNat j "id" : Int), 0⟩)]))
        out.flush
        loop h out f
      else if op == "passthrough" then
        out.putStrLn (Json.compress (passthroughOp f.st j))
        out.flush
        loop h out f
      else if op == "cmdsession" then
        let (f', r) := cmdSession f j
        out.putStrLn (Json.compress r)
        out.flush
        loop h out f'
      else
        let (op, j) := if op == "dquery" then ("query", j.setObjVal! "op" (Json.str "query")) else (op, j)
        let f := if op == "query" then touchPeers f j else f
        let f := if op == "dataset" || op == "sync" then { f with ws := none } else f
        let (st', res) := step f.st j
        match res with
        | some r =>
          out.putStrLn (Json.compress r)
          out.flush
        | none => pure ()
        loop h out { f with st := st' }

def main (args : List String) : IO UInt32 := do
  match args with
  | [schemaFile] =>
    let txt ← IO.FS.readFile schemaFile
    match Json.parse txt with
    | .error e =>
      IO.eprintln s!"schema: {e}"
      return 2
    | .ok j =>
      let schema := parseSchema j
      let stdin ← IO.getStdin
      let stdout ← IO.getStdout
      loop stdin stdout { st := { schema := schema, ds := { backends := [] } } }
      return 0
  | _ =>
    IO.eprintln "usage: lmdmodel <schema.json>"
    return 2
