/-
  Lmd.Render — the value a response cell carries (`DataRow.WriteJSONColumn` and friends) as a JSON
  value, plus the response shapes of `Response.JSON` / `WrappedJSON`.
-/
import Lmd.Stats

namespace Lmd
open Lean (Json JsonNumber)

def milliJson (m : Int) : Json := .num ⟨m, 3⟩
def intJson (i : Int) : Json := .num ⟨i, 0⟩

/-- `WriteJSONEmptyColumn` -/
def emptyCellJson : DataType → Json
  | .str | .strLarge => .str ""
  | .int | .int64 | .float => intJson (-1)
  | .int64List | .strList | .svcMemberList | .ifaceList => .arr #[]
  | .customVar | .json => .mkObj []

/-- JSON of a typed value (`WriteJSONLocalColumn` / `WriteJSONVirtualColumn`) -/
def valJson : Val → Json
  | .s v => .str v
  | .i v => intJson v
  | .f m => milliJson m
  | .sl v => .arr (v.map Json.str).toArray
  | .il v => .arr (v.map intJson).toArray
  | .ml v => .arr (v.map (fun (a, b) => Json.arr #[.str a, .str b])).toArray
  | .jl v => .arr v.toArray
  | .cv ns vs =>
    let rec go : List String → List String → List (String × Json)
      | [], _ => []
      | n :: ns, [] => (n, Json.null) :: go ns []       -- the livestatus writer prints null for a name without a value
      | n :: ns, v :: vs => (n, Json.str v) :: go ns vs
    .mkObj (go ns vs)
  | .crash w => .str ("<crash:" ++ w ++ ">")
  | .emptyList t => if t == "[]" then .arr #[] else .mkObj []

/-- `DataRow.WriteJSONColumn` -/
def cellJson (cx : Ctx) (t : Table) (r : Row) (c : Column) : Json :=
  if c.optional != 0 && !hasFlag cx.b.flags c.optional then emptyCellJson c.dtype
  else
    match c.storage with
    | .loc => valJson (localVal t r c)
    | .ref =>
      match refRow cx t r c.refTable with
      | none => emptyCellJson c.dtype
      | some rr =>
        let rt := cx.table c.refTable
        match rt.col? c.refCol with
        | none => .null
        | some rc =>
          -- the referenced column is written by the referenced row (`ref.WriteJSONColumn(col.RefCol)`)
          if rc.optional != 0 && !hasFlag cx.b.flags rc.optional then emptyCellJson rc.dtype
          else match rc.storage with
            | .loc => valJson (localVal rt rr rc)
            | _ => valJson (getVal cx rt rr rc)
    | .virt =>
      match c.dtype with
      | .customVar =>
        -- `custom_variable_names` may itself be optional (contacts on non-Naemon backends)
        match t.col? "custom_variable_names" with
        | some nc => if nc.optional != 0 && !hasFlag cx.b.flags nc.optional then .mkObj [] else valJson (getVal cx t r c)
        | none => valJson (getVal cx t r c)
      | _ => valJson (getVal cx t r c)

/-- the columns of the response (`SetRequestColumns`) -/
def requestColumns (t : Table) (req : Request) : List Column :=
  if req.columns.isEmpty && req.stats.isEmpty then t.cols else req.columns.map t.colWithFallback

def hitJson (s : Schema) (ds : Dataset) (t : Table) (cols : List Column) (h : Hit) : Json :=
  let cx : Ctx := { schema := s, ds := ds, b := h.b }
  .arr (cols.map (cellJson cx t h.r)).toArray

end Lmd
