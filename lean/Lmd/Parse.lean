/-
  Lmd.Parse — the request parser: `NewRequest`, `ParseRequestHeaderLine`, `ParseFilter`,
  `setFilterValue`, `setLowerCaseColumn`, `setRegexFilter`, `hasRegexpCharacters`, `ParseStats`,
  `parseFilterGroupOp`, `parseStatsGroupOp`, `ParseFilterNegate`, `parseSortHeader`,
  `optimizeFilterIndentation` of pkg/lmd/{request,filter}.go as a stack machine over header lines.
-/
import Lmd.Filter

namespace Lmd

inductive AggKind | sum | avg | min | max
  deriving DecidableEq, Repr, Inhabited

/-- an entry of `Request.Stats` -/
inductive StatsEntry
  | counter (f : Filter)
  | agg (k : AggKind) (col : Column) (neg : Bool)
  deriving Inhabited

structure SortField where
  name : String
  desc : Bool
  args : String := ""
  col : Option Column := none
  deriving Inhabited

inductive OutFmt | dflt | json | wrapped | python | python3
  deriving DecidableEq, Repr, Inhabited

structure Request where
  table : String := ""
  filter : List Filter := []          -- the stack, bottom first
  stats : List StatsEntry := []
  sort : List SortField := []
  columns : List String := []
  backends : List String := []
  limit : Option Nat := none
  offset : Nat := 0
  outFmt : OutFmt := .dflt
  fixed16 : Bool := false
  colHeaders : Bool := false
  keepAlive : Bool := false
  authUser : String := ""
  waitTrigger : String := ""
  waitObject : String := ""
  waitTimeout : Nat := 0
  waitCondition : List Filter := []
  waitConditionNegate : Bool := false
  numFilter : Nat := 0
  deriving Inhabited

inductive ParseErr
  | bad (msg : String)       -- the real parser answers 400
  | unsupported (why : String)  -- outside the modelled input class; the case is not compared
  deriving Inhabited, Repr

abbrev PM := Except ParseErr

structure ParseOpts where
  optimize : Bool
  q : Quirks
  /-- specification mode for a request that the daemon parses with `ParseOptimize`: read the dots of
      the documented host-name heuristic literally (the one deviation property C07 permits) -/
  specDots : Bool := false

/-! ### operators -/

/-- `parseFilterOp`: operator and whether it is a regular-expression operator -/
def parseOp (s : String) : Option (Op × Bool) :=
  match s with
  | "=" => some (.eq, false)
  | "=~" => some (.eqNc, false)
  | "~" => some (.re, true)
  | "!~" => some (.nre, true)
  | "~~" => some (.reNc, true)
  | "!~~" => some (.nreNc, true)
  | "!=" => some (.ne, false)
  | "!=~" => some (.neNc, false)
  | "<" => some (.lt, false)
  | "<=" => some (.le, false)
  | ">" => some (.gt, false)
  | ">=" => some (.ge, false)
  | "!>=" => some (.gcn, false)
  | "like" => some (.ct, false)
  | "unlike" => some (.nct, false)
  | "ilike" => some (.ctNc, false)
  | "iunlike" => some (.nctNc, false)
  | _ => none

/-- `Operator.String` -/
def Op.text : Op → String
  | .eq => "=" | .ne => "!=" | .eqNc => "=~" | .neNc => "!=~"
  | .re => "~" | .nre => "!~" | .reNc => "~~" | .nreNc => "!~~"
  | .ct => "~" | .nct => "!~" | .ctNc => "~~" | .nctNc => "!~~"
  | .lt => "<" | .le => "<=" | .gt => ">" | .ge => ">="
  | .gcn => "!>="

/-! ### `hasRegexpCharacters` -/

def isAlnumAscii (c : Char) : Bool := ('a' ≤ c && c ≤ 'z') || ('A' ≤ c && c ≤ 'Z') || ('0' ≤ c && c ≤ '9')
def isAlphaAscii (c : Char) : Bool := ('a' ≤ c && c ≤ 'z') || ('A' ≤ c && c ≤ 'Z')

/-- `reRegexDotReplace.ReplaceAllString(val, "")` for `[a-zA-Z0-9]\.[a-zA-Z]`: leftmost, non-overlapping -/
def removeDotTriples : List Char → List Char
  | a :: '.' :: b :: rest =>
    if isAlnumAscii a && isAlphaAscii b then removeDotTriples rest
    else a :: removeDotTriples ('.' :: b :: rest)
  | c :: rest => c :: removeDotTriples rest
  | [] => []

def regexMetaChars : List Char := ['|', '(', '[', '{', '*', '+', '?', '^', '\\', '$']

/-- `hasRegexpCharacters` -/
def hasRegexpCharacters (val : String) : Bool :=
  let cs := val.toList
  if cs.any (fun c => regexMetaChars.contains c) then true
  else if cs.contains '.' then
    if val.utf8ByteSize < 4 then true
    else (removeDotTriples cs).contains '.'
  else false

/-! ### `ParseFilter` -/

def isNumericType : DataType → Bool
  | .int | .int64 | .int64List | .float => true
  | _ => false

def isNumericOp : Op → Bool
  | .eq | .ne | .gt | .ge | .lt | .le | .gcn => true
  | _ => false

/-- could Go's `strconv.ParseFloat` accept something our decimal parser does not? -/
def mayBeGoFloat (s : String) : Bool :=
  let l := goLower s
  s.toList.any isDigit || strContains l "inf" || strContains l "nan"

/-- `Filter.setFilterValue` -/
def setFilterValue (l : Leaf) (raw : String) : PM Leaf := do
  let strVal := trimSpace raw
  let l := { l with isEmpty := strVal == "", sval := strVal }
  if isNumericType l.col.dtype then
    if isNumericOp l.op && !l.isEmpty then
      match parseMilli? strVal with
      | some m => pure { l with num := m }
      | none =>
        if mayBeGoFloat strVal then throw (.unsupported s!"number syntax {strVal}")
        else throw (.bad "could not convert to number")
    else pure l
  else if l.col.dtype == .customVar then
    match splitN ' ' 2 strVal with
    | [] => throw (.bad "custom variable filter")
    | [tag] => if tag == "" then throw (.bad "custom variable filter") else pure { l with isEmpty := true, tag := tag }
    | tag :: v :: _ => if tag == "" then throw (.bad "custom variable filter") else pure { l with sval := v, tag := tag }
  else pure l

/-- `Filter.setLowerCaseColumn` -/
def setLowerCaseColumn (t : Table) (l : Leaf) : Leaf :=
  if t.name != "hosts" && t.name != "services" then l
  else
    let op? : Option Op := match l.op with
      | .ctNc => some .ct
      | .nctNc => some .nct
      | .reNc => some .re
      | .nreNc => some .nre
      | _ => none
    match op? with
    | none => l
    | some op =>
      if (l.op == .reNc || l.op == .nreNc) && l.sval.toList.contains '\\' then l else
      match t.col? (l.col.name ++ "_lc") with
      | none => l
      | some c => { l with col := c, op := op, sval := goLower l.sval }

/-- escape every dot (used when the host-name heuristic declares the dots of a pattern literal) -/
def escapeDots (s : String) : String :=
  String.ofList (s.toList.flatMap (fun c => if c == '.' then ['\\', '.'] else [c]))

/-- the permitted deviation of C07: where the optimised parser reads a pattern as plain text because
    `hasRegexpCharacters` does not recognise it as a regular expression (dots between alphanumerics),
    the specification reads these dots literally, too.  It applies to exactly the leaves the optimised
    parser rewrites: `^text$` on string columns with `~`/`~~`, and patterns without any meta character. -/
def heuristicLiteral (isStringCol : Bool) (op : Op) (val : String) : String :=
  let inner := trimSuffix (trimPrefix val "^") "$"
  if isStringCol && hasPrefix val "^" && hasSuffix val "$" && !hasRegexpCharacters inner && (op == .re || op == .reNc) then
    "^" ++ escapeDots inner ++ "$"
  else if !hasRegexpCharacters val then escapeDots val
  else val

/-- `Filter.setRegexFilter` -/
def setRegexFilter (optimize : Bool) (l : Leaf) (specDots : Bool := false) : PM Leaf := do
  let val := trimSuffix (trimPrefix l.sval ".*") ".*"
  let val := if specDots then heuristicLiteral (l.col.dtype == .str || l.col.dtype == .strLarge) l.op val else val
  let isStringCol := l.col.dtype == .str || l.col.dtype == .strLarge
  let l :=
    if isStringCol && optimize && hasPrefix val "^" && hasSuffix val "$" then
      let val2 := trimSuffix (trimPrefix val "^") "$"
      if !hasRegexpCharacters val2 then
        match l.op with
        | .re => { l with op := .eq, sval := val2 }
        | .reNc => { l with op := .eqNc, sval := val2 }
        | _ => l
      else l
    else l
  if optimize && !hasRegexpCharacters val then
    match l.op with
    | .re => pure { l with op := .ct, sval := val }
    | .nre => pure { l with op := .nct, sval := val }
    | .reNc => pure { l with op := .ctNc, sval := goLower val }
    | .nreNc => pure { l with op := .nctNc, sval := goLower val }
    | _ => pure l
  else
    let pat := if l.op == .nreNc || l.op == .reNc then "(?i)" ++ val else val
    match compileRegex pat with
    | .ok r => pure { l with rx := some r }
    | .invalid => throw (.bad "invalid regular expression")
    | .unsupported => throw (.unsupported s!"regex {pat}")

/-- `ParseFilter`: one `Filter:` (or counter `Stats:`) line into a leaf -/
def parseFilterLeaf (o : ParseOpts) (t : Table) (value : String) : PM Leaf := do
  match splitN ' ' 3 value with
  | colName :: opText :: rest =>
    let raw := match rest with | [] => "" | v :: _ => v
    match parseOp opText with
    | none => throw (.bad "unrecognized filter operator")
    | some (op, isRegex) =>
      let col := t.colWithFallback colName
      let l : Leaf := { col := col, op := op, colOptional := col.optional }
      let l ← setFilterValue l raw
      let l := if op == .ctNc || op == .nctNc then { l with sval := goLower l.sval } else l
      let l := if o.optimize then setLowerCaseColumn t l else l
      if isRegex then setRegexFilter o.optimize l o.specDots else pure l
  | _ => throw (.bad "filter header must be Filter: <field> <operator> <value>")

/-- `parseFilterGroupOp` on a stack (bottom first) -/
def groupOp (isAnd : Bool) (value : String) (stack : List Filter) : PM (List Filter) :=
  match atoi? value with
  | none => throw (.bad "must be a positive number")
  | some n =>
    if n < 0 then throw (.bad "must be a positive number")
    else if n == 0 then pure stack
    else
      let k := n.toNat
      if stack.length < k then throw (.bad "not enough filter on stack")
      else
        let keep := stack.take (stack.length - k)
        let grouped := stack.drop (stack.length - k)
        pure (keep ++ [Filter.grp isAnd grouped false])

def Filter.setNeg (q : Quirks) : Filter → Filter
  | .leaf l n => .leaf l (if q.negOr then true else !n)
  | .grp a fs n => .grp a fs (if q.negOr then true else !n)

/-- replace the last element of a non-empty list -/
def mapLast {α} (f : α → α) : List α → List α
  | [] => []
  | [a] => [f a]
  | a :: as => a :: mapLast f as

/-- `ParseFilterNegate`: the code *sets* the mark (so a repeated `Negate:` is absorbed); Livestatus toggles.
    The repaired behaviour shares the switch `negOr` (both are the same defect: negation is not an involution). -/
def negateTop (q : Quirks) (stack : List Filter) : PM (List Filter) :=
  if stack.isEmpty then throw (.bad "no filter/stats on stack to negate")
  else pure (mapLast (Filter.setNeg q) stack)

/-! ### Stats -/

def StatsEntry.setNeg (q : Quirks) : StatsEntry → StatsEntry
  | .counter f => .counter (f.setNeg q)
  | .agg k c _ => .agg k c true

def statsAsFilters : List StatsEntry → Option (List Filter)
  | [] => some []
  | .counter f :: rest => (statsAsFilters rest).map (f :: ·)
  | .agg .. :: _ => none

/-- `ParseStats` -/
def parseStats (o : ParseOpts) (t : Table) (value : String) (stack : List StatsEntry) : PM (List StatsEntry) := do
  match splitN ' ' 2 value with
  | [kind, rest] =>
    let agg? : Option AggKind := match goLower kind with
      | "avg" => some .avg | "min" => some .min | "max" => some .max | "sum" => some .sum | _ => none
    match agg? with
    | some k => pure (stack ++ [.agg k (t.colWithFallback rest) false])
    | none =>
      let l ← parseFilterLeaf o t value
      pure (stack ++ [.counter (.leaf l false)])
  | _ => throw (.bad "stats header")

/-- `parseStatsGroupOp` -/
def statsGroupOp (o : ParseOpts) (t : Table) (isAnd : Bool) (value : String) (stack : List StatsEntry) : PM (List StatsEntry) := do
  if atoi? value == some 0 then parseStats o t "state != 9999" stack
  else
    match atoi? value with
    | none => throw (.bad "must be a positive number")
    | some n =>
      if n < 0 then throw (.bad "must be a positive number")
      else
        let k := n.toNat
        if stack.length < k then throw (.bad "not enough filter on stack")
        else
          let keep := stack.take (stack.length - k)
          match statsAsFilters (stack.drop (stack.length - k)) with
          | none => throw (.bad "only counters can be combined")
          | some fs => pure (keep ++ [.counter (.grp isAnd fs false)])

/-! ### other headers -/

def parseNat (value : String) (minValue : Nat) : PM Nat :=
  match atoi? value with
  | some n => if n < (minValue : Int) then throw (.bad "expecting a positive number") else pure n.toNat
  | none => throw (.bad "expecting a positive number")

def parseOnOff (value : String) : PM Bool :=
  match value with
  | "on" => pure true
  | "off" => pure false
  | _ => throw (.bad "must be 'on' or 'off'")

/-- `parseSortHeader` -/
def parseSort (value : String) : PM SortField := do
  if value == "" then throw (.bad "invalid sort header")
  let parts := splitN ' ' 3 value
  let (name, dirTxt, args) ← match parts with
    | [a, b, c] =>
      if a != "custom_variables" && a != "host_custom_variables" then throw (ParseErr.bad "invalid sort header")
      else pure (a, c, goUpper b)
    | [a, b] => pure (a, b, "")
    | [a] => pure (a, "", "")
    | _ => throw (ParseErr.bad "invalid sort header")
  let desc ←
    if dirTxt == "" then pure false
    else if equalFold dirTxt "asc" then pure false
    else if equalFold dirTxt "desc" then pure true
    else throw (ParseErr.bad "unrecognized sort direction")
  pure { name := goLower name, desc := desc, args := args }

/-- `Request.ParseRequestHeaderLine` -/
def parseHeaderLine (o : ParseOpts) (t : Table) (req : Request) (line : String) : PM Request := do
  match cut ':' line with
  | (_, none) => throw (.bad "syntax error")
  | (hdr, some rest) =>
    let args := trimLeftSpaces rest
    match goLower hdr with
    | "filter" =>
      let l ← parseFilterLeaf o t args
      pure { req with filter := req.filter ++ [.leaf l false], numFilter := req.numFilter + 1 }
    | "and" => do pure { req with filter := ← groupOp true args req.filter }
    | "or" => do pure { req with filter := ← groupOp false args req.filter }
    | "negate" => do pure { req with filter := ← negateTop o.q req.filter }
    | "stats" => do pure { req with stats := ← parseStats o t args req.stats, numFilter := req.numFilter + 1 }
    | "statsand" => do pure { req with stats := ← statsGroupOp o t true args req.stats }
    | "statsor" => do pure { req with stats := ← statsGroupOp o t false args req.stats }
    | "statsnegate" =>
      if req.stats.isEmpty then throw (.bad "no filter/stats on stack to negate")
      else pure { req with stats := mapLast (StatsEntry.setNeg o.q) req.stats }
    | "sort" => do pure { req with sort := req.sort ++ [← parseSort args] }
    | "limit" => do pure { req with limit := some (← parseNat args 0) }
    | "offset" => do pure { req with offset := ← parseNat args 0 }
    | "backends" => pure { req with backends := fields args }
    | "columns" => pure { req with columns := req.columns ++ fields args }
    | "responseheader" =>
      if args == "fixed16" then pure { req with fixed16 := true } else throw (.bad "unrecognized responseformat")
    | "outputformat" =>
      match args with
      | "wrapped_json" => pure { req with outFmt := .wrapped }
      | "json" => pure { req with outFmt := .json }
      | "python" => pure { req with outFmt := .python }
      | "python3" => pure { req with outFmt := .python3 }
      | _ => throw (.bad "unrecognized outputformat")
    | "waittimeout" => do pure { req with waitTimeout := ← parseNat args 1 }
    | "waittrigger" => pure { req with waitTrigger := args }
    | "waitobject" => pure { req with waitObject := args }
    | "waitcondition" =>
      let l ← parseFilterLeaf o t args
      pure { req with waitCondition := req.waitCondition ++ [.leaf l false], numFilter := req.numFilter + 1 }
    | "waitconditionand" => throw (.unsupported "WaitConditionAnd")
    | "waitconditionor" => throw (.unsupported "WaitConditionOr")
    | "waitconditionnegate" => pure { req with waitConditionNegate := true }
    | "keepalive" => do pure { req with keepAlive := ← parseOnOff args }
    | "columnheaders" => do pure { req with colHeaders := ← parseOnOff args }
    | "localtime" => pure req
    | "authuser" => if args != "" then pure { req with authUser := args } else throw (.bad "AuthUser should not be empty")
    | _ => throw (.bad "unrecognized header")

def parseHeaderLines (o : ParseOpts) (t : Table) : Request → List String → PM Request
  | req, [] => pure req
  | req, line :: rest =>
    let line := trimSpace line
    if line == "" then pure req
    else do
      let req ← parseHeaderLine o t req line
      parseHeaderLines o t req rest

/-- `optimizeFilterIndentation`: unwrap a single non-negated top-level `And` (repeatedly) -/
def optimizeIndentation : Nat → List Filter → List Filter
  | 0, fs => fs
  | fuel + 1, [.grp true (f :: fs) false] => optimizeIndentation fuel (f :: fs)
  | _, fs => fs

mutual
  def Filter.depth : Filter → Nat
    | .leaf _ _ => 1
    | .grp _ fs _ => 1 + Filter.depthList fs
  def Filter.depthList : List Filter → Nat
    | [] => 0
    | f :: fs => max (Filter.depth f) (Filter.depthList fs)
end

/-- the first line: `GET <table>` (the regular expression `^GET +([a-z]+)$`) -/
def parseAction (first : String) : PM String :=
  let line := trimSpace first
  if hasPrefix line "GET " then
    let name := String.ofList (dropWhileL (· == ' ') (line.toList.drop 4))
    if name != "" && name.toList.all (fun c => 'a' ≤ c && c ≤ 'z') then pure name
    else throw (.bad "bad request")
  else if hasPrefix line "COMMAND " then throw (.unsupported "command")
  else throw (.bad "bad request")

/-- split a request text into lines (at `\n`) -/
def splitLines (text : String) : List String := text.splitOn "\n"

/-- `NewRequest` for GET requests -/
def parseRequest (s : Schema) (o : ParseOpts) (text : String) : PM Request := do
  match splitLines text with
  | [] => throw (.bad "empty")
  | first :: lines =>
    let tname ← parseAction first
    match s.table? tname with
    | none => throw (.bad "table does not exist")
    | some t =>
      let req ← parseHeaderLines o t { table := tname } lines
      let req := if o.optimize then { req with filter := optimizeIndentation (Filter.depthList req.filter + 1) req.filter } else req
      -- SetSortColumns
      let sort := req.sort.map fun sf => { sf with col := t.col? sf.name }
      if sort.any (fun sf => sf.col.isNone) then throw (.bad "unknown sort column")
      else pure { req with sort := sort }

end Lmd
