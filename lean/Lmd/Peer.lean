/-
  Lmd.Peer — one backend peer as a state machine: availability (`setNextAddrFromErr`, `resetErrors`,
  `updateIdleStatus`, `ResumeFromIdle`, `handleBrokenPeer`), the update loop body (`periodicUpdate`,
  `initTablesIfRestartRequiredError`), the initial synchronisation (`InitAllTables`), the delta update
  (`UpdateDelta`: status with `CheckBackendRestarted`, hosts/services windows with the periodic full
  scan, comments/downtimes diff), `UpdateFullTable`, and the timeperiod refresh — against a scripted
  backend whose replies are computed from its object set.

  Time is in whole seconds (`Int`); every step receives `now`.  The model never reads a clock.
-/
import Lmd.Sync

namespace Lmd
open Lean (Json)

/-! ## configuration and backend -/

structure Cfg where
  updateInterval : Int := 7
  fullUpdateInterval : Int := 0
  staleTimeout : Int := 30
  idleTimeout : Int := 120
  idleInterval : Int := 1800
  updateOffset : Int := 3
  syncIsExecuting : Bool := true
  deriving Repr, Inhabited

/-- a source address of a peer -/
inductive Addr | self | dead
  deriving DecidableEq, Repr, Inhabited

/-- the scripted backend: object set, failure mode, countdown to a failure -/
structure BackendSt where
  tables : List (String × List ReplyRow)
  cols : List (String × List String)       -- the columns each table knows (for flag detection)
  mode : String := "ok"                    -- ok | refuse | garbage | badheader | truncate | error500 | closeearly | badjson | wrongwidth
  failAfter : Option Nat := none
  failMode : String := "closeearly"
  hits : Nat := 0                          -- queries received
  deriving Inhabited

inductive FetchErr
  | conn            -- connection could not be opened
  | resp            -- a reply that cannot be used (garbage, truncated, error code, closed early)
  deriving DecidableEq, Repr, Inhabited

def BackendSt.rows (b : BackendSt) (t : String) : List ReplyRow :=
  match b.tables.find? (·.1 == t) with
  | some (_, rs) => rs
  | none => []

/-- the backend receives one request: count-down, mode switch, outcome -/
def BackendSt.hit (b : BackendSt) : BackendSt × Bool :=
  let b := { b with hits := b.hits + 1 }
  let b := match b.failAfter with
    | some 0 => { b with mode := b.failMode, failAfter := none }
    | some (n + 1) => { b with failAfter := some n }
    | none => b
  (b, b.mode == "ok" || b.mode == "wrongwidth")

/-! ## peer state -/

structure PeerSt where
  sources : List Addr := [.self]
  addrIdx : Nat := 0                -- curPeerAddrNum
  addr : Addr := .self              -- peerAddr
  status : PeerState := .pending
  cache : Option (List (String × List Row)) := none
  lastError : String := "connecting..."
  lastOnline : Int := 0
  lastUpdate : Int := 0
  lastFullUpdate : Int := 0
  lastFullHostUpdate : Int := 0
  lastFullServiceUpdate : Int := 0
  lastQuery : Int := 0
  idling : Bool := false
  errorCount : Nat := 0
  lastTpMinute : Int := -1
  programStart : Int := 0
  corePid : Int := 0
  forceFull : Bool := false
  flags : Nat := 0
  cfgFlags : Nat := 0               -- the flags of the connection's configuration (`ResetFlags`)
  deriving Inhabited

structure World where
  cfg : Cfg
  schema : Schema
  mainRestart : Int
  deriving Inhabited

/-- error classes reported by a step -/
inductive StepErr
  | none
  | failed (msg : String)
  | restartRequired
  deriving DecidableEq, Repr, Inhabited

/-- `setNextAddrFromErr`: record the failure, rotate the source, Up/Pending/Syncing → Warning only with data,
    drop the data once the backend was not seen for `StaleBackendTimeout` (or never, after more failures than sources) -/
def PeerSt.fail (w : World) (p : PeerSt) (now : Int) (msg : String) : PeerSt :=
  let errorCount := p.errorCount + 1
  let n := p.sources.length
  let next := if p.addrIdx + 1 ≥ n then 0 else p.addrIdx + 1
  let addr := p.sources.getD next .self
  let status :=
    match p.status with
    | .up | .pending | .syncing => if p.cache.isSome then PeerState.warning else p.status
    | s => s
  let p := { p with errorCount := errorCount, addrIdx := next, addr := addr, lastError := msg, status := status }
  if p.lastOnline < now - w.cfg.staleTimeout || (errorCount > n && p.lastOnline ≤ 0) then
    { p with status := .down, cache := none }
  else p

/-- `resetErrors` -/
def PeerSt.recovered (p : PeerSt) (now : Int) : PeerSt :=
  { p with lastError := "", lastOnline := now, errorCount := 0, status := .up }

/-- one request to the backend through `Peer.Query`: connection attempts over the sources (each failed
    attempt is a `setNextAddrFromErr`), then the reply; any failure is recorded once more by `Query` -/
def query (w : World) (now : Int) (p : PeerSt) (b : BackendSt) (handled : Bool := true) : PeerSt × BackendSt × Option FetchErr :=
  -- tryConnection: at most |sources| attempts, each on the current address
  let rec connect : Nat → Bool → PeerSt → PeerSt × Bool
    | 0, _, p => (p, false)
    | k + 1, retried, p =>
      if p.addr == .self && b.mode != "refuse" then
        -- "active source changed": a connection that succeeds after a failed attempt resets the flags (`ResetFlags`)
        (if retried then { p with flags := p.cfgFlags } else p, true)
      else connect k true (p.fail w now "connection failed")
  let (p, connected) := connect p.sources.length false p
  if !connected then
    (if handled then p.fail w now "connection failed" else p, b, some .conn)
  else
    let (b, ok) := b.hit
    if ok then (p, b, none)
    else (if handled then p.fail w now "bad response" else p, b, some .resp)

/-! ## flags (`checkStatusFlags`, `checkAvailableTables`) -/

def flagBit (s : Schema) (name : String) : Nat :=
  match s.flags.find? (·.1 == name) with
  | some (_, b) => b
  | none => 0

def isIcinga2Version (v : String) : Bool :=
  hasSuffix v "-icinga2" ||
  (match v.toList with
   | 'r' :: rest => !rest.isEmpty && rest.all (fun c => isDigit c || c == '.' || c == '-')
   | _ => false)

def versionFlag (s : Schema) (v : String) : Nat :=
  if hasSuffix v "-shinken" then flagBit s "Shinken"
  else if isIcinga2Version v then flagBit s "Icinga2"
  else if hasSuffix v "-naemon" then flagBit s "Naemon"
  else 0

def columnFlagTable : List (String × String × String) :=
  [ ("status", "localtime", "HasLocaltimeColumn"), ("hosts", "depends_exec", "HasDependencyColumn"),
    ("hosts", "lmd_last_cache_update", "HasLMDLastCacheUpdateColumn"), ("hosts", "last_update", "HasLastUpdateColumn"),
    ("hosts", "event_handler", "HasEventHandlerColumn"), ("hosts", "staleness", "HasStalenessColumn"),
    ("services", "check_freshness", "HasCheckFreshnessColumn"), ("services", "parents", "HasServiceParentsColumn"),
    ("contacts", "groups", "HasContactsGroupColumn"), ("contacts", "host_notification_commands", "HasContactsCommandsColumn") ]

def columnFlags (s : Schema) (b : BackendSt) : Nat :=
  columnFlagTable.foldl (fun acc (t, c, f) =>
    match b.cols.find? (·.1 == t) with
    | some (_, cs) => if cs.contains c then acc ||| flagBit s f else acc
    | none => acc) 0

def replyStr (r : ReplyRow) (c : String) : String :=
  match r.find? (·.1 == c) with
  | some (_, j) => jsonToStr j
  | none => ""

def replyInt (r : ReplyRow) (c : String) : Int :=
  match r.find? (·.1 == c) with
  | some (_, j) => milliTrunc (jsonToMilli j)
  | none => 0

/-! ## table access helpers -/

abbrev Cache := List (String × List Row)

def Cache.get (c : Cache) (t : String) : List Row :=
  match c.find? (·.1 == t) with
  | some (_, rs) => rs
  | none => []

def Cache.set (c : Cache) (t : String) (rs : List Row) : Cache :=
  if c.any (·.1 == t) then c.map (fun (n, old) => if n == t then (n, rs) else (n, old)) else c ++ [(t, rs)]

def updateTables : List String :=
  ["status", "timeperiods", "contacts", "contactgroups", "commands", "hosts", "hostgroups", "services", "servicegroups", "comments", "downtimes"]

/-- the columns a store of this peer holds for table `t` that are refreshed by updates (`dynamicColumnCache`) -/
def dynamicCols (s : Schema) (flags : Nat) (t : String) : List Column :=
  match s.table? t with
  | some tab => tab.cols.filter fun c => c.storage == .loc && c.fetch == "Dynamic" && hasFlag flags c.optional
  | none => []

def isNumericCol (c : Column) : Bool :=
  match c.dtype with
  | .int | .int64 | .int64List | .float | .ifaceList => true
  | _ => false

/-- `UpdateValues` (full) / `UpdateValuesNumberOnly` on the dynamic columns of one cached row -/
def updateRow (cols : List Column) (full : Bool) (old : Row) (reply : ReplyRow) : Row :=
  cols.foldl (fun r c =>
    if full || isNumericCol c then
      match reply.find? (·.1 == c.name) with
      | some (_, j) => r.setCell c.name (coerce c.dtype j)
      | none => r
    else r) old

/-- the comments/downtimes id lists of hosts and services are rebuilt from the two tables -/
def rebuildLists (c : Cache) : Cache :=
  let (h1, s1) := buildIdLists "comments" (c.get "comments") (c.get "hosts") (c.get "services")
  let (h2, s2) := buildIdLists "downtimes" (c.get "downtimes") h1 s1
  (c.set "hosts" h2).set "services" s2

/-! ## InitAllTables -/

structure InitResult where
  p : PeerSt
  b : BackendSt
  err : StepErr

/-- `InitAllTables` (serial): fetch every table, build the new set aside, publish it last -/
def initAllTablesRaw (w : World) (now : Int) (p : PeerSt) (b : BackendSt) : InitResult :=
  let p := { p with lastUpdate := now, lastFullUpdate := now, lastFullServiceUpdate := now, lastFullHostUpdate := now }
  -- status first
  let (p, b, e) := query w now p b
  match e with
  | some _ => { p := p, b := b, err := .failed "status" }
  | none =>
    let statusRows := b.rows "status"
    match statusRows with
    | [] => { p := { p with status := .down, lastError := "peered partner not ready yet", cache := none }, b := b, err := .failed "peered partner not ready yet" }
    | st :: _ =>
      let vflag := versionFlag w.schema (replyStr st "livestatus_version")
      let flags := p.flags ||| vflag
      let isIcinga := (flags &&& flagBit w.schema "Icinga2") != 0
      -- checkAvailableTables: one unhandled query on the columns table (not for Icinga2)
      let (p, b, flags) :=
        if isIcinga then (p, b, flags)
        else
          let (p', b', e') := query w now p b (handled := false)
          match e' with
          | none => (p', b', flags ||| columnFlags w.schema b')
          | some _ => (p', b', flags)
      let p := { p with flags := flags, programStart := replyInt st "program_start", corePid := replyInt st "nagios_pid" }
      let p := if p.status != .pending && p.status != .syncing then { p with status := .syncing, lastError := "reconnecting..." } else p
      let statusTab := (w.schema.table? "status").getD { name := "status", cols := [] }
      let cache0 : Cache := [("status", syncTable statusTab statusRows)]
      -- the other tables, in order; the first failure aborts
      let rec loop : List String → PeerSt → BackendSt → Cache → PeerSt × BackendSt × Option Cache
        | [], p, b, c => (p, b, some c)
        | t :: ts, p, b, c =>
          let (p, b, e) := query w now p b
          match e with
          | some _ => (p, b, none)
          | none =>
            let tab := (w.schema.table? t).getD { name := t, cols := [] }
            let p := { p with lastUpdate := now, lastFullUpdate := now }
            -- initTable(timeperiods) remembers the minute, so that the per-minute refresh does not run right away
            let p := if t == "timeperiods" then { p with lastTpMinute := (now / 60) % 60 } else p
            loop ts p b (c.set t (syncTable tab (b.rows t)))
      let (p, b, c?) := loop (updateTables.drop 1) p b cache0
      match c? with
      | none => { p := p, b := b, err := .failed "table" }
      | some c =>
        let c := rebuildLists c
        -- requestLocaltime
        let hasLt := (p.flags &&& flagBit w.schema "HasLocaltimeColumn") != 0
        let (p, b, e) := if hasLt then query w now p b else (p, b, none)
        match e with
        | some _ => { p := p, b := b, err := .failed "localtime" }
        | none =>
          let wasUp := p.status == .up
          let p := { p with cache := some c }
          let p := if !wasUp then p.recovered now else p
          { p := p, b := b, err := .none }

/-- `InitAllTables` with its deferred clean-up: a rebuild that fails while the previous set is still published
    does not keep the `program_start` / pid it read from the status table - the restart stays to be detected -/
def initAllTables (w : World) (now : Int) (p : PeerSt) (b : BackendSt) : InitResult :=
  let r := initAllTablesRaw w now p b
  match r.err with
  | .none => r
  | _ => if r.p.cache.isSome then { r with p := { r.p with programStart := p.programStart, corePid := p.corePid } } else r

/-! ## comments / downtimes delta (`updateDeltaCommentsOrDowntimes`) -/

def replyId (r : ReplyRow) : Int := replyInt r "id"

/-- `maxIDOrSizeChanged`: number of entries, and the backend's maximum id against the id of the LAST cached row -/
def maxIdOrSizeChanged (cached : List Row) (backend : List ReplyRow) : Bool :=
  let entries := cached.length
  let maxBackend := backend.foldl (fun m r => max m (replyId r)) 0
  let lastCached := match cached.getLast? with | some r => r.int "id" | none => 0
  !((entries : Int) == backend.length && (entries == 0 || maxBackend == lastCached))

/-- remove the entries that are gone, append the new ones in reply order -/
def syncEntries (tab : Table) (cached : List Row) (backend : List ReplyRow) : List Row :=
  let ids := backend.map replyId
  let kept := cached.filter (fun r => ids.contains (r.int "id"))
  let haveIds := cached.map (·.int "id")
  let missing := backend.filter (fun r => !haveIds.contains (replyId r))
  kept ++ missing.map (coerceRow tab)

/-! ## hosts / services delta (`updateDeltaHostsServices`, `updateFullScan`, `prepareDataUpdateSet`) -/

def tsColumn (w : World) (flags : Nat) : String :=
  if (flags &&& flagBit w.schema "HasLMDLastCacheUpdateColumn") != 0 then "lmd_last_cache_update"
  else if (flags &&& flagBit w.schema "HasLastUpdateColumn") != 0 then "last_update"
  else "last_check"

/-- the rows a delta query returns: time stamp in `[lo, hi)`, or currently executing (when asked), or `last_check` in `extra` -/
def deltaReply (rows : List ReplyRow) (tsCol : String) (window : Option (Int × Int)) (executing : Bool) (extra : List Int) : List ReplyRow :=
  rows.filter fun r =>
    (match window with
     | some (lo, hi) => (lo ≤ replyInt r tsCol && replyInt r tsCol < hi) || (executing && replyInt r "is_executing" == 1)
     | none => false) || extra.contains (replyInt r "last_check")

def scanColumns (byLastCheck hasLastUpdate : Bool) : List String :=
  ["last_check", "scheduled_downtime_depth", "acknowledged", "active_checks_enabled", "notifications_enabled", "modified_attributes",
   "in_check_period", "in_notification_period"] ++
  (if byLastCheck then ["next_check"] else []) ++ (if hasLastUpdate then ["last_update"] else [])

/-- `checkChangedIntValues` on the scan columns -/
def scanChanged (tab : Table) (cols : List String) (cached : Row) (reply : ReplyRow) : Bool :=
  cols.any fun c =>
    match tab.col? c with
    | some col =>
      (match col.dtype with
       | .int => checkInt8 (replyInt reply c) != cached.int c
       | .int64 => replyInt reply c != cached.int c
       | _ => false)
    | none => false

/-- key of a backend row of hosts/services as the cache keys them -/
def replyKey (tab : Table) (r : ReplyRow) : List String := tab.primaryKey.map (replyStr r)

/-- consecutive blocks of the sorted timestamps, as `composeTimestampFilter` builds them -/
def tsBlocks : List Int → List (Int × Int)
  | [] => []
  | t :: ts =>
    let rec go : Int → Int → List Int → List (Int × Int)
      | lo, hi, [] => [(lo, hi)]
      | lo, hi, x :: xs => if hi == x - 1 then go lo x xs else (lo, hi) :: go x x xs
    go t t ts

/-- number of filter lines `composeTimestampFilter` emits: one per block, plus the `Or:` when there are several -/
def tsFilterLen (ts : List Int) : Nat :=
  let n := (tsBlocks ts).length
  if n > 1 then n + 1 else n

/-- `prepareDataUpdateSet` + `insertDeltaDataResult` for a reply sorted by primary key -/
def applyDelta (w : World) (flags : Nat) (tab : Table) (cached : List Row) (reply : List ReplyRow) : Option (List Row) :=
  let dyn := dynamicCols w.schema flags tab.name
  let hasLU := (flags &&& flagBit w.schema "HasLastUpdateColumn") != 0 && (tab.col? "last_update").isSome
  let hasLC := (tab.col? "last_check").isSome
  let sorted := (reply.map fun r => (coerceRow tab r, r)).mergeSort (fun a b => keyLe tab a.1 b.1)
  let useIndex := sorted.length == cached.length
  -- every reply row must address a cached object
  let addressed : Option (List (Nat × ReplyRow)) :=
    if useIndex then some ((List.range sorted.length).zip (sorted.map (·.2)))
    else sorted.mapM fun (_, r) =>
      let key := replyKey tab r
      -- the index maps a key to the last row carrying it
      match (cached.zipIdx.reverse.find? (fun (c, _) => c.key tab == key)) with
      | some (_, i) => some (i, r)
      | none => none
  match addressed with
  | none => none
  | some upd =>
    some (upd.foldl (fun rows (i, r) =>
      match rows[i]? with
      | none => rows
      | some old =>
        let luChanged := replyInt r "last_update" != old.int "last_update"
        let lcChanged := replyInt r "last_check" != old.int "last_check"
        -- `checkChangedIntValues` over the dynamic columns of the reply
        let intChanged := dyn.any fun col =>
          match col.dtype with
          | .int => checkInt8 (replyInt r col.name) != old.int col.name
          | .int64 => replyInt r col.name != old.int col.name
          | _ => false
        let decision : Option Bool :=       -- none = skip, some full
          if hasLU && hasLC then (if luChanged || lcChanged || intChanged then some true else none)
          else if hasLU then (if luChanged || intChanged then some true else none)
          else if !hasLC then some true
          else some (lcChanged || intChanged)
        match decision with
        | none => rows
        | some full => rows.set i (updateRow dyn full old r)) cached)

structure DeltaResult where
  p : PeerSt
  b : BackendSt
  cache : Cache
  err : StepErr

/-- `updateDeltaHostsServices(table, window, tryFullScan = true)` -/
def deltaTable (w : World) (now : Int) (p : PeerSt) (b : BackendSt) (c : Cache) (tname : String)
    (window : Option (Int × Int)) (threshold : Int) : DeltaResult :=
  let tab := (w.schema.table? tname).getD { name := tname, cols := [] }
  let tsCol := tsColumn w p.flags
  let byLastCheck := tsCol == "last_check"
  let executing := byLastCheck && w.cfg.syncIsExecuting && (p.flags &&& flagBit w.schema "Shinken") == 0
  let lastFull := if tname == "hosts" then p.lastFullHostUpdate else p.lastFullServiceUpdate
  let cached := c.get tname
  let fail := fun (p : PeerSt) (b : BackendSt) (e : StepErr) => ({ p := p, b := b, cache := c, err := e } : DeltaResult)
  let plain := fun (p : PeerSt) (b : BackendSt) (extra : List Int) (mark : Bool) =>
    let (p, b, e) := query w now p b
    match e with
    | some _ => fail p b (.failed "delta")
    | none =>
      match applyDelta w p.flags tab cached (deltaReply (b.rows tname) tsCol window executing extra) with
      | none => fail p b (.failed "unknown object")
      | some rows =>
        let p := if mark then (if tname == "hosts" then { p with lastFullHostUpdate := now } else { p with lastFullServiceUpdate := now }) else p
        ({ p := p, b := b, cache := c.set tname rows, err := .none } : DeltaResult)
  -- the full scan is tried at most once a minute
  if lastFull > now - 60 then plain p b [] false
  else
    let (p, b, e) := query w now p b
    match e with
    | some _ => fail p b (.failed "scan")
    | none =>
      let scan := (b.rows tname).map (fun r => (coerceRow tab r, r)) |>.mergeSort (fun a b => keyLe tab a.1 b.1) |>.map (·.2)
      if cached.length < scan.length then
        -- more objects than cached: Icinga2 / empty cache reload is not modelled; the peer is marked broken
        fail { p with status := .broken, lastError := "broken: got more " ++ tname ++ " than expected", cache := none } b (.failed "cache not ready")
      else
        let cols := scanColumns byLastCheck ((p.flags &&& flagBit w.schema "HasLastUpdateColumn") != 0)
        let missing := ((scan.zip cached).filter fun (r, old) =>
          replyInt r "last_check" < threshold && scanChanged tab cols old r).map (fun (r, _) => replyInt r "last_check")
        let missing := (missing.mergeSort (· ≤ ·)).eraseDups
        if missing.isEmpty then plain p b [] false
        else
          let missing := if tsFilterLen missing > 150 then missing.take 149 else missing
          plain p b missing true

/-- `UpdateFullTable` for a table whose objects are matched by position after sorting -/
def updateFullTable (w : World) (now : Int) (p : PeerSt) (b : BackendSt) (c : Cache) (tname : String) : DeltaResult :=
  let tab := (w.schema.table? tname).getD { name := tname, cols := [] }
  let dyn := dynamicCols w.schema p.flags tname
  if dyn.isEmpty then { p := p, b := b, cache := c, err := .none }
  else
    let (p, b, e) := query w now p b
    match e with
    | some _ => { p := p, b := b, cache := c, err := .failed "full" }
    | none =>
      let reply := (b.rows tname).map (fun r => (coerceRow tab r, r)) |>.mergeSort (fun a b => keyLe tab a.1 b.1) |>.map (·.2)
      let cached := c.get tname
      if reply.length != cached.length then { p := p, b := b, cache := c, err := .restartRequired }
      else if tname == "status" &&
          (match reply with
           | [st] => p.programStart != 0 && p.corePid != 0 && (replyInt st "program_start" != p.programStart || replyInt st "nagios_pid" != p.corePid)
           | _ => false) then
        { p := p, b := b, cache := c, err := .restartRequired }
      else
        let rows := (cached.zip reply).map fun (old, r) =>
          if tname == "status" || tname == "timeperiods" then updateRow dyn true old r
          else
            -- insertDeltaDataResult → prepareDataUpdateSet without last_check / last_update columns: full update
            updateRow dyn true old r
        let p := if tname == "status" then
            { p with flags := p.flags ||| (match reply with | st :: _ => versionFlag w.schema (replyStr st "livestatus_version") | [] => 0) }
          else p
        { p := p, b := b, cache := c.set tname rows, err := .none }

/-- `UpdateDelta(from, until)` -/
def updateDelta (w : World) (now : Int) (p : PeerSt) (b : BackendSt) (c : Cache) (fromT : Int) : DeltaResult :=
  let r := updateFullTable w now p b c "status"
  match r.err with
  | .none =>
    let off := w.cfg.updateOffset
    let window := if fromT > 0 then some (fromT - off, now - off) else none
    let threshold := fromT - off
    -- with `from = 0` the filter is empty: every object is fetched
    let win := fun (p : PeerSt) (b : BackendSt) (c : Cache) (t : String) =>
      if fromT > 0 then deltaTable w now p b c t window threshold
      else
        -- no filter: the scan still runs first, then the unfiltered fetch
        deltaTable w now p b c t (some (-(2 ^ 62 : Int), (2 ^ 62 : Int))) threshold
    let r := win r.p r.b r.cache "hosts"
    match r.err with
    | .none =>
      let r := win r.p r.b r.cache "services"
      match r.err with
      | .none =>
        -- comments, downtimes
        let rec entries : List String → PeerSt → BackendSt → Cache → DeltaResult
          | [], p, b, c => { p := p, b := b, cache := c, err := .none }
          | t :: ts, p, b, c =>
            let (p, b, e) := query w now p b            -- Stats: count, max id
            match e with
            | some _ => { p := p, b := b, cache := c, err := .failed "stats" }
            | none =>
              if !maxIdOrSizeChanged (c.get t) (b.rows t) then entries ts p b c
              else
                let (p, b, e) := query w now p b          -- Columns: id
                match e with
                | some _ => { p := p, b := b, cache := c, err := .failed "ids" }
                | none =>
                  let tab := (w.schema.table? t).getD { name := t, cols := [] }
                  let haveIds := (c.get t).map (·.int "id")
                  let backendRows := b.rows t
                  let needFetch := backendRows.any (fun r => !haveIds.contains (replyId r))
                  -- removal happens before the missing entries are fetched
                  let ids := backendRows.map replyId
                  let keptOnly := (c.get t).filter (fun r => ids.contains (r.int "id"))
                  if needFetch then
                    let (p, b, e) := query w now p b
                    match e with
                    | some _ => { p := p, b := b, cache := c.set t keptOnly, err := .failed "entries" }
                    | none => entries ts p b (rebuildLists (c.set t (syncEntries tab (c.get t) (b.rows t))))
                  else entries ts p b (rebuildLists (c.set t keptOnly))
        let r := entries ["comments", "downtimes"] r.p r.b r.cache
        match r.err with
        | .none =>
          -- a failed connection attempt during the run may have dropped the published set (stale timeout):
          -- the peer is then not reported up
          if r.p.cache.isNone then { r with err := .failed "peer went offline during the update" }
          else { r with p := { (r.p.recovered now) with lastUpdate := now } }
        | _ => r
      | _ => r
    | _ => r
  | _ => r

end Lmd
