/-
  Lmd.Passthrough — tables that are not cached (the log table): `Response.BuildPassThroughResult`,
  `Peer.PassThroughQuery`, `Response.PostProcessing` / `Less`, `CalculateFinalStats` (pkg/lmd/response.go,
  peer.go).  The client's request is split into the sub-request every selected, reachable backend
  receives and the LMD-side columns (peer_key, peer_name, …) that are spliced into the reply rows; the
  replies are merged, sorted, cut; Stats rows of the backends are added up.

  The replies of the backends are *data* of the step (`PTPeer.reply`): the model says what lmd does with
  whatever the backends answer.
-/
import Lmd.Print
import Lmd.Render
import Lmd.Stats

namespace Lmd
open Lean (Json)

/-! ## the plan: which columns go to the backend, where the others are spliced in -/

structure PTPlan where
  backendCols : List String := []
  virtuals : List (Column × Nat) := []     -- LMD-side columns with the position of each occurrence, in insertion order
  index : List (String × Nat) := []        -- `columnsIndex`: column name ↦ (last) position
  sortIdx : List Nat := []                 -- position of every sort key in the spliced row
  deriving Inhabited

def PTPlan.lookup (p : PTPlan) (name : String) : Option Nat :=
  (p.index.reverse.find? (·.1 == name)).map (·.2)

/-- the requested columns: virtual ones are kept for lmd, the others are asked from the backend -/
def planColumns : List Column → Nat → PTPlan → PTPlan
  | [], _, p => p
  | c :: cs, i, p =>
    let p := if c.storage == .virt then { p with virtuals := p.virtuals ++ [(c, i)] } else { p with backendCols := p.backendCols ++ [c.name] }
    planColumns cs (i + 1) { p with index := p.index ++ [(c.name, i)] }

/-- sort keys that are not among the requested columns are fetched (or spliced) in addition -/
def planSort : List SortField → PTPlan → PTPlan
  | [], p => p
  | sf :: rest, p =>
    match sf.col with
    | none => planSort rest p
    | some c =>
      match p.lookup c.name with
      | some j => planSort rest { p with sortIdx := p.sortIdx ++ [j] }
      | none =>
        let j := p.backendCols.length + p.virtuals.length
        let p := { p with sortIdx := p.sortIdx ++ [j], index := p.index ++ [(c.name, j)] }
        let p := if c.storage == .virt then { p with virtuals := p.virtuals ++ [(c, j)] } else { p with backendCols := p.backendCols ++ [c.name] }
        planSort rest p

def ptPlan (t : Table) (req : Request) : PTPlan :=
  -- Stats results are not sorted: sort keys outside the column list are fetched for data requests only
  planSort (if req.stats.isEmpty then req.sort else []) (planColumns (requestColumns t req) 0 {})

/-- the request every backend receives (`passthroughRequest`) -/
def subRequest (req : Request) (p : PTPlan) : Request :=
  { table := req.table, filter := req.filter, stats := req.stats, columns := p.backendCols, limit := req.limit,
    outFmt := .json, fixed16 := true, authUser := req.authUser }

/-! ## one backend -/

structure PTPeer where
  id : String
  name : String
  online : Bool                          -- status up or warning
  lastError : String := ""
  reply : Option (List (List Json))      -- what the backend answered; `none`: the query failed
  err : String := ""
  deriving Inhabited

/-- the value of an LMD-side column for rows of this backend -/
def ptVirtual (peer : PTPeer) (c : Column) : Json :=
  if c.name == "peer_key" then .str peer.id
  else if c.name == "peer_name" then .str peer.name
  else .str ""

def insertAt (row : List Json) (i : Nat) (v : Json) : List Json := row.take i ++ [v] ++ row.drop i

/-- splice the LMD-side values into a reply row, one after the other -/
def spliceRow (peer : PTPeer) (virtuals : List (Column × Nat)) (row : List Json) : List Json :=
  virtuals.foldl (fun r (c, i) => insertAt r i (ptVirtual peer c)) row

/-! ## merging data rows -/

inductive PKey
  | num (m : Int)
  | str (s : String)
  | any                 -- a column type `Less` has no case for
  deriving DecidableEq, Repr, Inhabited

/-- `interface2stringNoDedup` of a reply cell (numbers in Go's `%v` form for the plain cases, lists as `[a b]`) -/
def ptCellText : Json → String
  | .str s => s
  | .null => ""
  | .num n => milliToGo (jsonNumMilli n)
  | .arr xs => "[" ++ " ".intercalate (xs.toList.map fun x => match x with
      | .str s => s
      | .num n => milliToGo (jsonNumMilli n)
      | other => other.compress) ++ "]"
  | other => other.compress

/-- `resultSortKey`: the key the sort of a local result uses (`DataRow.GetString`); lists by their joined elements -/
def ptListKey (dtype : DataType) (j : Json) : String :=
  match dtype, j with
  | .strList, .arr xs => "\x00".intercalate (xs.toList.map ptCellText)
  | .int64List, .arr xs => "[" ++ "\x00".intercalate (xs.toList.map fun x => toString (milliTrunc (jsonToMilli x))) ++ "]"
  | _, _ => ptCellText j

def ptKeyOf (dtype : DataType) (j : Json) : PKey :=
  match dtype with
  | .int | .int64 | .float => .num (jsonToMilli j)
  | .str | .strLarge | .json | .strList | .int64List | .svcMemberList | .ifaceList => .str (ptListKey dtype j)
  -- custom variable keys (`resultCustomVar`, empty values last) do not occur in a pass-through table
  | .customVar => .any

def ptKeys (req : Request) (p : PTPlan) (row : List Json) : List PKey :=
  (req.sort.filter (·.col.isSome)).zip p.sortIdx |>.map fun (sf, i) =>
    ptKeyOf ((sf.col.map (·.dtype)).getD .str) (row.getD i Json.null)

/-- `Response.Less` as a three-way comparison on the keys: the first field that differs decides; a list typed
    field ends the comparison (everything behind it is never looked at) -/
def ptCmp : List (Bool × PKey × PKey) → Ordering
  | [] => .eq
  | (desc, a, b) :: rest =>
    match a, b with
    | .num x, .num y => if x == y then ptCmp rest else if (x < y) != desc then .lt else .gt
    | .str x, .str y => if x == y then ptCmp rest else if (x < y) != desc then .lt else .gt
    | _, _ => .eq

def ptLe (descs : List Bool) (a b : List PKey) : Bool :=
  ptCmp (descs.zip (a.zip b)) != .gt

structure PTData where
  rows : List (List Json)            -- sorted (stable), cut to the requested columns, before offset / limit
  keys : List (List PKey)            -- the sort keys of `rows`
  total : Nat
  window : List (List Json)          -- after offset and limit
  failed : List (String × String)
  deriving Inhabited

def ptFailed (peers : List PTPeer) : List (String × String) :=
  peers.filterMap fun p =>
    if !p.online then some (p.id, p.lastError)
    else match p.reply with
      | none => some (p.id, p.err)
      | some _ => none

def ptAnswering (peers : List PTPeer) : List (PTPeer × List (List Json)) :=
  peers.filterMap fun p => if p.online then p.reply.map (fun r => (p, r)) else none

def ptData (t : Table) (req : Request) (peers : List PTPeer) : PTData :=
  let plan := ptPlan t req
  let all := (ptAnswering peers).flatMap fun (p, rows) => rows.map (spliceRow p plan.virtuals)
  let descs := (req.sort.filter (·.col.isSome)).map (·.desc)
  let keyed := all.map fun r => (ptKeys req plan r, r)
  let sorted := if req.sort.isEmpty then keyed else keyed.mergeSort (fun a b => ptLe descs a.1 b.1)
  let width := (requestColumns t req).length
  let cut := if req.sort.isEmpty then sorted else sorted.map fun (k, r) => (k, if width > 0 then r.take width else r)
  let total := cut.length
  let afterOffset := if req.offset > total then [] else cut.drop req.offset
  let window := match req.limit with
    | some l => afterOffset.take l
    | none => afterOffset
  { rows := cut.map (·.2), keys := cut.map (·.1), total := total, window := window.map (·.2), failed := ptFailed peers }

/-! ## merging Stats rows -/

/-- `interface2stringNoDedup` of a reply cell, for the group key (numbers in Go's `%v` form for the plain cases) -/
def ptKeyText (j : Json) : String := ptCellText j

structure PTStats where
  rows : List (List String × List Acc)     -- group key (the requested columns) and one accumulator per Stats header
  failed : List (String × String)
  skipped : Nat                            -- reply rows of the wrong width (logged and ignored)
  deriving Inhabited

def ptApply (kinds : List AccKind) (accs : List Acc) (vals : List Json) : List Acc :=
  (accs.zip (kinds.zip vals)).map fun (a, k, v) =>
    let m := jsonToMilli v
    match k with
    | .counter => a.apply m (Int.toNat (milliTrunc m))      -- the backend counted already: add its number
    | _ => a.apply m 1

def ptStats (t : Table) (req : Request) (peers : List PTPeer) : PTStats :=
  let plan := ptPlan t req
  let ncol := (requestColumns t req).length
  let kinds := req.stats.map StatsEntry.accKind
  let total := ncol + kinds.length
  let step := fun (acc : List (List String × List Acc) × Nat) (row : List Json) =>
    let (groups, skipped) := acc
    if row.length != total then (groups, skipped + 1)
    else
      let key := (row.take ncol).map ptKeyText
      let vals := row.drop ncol
      match groups.find? (·.1 == key) with
      | some _ => (groups.map (fun (k, a) => if k == key then (k, ptApply kinds a vals) else (k, a)), skipped)
      | none => (groups ++ [(key, ptApply kinds (kinds.map Acc.init) vals)], skipped)
  let all := (ptAnswering peers).flatMap fun (p, rows) => rows.map (spliceRow p plan.virtuals)
  let (groups, skipped) := all.foldl step ([], 0)
  let groups := if req.columns.isEmpty && groups.isEmpty then [([], kinds.map Acc.init)] else groups
  { rows := groups, failed := ptFailed peers, skipped := skipped }

end Lmd
