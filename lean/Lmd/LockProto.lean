/-
  Lmd.LockProto — an abstract small-step model of the locking protocol between queries and updates
  (property C14, part B).  It is not part of the differential test harness: it is the protocol that
  `Response.lockStores` / `DataStore` updates follow, reduced to read/write locks.

  * Locks are numbered (`Nat`, the table id).  Per lock the state has the list of reader process ids holding
    it, the optional writer process id holding it, the list of writer process ids waiting for it, and the
    content of the table: a version number (the update step that last wrote the table).
  * A READER (a query) has a list `want` of locks still to take (in that order), the list `held`, the list
    `seen` of (lock, version) it read, and the ghost list `atAcquire` of (lock, version at the moment the lock
    was taken).  It takes the next lock of `want` if no writer holds the lock and no writer waits for it
    (`sync.RWMutex`: a blocked `Lock` call excludes new readers), reads any held lock any number of times, and when
    `want` is empty releases everything and is done.
  * A WRITER (one update batch of one table) announces itself (`waiting`), takes its lock when nobody holds it,
    performs its write (the version becomes its step number), and releases.
  * `Step s s'`: one process does one atomic action.  `act` is the executable transition function,
    `canStep` the executable test "some action is enabled".  `ProgressStep` / `canProgress`: the same for the
    actions other than reads (a read is always possible while a lock is held and moves nobody forward);
    `work` counts the actions other than reads that are still to be done.
-/

namespace Lmd.LockProto

inductive WPhase
  | idle | waiting | holding | written | done
  deriving DecidableEq, Repr, Inhabited

structure Reader where
  want : List Nat
  held : List Nat := []
  seen : List (Nat × Nat) := []
  atAcquire : List (Nat × Nat) := []
  done : Bool := false
  deriving Repr, Inhabited

structure Writer where
  lock : Nat
  stepNo : Nat
  phase : WPhase := .idle
  deriving Repr, Inhabited

inductive Proc
  | reader (r : Reader)
  | writer (w : Writer)
  deriving Repr, Inhabited

/-- the process has nothing left to do -/
def Proc.finished : Proc → Bool
  | .reader r => r.done
  | .writer w => w.phase == .done

structure State where
  /-- the processes; the process id is the position in the list -/
  procs : List Proc
  readers : Nat → List Nat := fun _ => []
  writer : Nat → Option Nat := fun _ => none
  waiting : Nat → List Nat := fun _ => []
  version : Nat → Nat := fun _ => 0

inductive Action
  | rAcquire (p : Nat)
  | rRead (p : Nat) (k : Nat)
  | rRelease (p : Nat)
  | wAnnounce (p : Nat)
  | wAcquire (p : Nat)
  | wWrite (p : Nat)
  | wRelease (p : Nat)
  deriving DecidableEq, Repr

/-- one atomic action of one process; `none` if the action is not enabled -/
def act (s : State) : Action → Option State
  | .rAcquire p =>
    match s.procs[p]? with
    | some (.reader r) =>
      match r.want with
      | k :: rest =>
        if (s.writer k).isNone && (s.waiting k).isEmpty then
          some { s with
            procs := s.procs.set p (.reader { r with want := rest, held := k :: r.held,
                                                      atAcquire := (k, s.version k) :: r.atAcquire })
            readers := fun j => if j = k then p :: s.readers j else s.readers j }
        else none
      | [] => none
    | _ => none
  | .rRead p k =>
    match s.procs[p]? with
    | some (.reader r) =>
      if k ∈ r.held then
        some { s with procs := s.procs.set p (.reader { r with seen := (k, s.version k) :: r.seen }) }
      else none
    | _ => none
  | .rRelease p =>
    match s.procs[p]? with
    | some (.reader r) =>
      if r.want.isEmpty && !r.done then
        some { s with
          procs := s.procs.set p (.reader { r with held := [], done := true })
          readers := fun j => (s.readers j).filter (· != p) }
      else none
    | _ => none
  | .wAnnounce p =>
    match s.procs[p]? with
    | some (.writer w) =>
      if w.phase = .idle then
        some { s with
          procs := s.procs.set p (.writer { w with phase := .waiting })
          waiting := fun j => if j = w.lock then p :: s.waiting j else s.waiting j }
      else none
    | _ => none
  | .wAcquire p =>
    match s.procs[p]? with
    | some (.writer w) =>
      if w.phase = .waiting ∧ (s.readers w.lock).isEmpty ∧ (s.writer w.lock).isNone then
        some { s with
          procs := s.procs.set p (.writer { w with phase := .holding })
          writer := fun j => if j = w.lock then some p else s.writer j
          waiting := fun j => if j = w.lock then (s.waiting j).filter (· != p) else s.waiting j }
      else none
    | _ => none
  | .wWrite p =>
    match s.procs[p]? with
    | some (.writer w) =>
      if w.phase = .holding then
        some { s with
          procs := s.procs.set p (.writer { w with phase := .written })
          version := fun j => if j = w.lock then w.stepNo else s.version j }
      else none
    | _ => none
  | .wRelease p =>
    match s.procs[p]? with
    | some (.writer w) =>
      if w.phase = .written then
        some { s with
          procs := s.procs.set p (.writer { w with phase := .done })
          writer := fun j => if j = w.lock then none else s.writer j }
      else none
    | _ => none

/-- one process does one atomic action -/
def Step (s s' : State) : Prop := ∃ a, act s a = some s'

/-- executions: the reflexive transitive closure of `Step` -/
inductive Reach (s0 : State) : State → Prop
  | refl : Reach s0 s0
  | step {s s' : State} : Reach s0 s → Step s s' → Reach s0 s'

def enabled (s : State) (a : Action) : Bool := (act s a).isSome

/-- reading does not move a process forward in its life cycle (a query may read as often as it likes); every
    other action does -/
def Action.isProgress : Action → Bool
  | .rRead _ _ => false
  | _ => true

/-- one process does one atomic action other than a read: it takes or releases a lock, announces itself or
    writes -/
def ProgressStep (s s' : State) : Prop := ∃ a, a.isProgress = true ∧ act s a = some s'

/-- the actions other than reads process `p` could try -/
def progressCandidates (p : Nat) : List Action :=
  [.rAcquire p, .rRelease p, .wAnnounce p, .wAcquire p, .wWrite p, .wRelease p]

/-- the actions process `p` could try -/
def candidates (s : State) (p : Nat) : List Action :=
  progressCandidates p ++
  (match s.procs[p]? with
   | some (.reader r) => r.held.map (.rRead p)
   | _ => [])

/-- some process can do some action -/
def canStep (s : State) : Bool :=
  (List.range s.procs.length).any fun p => (candidates s p).any (enabled s)

/-- some process can do some action other than a read -/
def canProgress (s : State) : Bool :=
  (List.range s.procs.length).any fun p => (progressCandidates p).any (enabled s)

/-- the work a process still has to do, counted in actions other than reads -/
def Proc.work : Proc → Nat
  | .reader r => if r.done then 0 else r.want.length + 1
  | .writer w =>
    match w.phase with
    | .idle => 4
    | .waiting => 3
    | .holding => 2
    | .written => 1
    | .done => 0

/-- the work all processes together still have to do -/
def work (s : State) : Nat := (s.procs.map Proc.work).sum

/-- run a list of actions -/
def exec (s : State) : List Action → Option State
  | [] => some s
  | a :: as => (act s a).bind (exec · as)

/-- a fresh process: nothing held, nothing read, not started -/
def Proc.fresh : Proc → Bool
  | .reader r => r.held.isEmpty && r.seen.isEmpty && r.atAcquire.isEmpty && !r.done
  | .writer w => w.phase == .idle

/-- an initial state: all processes fresh, no lock held, nobody waiting (any table contents) -/
structure Initial (s : State) : Prop where
  fresh : ∀ x ∈ s.procs, x.fresh = true
  readers : ∀ k, s.readers k = []
  writer : ∀ k, s.writer k = none
  waiting : ∀ k, s.waiting k = []

/-- every query takes its locks in strictly increasing order (what `affectedTables` guarantees) -/
def SortedWants (s : State) : Prop :=
  ∀ x ∈ s.procs, ∀ r, x = .reader r → r.want.Pairwise (· < ·)

/-- executable form of `SortedWants` -/
def sortedWantsB (s : State) : Bool :=
  s.procs.all fun
    | .reader r => decide (r.want.Pairwise (· < ·))
    | .writer _ => true

/-- all processes have finished -/
def allFinished (s : State) : Bool := s.procs.all Proc.finished

/-- the state made of fresh processes -/
def initState (procs : List Proc) (version : Nat → Nat := fun _ => 0) : State :=
  { procs := procs, version := version }

end Lmd.LockProto
