/-
  Lmd.Basic — strings, values and the schema types shared by the whole model.

  Core Lean only (no Mathlib) so that the driver can be linked as a `lean_exe`.
-/
import Lean.Data.Json

namespace Lmd

/-! ## Strings

Go compares strings bytewise; for valid UTF-8 this equals code point order, which is what Lean's
`String.<` implements.  Case mapping is modelled for the declared alphabet only (ASCII and the
Latin-1 letters); generators of model-compared cases stay inside that alphabet. -/

/-- `unicode.ToLower` restricted to the declared alphabet. -/
def lowerChar (c : Char) : Char :=
  let n := c.toNat
  if 65 ≤ n ∧ n ≤ 90 then Char.ofNat (n + 32)
  else if 0xC0 ≤ n ∧ n ≤ 0xDE ∧ n ≠ 0xD7 then Char.ofNat (n + 32)
  else c

/-- `unicode.ToUpper` restricted to the declared alphabet. -/
def upperChar (c : Char) : Char :=
  let n := c.toNat
  if 97 ≤ n ∧ n ≤ 122 then Char.ofNat (n - 32)
  else if 0xE0 ≤ n ∧ n ≤ 0xFE ∧ n ≠ 0xF7 then Char.ofNat (n - 32)
  else c

/-- `strings.ToLower`. -/
def goLower (s : String) : String := String.ofList (s.toList.map lowerChar)

/-- `strings.ToUpper`. -/
def goUpper (s : String) : String := String.ofList (s.toList.map upperChar)

/-- `strings.EqualFold` on the declared alphabet: rune-wise simple folding. -/
def equalFoldL : List Char → List Char → Bool
  | [], [] => true
  | a :: as, b :: bs => (lowerChar a == lowerChar b) && equalFoldL as bs
  | _, _ => false

def equalFold (a b : String) : Bool := equalFoldL a.toList b.toList

def isPrefixL : List Char → List Char → Bool
  | [], _ => true
  | _ :: _, [] => false
  | a :: as, b :: bs => a == b && isPrefixL as bs

/-- `sub` occurs in `s` (lists of characters). -/
def containsL (s sub : List Char) : Bool :=
  match s with
  | [] => sub.isEmpty
  | c :: cs => isPrefixL sub (c :: cs) || containsL cs sub

/-- `strings.Contains`. -/
def strContains (s sub : String) : Bool := containsL s.toList sub.toList

def hasPrefix (s p : String) : Bool := isPrefixL p.toList s.toList
def hasSuffix (s p : String) : Bool := isPrefixL p.toList.reverse s.toList.reverse

def trimPrefix (s p : String) : String :=
  if hasPrefix s p then String.ofList (s.toList.drop p.length) else s

def trimSuffix (s p : String) : String :=
  if hasSuffix s p then String.ofList (s.toList.take (s.length - p.length)) else s

/-- Go's `unicode.IsSpace`: ASCII white space, NEL, NBSP and the Unicode space separators (Z category). -/
def isGoSpace (c : Char) : Bool :=
  c == ' ' || c == '\t' || c == '\n' || c == '\r' || c.toNat == 0x0B || c.toNat == 0x0C || c.toNat == 0x85 || c.toNat == 0xA0 ||
  c.toNat == 0x1680 || (0x2000 ≤ c.toNat && c.toNat ≤ 0x200A) || c.toNat == 0x2028 || c.toNat == 0x2029 || c.toNat == 0x202F ||
  c.toNat == 0x205F || c.toNat == 0x3000

def dropWhileL (p : Char → Bool) : List Char → List Char
  | [] => []
  | c :: cs => if p c then dropWhileL p cs else c :: cs

/-- `strings.TrimSpace`. -/
def trimSpace (s : String) : String :=
  String.ofList ((dropWhileL isGoSpace (dropWhileL isGoSpace s.toList).reverse).reverse)

/-- `strings.TrimLeft(s, " ")`. -/
def trimLeftSpaces (s : String) : String := String.ofList (dropWhileL (· == ' ') s.toList)

/-- split at the first occurrence of `sep` (a single character): `(before, some after)` or `(s, none)` -/
def cutL (sep : Char) : List Char → List Char × Option (List Char)
  | [] => ([], none)
  | c :: cs =>
    if c == sep then ([], some cs)
    else
      let (a, b) := cutL sep cs
      (c :: a, b)

def cut (sep : Char) (s : String) : String × Option String :=
  let (a, b) := cutL sep s.toList
  (String.ofList a, b.map String.ofList)

/-- `strings.SplitN(s, sep, n)` for a single-character separator and `n ≥ 1`. -/
def splitN (sep : Char) : Nat → String → List String
  | 0, _ => []
  | 1, s => [s]
  | n + 1, s =>
    match cut sep s with
    | (a, none) => [a]
    | (a, some b) => a :: splitN sep n b

/-- `strings.Fields` (split around runs of white space, no empty fields). -/
def fieldsL : List Char → List Char → List (List Char)
  | acc, [] => if acc.isEmpty then [] else [acc.reverse]
  | acc, c :: cs =>
    if isGoSpace c then (if acc.isEmpty then fieldsL [] cs else acc.reverse :: fieldsL [] cs)
    else fieldsL (c :: acc) cs

def fields (s : String) : List String := (fieldsL [] s.toList).map String.ofList

def joinWith (sep : String) : List String → String
  | [] => ""
  | [a] => a
  | a :: as => a ++ sep ++ joinWith sep as

/-- the `\x00` separator lmd uses for list keys -/
def sep0 : String := String.singleton (Char.ofNat 0)

def isDigit (c : Char) : Bool := '0' ≤ c && c ≤ '9'

/-- `strconv.Atoi` (optional sign, digits only). -/
def atoi? (s : String) : Option Int :=
  let cs := s.toList
  let (neg, ds) := match cs with
    | '-' :: r => (true, r)
    | '+' :: r => (false, r)
    | r => (false, r)
  if ds.isEmpty || !ds.all isDigit then none
  else
    let n : Nat := ds.foldl (fun a c => a * 10 + (c.toNat - 48)) 0
    some (if neg then -(n : Int) else (n : Int))

/-! ## Numbers

Floats are modelled exactly as integers scaled by 1000 ("milli").  The generators only produce
decimals with at most three fraction digits and moderate magnitude, on which float64 comparison
agrees with exact comparison. -/

/-- parse a decimal `[+-]d*[.d{0,3}]` into milli units; `none` outside this class -/
def parseMilli? (s : String) : Option Int :=
  let cs := s.toList
  let (neg, r) := match cs with
    | '-' :: r => (true, r)
    | '+' :: r => (false, r)
    | r => (false, r)
  let (ip, fp) := cutL '.' r
  let fpl := fp.getD []
  if (ip.isEmpty && fpl.isEmpty) || !ip.all isDigit || !fpl.all isDigit || fpl.length > 3 then none
  else
    let i : Nat := ip.foldl (fun a c => a * 10 + (c.toNat - 48)) 0
    let fdigits := fpl ++ List.replicate (3 - fpl.length) '0'
    let f : Nat := fdigits.foldl (fun a c => a * 10 + (c.toNat - 48)) 0
    let m : Int := (i * 1000 + f : Nat)
    some (if neg then -m else m)

/-- truncation toward zero of a milli value to an integer (Go's `int64(float)`) -/
def milliTrunc (m : Int) : Int := Int.tdiv m 1000

/-- two's complement wrap to 8 bits (what `int8(x)` does to an in-range int64 on amd64) -/
def wrap8 (i : Int) : Int :=
  let r := i % 256
  if r ≥ 128 then r - 256 else r

/-- `checkInt8Bounds`: values outside int8 are stored as 0 -/
def checkInt8 (i : Int) : Int := if i > 127 ∨ i < -128 then 0 else i

def natToDec (n : Nat) : String := toString n
def intToDec (i : Int) : String := if i < 0 then "-" ++ toString i.natAbs else toString i.natAbs

/-- Go's `%v` of a float64 whose value is `m/1000` (|m/1000| < 1e21, at most 3 fraction digits). -/
def milliToGo (m : Int) : String :=
  let a := m.natAbs
  let ip := a / 1000
  let fp := a % 1000
  let sign := if m < 0 then "-" else ""
  if fp == 0 then sign ++ toString ip
  else
    let d3 := (if fp < 10 then "00" else if fp < 100 then "0" else "") ++ toString fp
    let d := String.ofList ((dropWhileL (· == '0') d3.toList.reverse).reverse)
    sign ++ toString ip ++ "." ++ d

/-! ## Schema -/

inductive DataType
  | str | strList | int | int64 | int64List | float | json | customVar | svcMemberList | ifaceList | strLarge
  deriving DecidableEq, Repr, Inhabited

inductive Storage
  | loc | ref | virt
  deriving DecidableEq, Repr, Inhabited

structure Column where
  name : String
  dtype : DataType
  storage : Storage
  optional : Nat := 0
  refTable : String := ""
  refCol : String := ""
  fetch : String := "None"
  deriving DecidableEq, Repr, Inhabited

inductive VirtualKind
  | none | backends | columns | groupby
  deriving DecidableEq, Repr, Inhabited

structure TableRef where
  table : String
  cols : List String
  deriving DecidableEq, Repr, Inhabited

structure Table where
  name : String
  realName : String := ""        -- sites → backends, tables → columns
  tid : Nat := 0
  cols : List Column
  primaryKey : List String := []
  defaultSort : List String := []
  refs : List TableRef := []
  virt : VirtualKind := .none
  passthrough : Bool := false
  deriving Repr, Inhabited

structure Schema where
  tables : List Table
  flags : List (String × Nat) := []
  deriving Repr, Inhabited

def Table.col? (t : Table) (n : String) : Option Column := t.cols.find? (·.name == n)
def Schema.table? (s : Schema) (n : String) : Option Table := s.tables.find? (·.name == n)

/-- the placeholder column of `Table.GetEmptyColumn` -/
def emptyColumn : Column := { name := "empty", dtype := .str, storage := .virt }

/-- `fixBrokenClientsRequestColumn`: the prefix that is trimmed for this table -/
def brokenClientPrefix (table : String) : String :=
  if table == "hostsbygroup" then "host_"
  else if table == "servicesbygroup" || table == "servicesbyhostgroup" then "service_"
  else if table == "status" then "status_"
  else trimSuffix table "s" ++ "_"

/-- `Table.GetColumnWithFallback` -/
def Table.colWithFallback (t : Table) (n : String) : Column :=
  match t.col? n with
  | some c => c
  | none =>
    match t.col? (trimPrefix n (brokenClientPrefix t.name)) with
    | some c => c
    | none => emptyColumn

/-! ## Values -/

inductive Val
  | s (v : String)
  | i (v : Int)                       -- IntCol / Int64Col
  | f (milli : Int)                   -- FloatCol
  | sl (v : List String)
  | il (v : List Int)
  | ml (v : List (String × String))   -- service member list
  | jl (v : List Lean.Json)           -- InterfaceListCol
  | cv (names values : List String)   -- custom variables
  | crash (why : String)              -- the Go getter would panic here
  | emptyList (text : String)         -- `Column.GetEmptyValue` of a list-typed column whose reference is missing
  deriving Inhabited

/-- zero value of a freshly made `DataRow` slot -/
def DataType.zero : DataType → Val
  | .str | .strLarge | .json => .s ""
  | .int | .int64 => .i 0
  | .float => .f 0
  | .strList => .sl []
  | .int64List => .il []
  | .svcMemberList => .ml []
  | .ifaceList => .jl []
  | .customVar => .cv [] []

/-- `Column.GetEmptyValue` after the getter's conversion; for list types the placeholder keeps the text
    `fmt.Sprintf("%v", …)` gives it (`GetString` of a missing reference) -/
def DataType.emptyVal : DataType → Val
  | .str | .strLarge => .s ""
  | .json => .s "{}"
  | .int | .int64 => .i (-1)
  | .float => .f (-1000)
  | .strList | .int64List | .svcMemberList | .ifaceList => .emptyList "[]"
  | .customVar => .emptyList "map[]"

end Lmd
