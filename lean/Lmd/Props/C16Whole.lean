/-
  C16 (whole answer) — pass-through tables are forwarded and merged faithfully: statements about the whole
  answer of a pass-through query, composed from the step theorems of `Lmd.Props.C16`.

  Vocabulary (`Lmd.Lemmas.PassthroughWholeLemmas`, namespace `Lmd.PTW`):
  `peerRows t req p` are the reply rows of the backend `p` with its LMD-side values spliced in, in the backend's
  order; `answerRows t req peers` are these rows of all backends that are reachable and answered, backend after
  backend in the order of the backend list; `fullSorted t req peers` are the spliced rows in the order of the
  answer before the fetched sort columns are cut off; `goodRaw n p` are the reply rows of `p` that have `n`
  cells; `backendCounter n i p` is the sum of the numbers in column `i` of these rows.

  Theorems:
   6  `passthrough_answer_complete`            unsorted, unlimited: exactly the rows of the answering backends
   7  `passthrough_sorted_answer`, `passthrough_limit_first_n`, `sort_keys_not_in_output`
   8  `passthrough_stats_whole`, `passthrough_counters_sum`, `passthrough_stats_order_independent`,
      `failing_backend_contributes_nothing`
-/
import Lmd.Props.C16
import Lmd.Lemmas.PassthroughWholeLemmas

namespace Lmd.C16Whole
open Lmd Lmd.PT Lmd.PTW Lmd.C16
open Lean (Json)

/-- a backend contributes rows: it is reachable and its query succeeded -/
abbrev ok (p : PTPeer) : Bool := p.online && p.reply.isSome

/-- the failed-map entry of a backend that does not contribute -/
abbrev failedOf (p : PTPeer) : String × String := (p.id, if !p.online then p.lastError else p.err)

/-! ## 6. the unsorted, unlimited answer -/

/-- `passthrough_answer_complete`: for a pass-through query without Sort, Limit and Offset the answer is exactly
    the list of the rows the answering backends returned - backend after backend in the order of the backend
    list, every backend's rows in the order it sent them (so nothing is lost, nothing invented, nothing doubled),
    each row spliced with the LMD-side values of its own backend; a row is in the answer exactly if it is the
    spliced form of a reply row of a reachable backend that answered; a reply row with one cell per asked column
    becomes the walk along the requested columns that takes lmd's value (peer_key: the backend's id, peer_name:
    its name) for an LMD-side column and the next backend cell otherwise; and `failed` lists exactly the backends
    that did not answer (unreachable: last error; query failed: its error), in order. -/
theorem passthrough_answer_complete (t : Table) (req : Request) (peers : List PTPeer)
    (hs : req.sort = []) (hl : req.limit = none) (ho : req.offset = 0) :
    (ptData t req peers).window = answerRows t req peers ∧
    (ptData t req peers).rows = answerRows t req peers ∧
    (ptData t req peers).total = (answerRows t req peers).length ∧
    (∀ p ∈ peers, ok p = true → (peerRows t req p).Sublist (ptData t req peers).window) ∧
    (∀ r, r ∈ (ptData t req peers).window ↔
      ∃ p ∈ peers, p.online = true ∧ ∃ rows, p.reply = some rows ∧
        ∃ brow ∈ rows, r = spliceRow p (ptPlan t req).virtuals brow) ∧
    (∀ (p : PTPeer) (brow : List Json), brow.length = (ptPlan t req).backendCols.length →
      spliceRow p (ptPlan t req).virtuals brow = weave p (requestColumns t req) brow) ∧
    (ptData t req peers).failed = (peers.filter (fun p => !ok p)).map failedOf ∧
    ((ptData t req peers).failed.length + (peers.filter ok).length = peers.length) := by
  have hrows : (ptData t req peers).rows = answerRows t req peers := by
    rw [merge_unsorted t req peers hs, spliced_eq_answerRows]
  have hwin : (ptData t req peers).window = answerRows t req peers := by
    rw [(merge_complete t req peers).2.2.2.2.2 hl ho, hrows]
  have hfailed : (ptData t req peers).failed = (peers.filter (fun p => !ok p)).map failedOf := by
    rw [ptData_eq]
    exact failed_exact peers
  refine ⟨hwin, hrows, ?_, ?_, ?_, ?_, hfailed, ?_⟩
  · rw [(merge_complete t req peers).2.1, spliced_eq_answerRows]
  · intro p hp hok
    rw [hwin]
    exact sublist_flatMap_of_mem (peerRows t req) (List.mem_filter.2 ⟨hp, hok⟩)
  · intro r
    rw [hwin]
    exact mem_answerRows t req peers r
  · intro p brow hb
    rw [splice_eq_weave t req p brow hb, allCols_of_sort_nil t req hs]
  · have h := (answering_or_failed peers).1
    have h1 : (ptAnswering peers).length = (peers.filter ok).length := by
      rw [← (who_is_asked peers).1, List.length_map]
    have h2 : (ptData t req peers).failed = ptFailed peers := by rw [ptData_eq]
    rw [h2]
    omega

namespace Ex
open Lmd.C16.Ex

/-- `Columns: peer_key time peer_name message`, no Sort, no Limit -/
def reqU : Request := { table := "log", columns := ["peer_key", "time", "peer_name", "message"] }

example : reqU.sort = [] ∧ reqU.limit = none ∧ reqU.offset = 0 := ⟨rfl, rfl, rfl⟩

/-- two backends answer (two rows and one row), one is down -/
example : answerRows logT reqU [peerA, peerC, peerB] = [rowA1, rowA2, rowB1] := by rfl

example : (ptData logT reqU [peerA, peerC, peerB]).window = [rowA1, rowA2, rowB1] ∧
    (ptData logT reqU [peerA, peerC, peerB]).failed = [("c", "connection refused")] :=
  ⟨(passthrough_answer_complete logT reqU _ rfl rfl rfl).1.trans (by rfl), by decide⟩

end Ex

/-! ## 7. sorted and limited -/

/-- `passthrough_sorted_answer`: the answer of any pass-through data query.  There is a list `full` of whole
    spliced rows (the fetched sort columns still in place) that is a permutation of the rows of the answering
    backends (`answerRows`, see `passthrough_answer_complete`) and is ordered by the Sort keys (every earlier row
    may stand before every later one in the order `ptLe` of the requested directions, the keys read from the
    whole row); the rows of the answer are these rows, each cut to the requested columns, in this order; the
    keys lmd compared are the keys of these rows; without Sort the order is that of `answerRows`; and the
    answered window is what Offset and Limit leave of the rows. -/
theorem passthrough_sorted_answer (t : Table) (req : Request) (peers : List PTPeer) :
    ∃ full : List (List Json),
      full.Perm (answerRows t req peers) ∧
      full.Pairwise (fun a b => ptLe ((req.sort.filter (·.col.isSome)).map (·.desc))
        (ptKeys req (ptPlan t req) a) (ptKeys req (ptPlan t req) b) = true) ∧
      (ptData t req peers).rows = full.map (cutRow t req) ∧
      (ptData t req peers).keys = full.map (ptKeys req (ptPlan t req)) ∧
      (ptData t req peers).total = (answerRows t req peers).length ∧
      (req.sort = [] → full = answerRows t req peers) ∧
      (ptData t req peers).window = (match req.limit with
        | some n => ((full.map (cutRow t req)).drop req.offset).take n
        | none => (full.map (cutRow t req)).drop req.offset) := by
  have hrows : (ptData t req peers).rows = (fullSorted t req peers).map (cutRow t req) := by
    rw [ptData_eq]
    exact fullSorted_rows t req peers
  refine ⟨fullSorted t req peers, ?_, fullSorted_pairwise t req peers, hrows, ?_, ?_, ?_, ?_⟩
  · rw [← spliced_eq_answerRows]
    exact fullSorted_perm t req peers
  · rw [ptData_eq]
    show (cutKeyed t req peers).map (·.1) = _
    rw [cutKeyed_keys, fullSorted_keys]
  · rw [(merge_complete t req peers).2.1, spliced_eq_answerRows]
  · intro hs
    rw [fullSorted_of_sort_nil t req peers hs, spliced_eq_answerRows]
  · rw [← hrows]
    exact (window_genuine t req peers).1

/-- `passthrough_limit_first_n`: with `Limit: n` (and no Offset) the answer is the first `n` rows of the sorted
    list of `passthrough_sorted_answer` - all of them if there are fewer. -/
theorem passthrough_limit_first_n (t : Table) (req : Request) (peers : List PTPeer) (n : Nat)
    (hl : req.limit = some n) (ho : req.offset = 0) :
    (ptData t req peers).window = (ptData t req peers).rows.take n ∧
      (ptData t req peers).window.length = min n (answerRows t req peers).length := by
  have h := (window_genuine t req peers).1
  rw [hl, ho] at h
  simp only [List.drop_zero] at h
  refine ⟨h, ?_⟩
  have h1 := (merge_complete t req peers).2.2.1
  have h2 := (merge_complete t req peers).2.1
  rw [h, List.length_take, h1, h2, spliced_eq_answerRows]

/-- `sort_keys_not_in_output`: the sort keys need not be requested and do not appear in the output.  When at least
    one column is requested and the backends reply with one cell per asked column, every row of the answer is
    the walk along the REQUESTED columns alone (LMD-side values and the first backend cells) of a reply row of an
    answering backend, and has exactly one cell per requested column - although the backends were also asked for
    the sort columns that are not requested (`extraSortCols`), and the keys were read from them. -/
theorem sort_keys_not_in_output (t : Table) (req : Request) (peers : List PTPeer)
    (hw : 0 < (requestColumns t req).length)
    (hwf : ∀ p ∈ peers, ∀ rows, p.reply = some rows → ∀ brow ∈ rows,
      brow.length = (ptPlan t req).backendCols.length) :
    (∀ r ∈ (ptData t req peers).rows,
      r.length = (requestColumns t req).length ∧
      ∃ p ∈ peers, p.online = true ∧ ∃ rows, p.reply = some rows ∧ ∃ brow ∈ rows,
        r = weave p (requestColumns t req) (brow.take (nv (requestColumns t req)))) ∧
    (subRequest req (ptPlan t req)).columns =
      ((requestColumns t req).filter (·.storage != .virt)).map (·.name) ++
      ((extraSortCols t req).filter (·.storage != .virt)).map (·.name) := by
  refine ⟨?_, (sub_request_carries t req).2.2.2.2.2.2.2.2.2.2⟩
  intro r hr
  have hmem := (merge_complete t req peers).1.subset hr
  rw [List.mem_map] at hmem
  obtain ⟨r', hr', rfl⟩ := hmem
  rw [spliced_eq_answerRows, mem_answerRows] at hr'
  obtain ⟨p, hp, hon, rows, hrep, brow, hb, rfl⟩ := hr'
  have hlen := hwf p hp rows hrep brow hb
  have hcut := splice_cut t req p brow hlen (Or.inl hw)
  have hnv : nv (requestColumns t req) ≤ brow.length := by
    have h1 : nv (allCols t req) = brow.length := by
      rw [nv_eq_length_backendOf, ← (ptPlan_planOf t req).backend, hlen]
    have h2 : nv (allCols t req) = nv (requestColumns t req) + nv (extraSortCols t req) := by
      rw [allCols, nv_append]
    omega
  refine ⟨?_, p, hp, hon, rows, hrep, brow, hb, hcut⟩
  rw [hcut, weave_length]
  · simp [Nat.min_eq_left hnv]
  · simp [Nat.min_eq_left hnv]

namespace Ex
open Lmd.C16.Ex

/-- `Columns: peer_key message` + `Sort: time desc` (`req2`): `time` is fetched in addition and cut again -/
example : 0 < (requestColumns logT req2).length ∧ extraSortCols logT req2 = [cTime] ∧
    (subRequest req2 (ptPlan logT req2)).columns = ["message", "time"] := by decide

def peerA2 : PTPeer :=
  { id := "a", name := "Alpha", online := true, reply := some [[.str "x", n 10], [.str "y", n 30]] }
def peerB2 : PTPeer := { id := "b", name := "Beta", online := true, reply := some [[.str "z", n 20]] }

example : ∀ p ∈ [peerA2, peerC, peerB2], ∀ rows, p.reply = some rows → ∀ brow ∈ rows,
    brow.length = (ptPlan logT req2).backendCols.length := by
  have hlen : (ptPlan logT req2).backendCols.length = 2 := by decide
  intro p hp rows hrep brow hb
  rw [hlen]
  simp only [List.mem_cons, List.not_mem_nil, or_false] at hp
  rcases hp with rfl | rfl | rfl
  · simp only [peerA2, Option.some.injEq] at hrep
    subst hrep
    simp only [List.mem_cons, List.not_mem_nil, or_false] at hb
    rcases hb with rfl | rfl <;> rfl
  · simp [peerC] at hrep
  · simp only [peerB2, Option.some.injEq] at hrep
    subst hrep
    simp only [List.mem_cons, List.not_mem_nil, or_false] at hb
    subst hb
    rfl

example : req1.limit = none ∧ ({ req1 with limit := some 2 } : Request).limit = some 2 ∧
    ({ req1 with limit := some 2 } : Request).offset = 0 := ⟨rfl, rfl, rfl⟩

end Ex

/-! ## 8. Stats over a pass-through table -/

/-- the cells that are added up in slot `i` of a Stats request without columns: column `i` of all reply rows
    that have one cell per Stats header, of all answering backends -/
def statsCells (req : Request) (peers : List PTPeer) (i : Nat) : List Json :=
  ((peers.filter ok).flatMap (goodRaw req.stats.length)).map fun r => r.getD i Json.null

/-- `passthrough_stats_whole`: a Stats request without group-by columns over a pass-through table is answered
    with one row that has one accumulator per Stats header; the printed value of slot `i` is the arithmetic
    value (`slotFinal`: counters and sums add, `avg` divides the sum by the number of rows, `min`/`max`) of
    column `i` of all well-formed reply rows of all answering backends; and `failed` lists exactly the backends
    that did not answer. -/
theorem passthrough_stats_whole (t : Table) (req : Request) (peers : List PTPeer)
    (hc : req.columns = []) (hs : req.stats ≠ []) :
    ∃ accs, (ptStats t req peers).rows = [([], accs)] ∧ accs.length = req.stats.length ∧
      (∀ (i : Nat) (kind : AccKind), (req.stats.map StatsEntry.accKind)[i]? = some kind →
        ∃ a, accs[i]? = some a ∧ a.final = slotFinal kind (statsCells req peers i)) ∧
      (ptStats t req peers).failed = (peers.filter (fun p => !ok p)).map failedOf := by
  obtain ⟨accs, h1, h2, h3⟩ := counters_add_up t req peers hc hs
  refine ⟨accs, h1, ?_, ?_, failed_exact peers⟩
  · rw [h2, foldl_ptApply_length _ _ _ (by simp) (valsOfKey_length _ _ _ _), List.length_map]
  · intro i kind hk
    obtain ⟨a, ha, hf⟩ := h3 i kind hk
    refine ⟨a, ha, ?_⟩
    rw [hf]
    show slotFinal kind ((valsOfKey _ (requestColumns t req).length [] (spliced t req peers)).map _) = _
    rw [valsOfKey_stats_nil t req peers hc hs]
    rfl

/-- `passthrough_counters_sum`: the counters of the merged answer are the sums of the backends' counters: the
    printed value of a counter slot is the sum, over the answering backends in any grouping, of the number each
    backend contributes (`backendCounter`: the sum of the numbers it answered in that column). -/
theorem passthrough_counters_sum (t : Table) (req : Request) (peers : List PTPeer)
    (hc : req.columns = []) (hs : req.stats ≠ []) :
    ∃ accs, (ptStats t req peers).rows = [([], accs)] ∧
      ∀ (i : Nat), (req.stats.map StatsEntry.accKind)[i]? = some .counter →
        ∃ a, accs[i]? = some a ∧
          a.final = (((((peers.filter ok).map (backendCounter req.stats.length i)).sum : Nat) : Int), 1) := by
  obtain ⟨accs, h1, _, h3, _⟩ := passthrough_stats_whole t req peers hc hs
  refine ⟨accs, h1, ?_⟩
  intro i hk
  obtain ⟨a, ha, hf⟩ := h3 i .counter hk
  refine ⟨a, ha, ?_⟩
  rw [hf]
  show (((((statsCells req peers i).map fun v => Int.toNat (milliTrunc (jsonToMilli v))).sum : Nat) : Int), 1) = _
  unfold statsCells
  rw [List.map_map, sum_map_flatMap]
  rfl

/-- `passthrough_stats_order_independent`: the merged Stats answer does not depend on the order in which the
    backends answer: for two orders of the same backends the printed values of all slots (counters, sums,
    averages, minima, maxima) are the same, and the same backends are listed as failed. -/
theorem passthrough_stats_order_independent (t : Table) (req : Request) (peers peers' : List PTPeer)
    (hc : req.columns = []) (hs : req.stats ≠ []) (hperm : peers.Perm peers') :
    ∃ accs accs', (ptStats t req peers).rows = [([], accs)] ∧ (ptStats t req peers').rows = [([], accs')] ∧
      accs.map Acc.final = accs'.map Acc.final ∧
      (ptStats t req peers).failed.Perm (ptStats t req peers').failed := by
  obtain ⟨accs, h1, hl, h3, _⟩ := passthrough_stats_whole t req peers hc hs
  obtain ⟨accs', h1', hl', h3', _⟩ := passthrough_stats_whole t req peers' hc hs
  refine ⟨accs, accs', h1, h1', ?_, ?_⟩
  · apply List.ext_getElem?
    intro i
    rw [List.getElem?_map, List.getElem?_map]
    by_cases hi : i < req.stats.length
    · have hi' : i < (req.stats.map StatsEntry.accKind).length := by simpa using hi
      obtain ⟨a, ha, hf⟩ := h3 i _ (List.getElem?_eq_getElem hi')
      obtain ⟨a', ha', hf'⟩ := h3' i _ (List.getElem?_eq_getElem hi')
      rw [ha, ha', Option.map_some, Option.map_some, hf, hf']
      congr 1
      apply slotFinal_perm
      unfold statsCells
      exact (((hperm.filter ok).flatMap_right _).map _)
    · rw [List.getElem?_eq_none (by omega), List.getElem?_eq_none (by omega)]
  · rw [ptStats_eq, ptStats_eq]
    exact hperm.filterMap _

/-- `failing_backend_contributes_nothing`: a backend that is down or whose query fails, anywhere in the backend
    list, contributes nothing to the Stats answer - the rows are those of the request to the other backends -
    and it is listed in `failed` with its error, between the failures before and after it. -/
theorem failing_backend_contributes_nothing (t : Table) (req : Request) (a b : List PTPeer) (p : PTPeer)
    (hp : ok p = false) :
    (ptStats t req (a ++ p :: b)).rows = (ptStats t req (a ++ b)).rows ∧
      (ptStats t req (a ++ p :: b)).failed =
        (ptStats t req a).failed ++ failedOf p :: (ptStats t req b).failed ∧
      (∀ n i, ((a ++ p :: b).filter ok).map (backendCounter n i) = ((a ++ b).filter ok).map (backendCounter n i)) := by
  have h := failing_peer_inserted t req a b p hp
  refine ⟨h.2.2.1, h.2.2.2, ?_⟩
  intro n i
  have hf : (a ++ p :: b).filter ok = (a ++ b).filter ok := by
    simp only [List.filter_append, List.filter_cons, hp, Bool.false_eq_true, if_false]
  rw [hf]

namespace Ex
open Lmd.C16.Ex

example : reqS.columns = [] ∧ reqS.stats ≠ [] := ⟨rfl, by simp [reqS]⟩

/-- the counters 3 and 4 of the two answering backends add up to 7; the backend that is down is listed -/
example : backendCounter 2 0 peerSA = 3 ∧ backendCounter 2 0 peerSB = 4 ∧
    (([peerSA, peerC, peerSB].filter ok).map (backendCounter reqS.stats.length 0)).sum = 7 := by decide

example : [peerSA, peerC, peerSB].Perm [peerSB, peerSA, peerC] :=
  (List.Perm.cons peerSA (List.Perm.swap peerSB peerC [])).trans (List.Perm.swap peerSB peerSA [peerC])

example : ok peerC = false ∧ failedOf peerC = ("c", "connection refused") := by decide

end Ex

end Lmd.C16Whole
