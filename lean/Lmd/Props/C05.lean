/-
  C05 — Stats equal the aggregates over exactly the filtered rows.
  Property theorems only; helper lemmas live in Lmd/Lemmas/StatsLemmas.lean.
-/
import Lmd.Props.C01
import Lmd.Lemmas.StatsLemmas

namespace Lmd.C05

open Lmd

/-! ## 1. a slot prints the arithmetic aggregate of the values it has seen

`accOf k vs` is the slot of kind `k` after one backend has applied the values `vs` row by row. -/

/-- For every kind of stats column and every list of row values, the value lmd prints for a slot that
    has been fed these values one row at a time is *literally* the arithmetic specification: the number
    of rows for a counter, the sum, the sum over the number of rows for an average, the minimum, the
    maximum (both from the first value on, so negative values are handled), and 0 for no rows. -/
theorem acc_fold_final (k : AccKind) (vs : List Int) :
    (vs.foldl (fun a v => a.apply v 1) (Acc.init k)).final = specFinal k vs :=
  final_accOf k vs

/-- The same as `acc_fold_final`, read as an equation between rationals `n₁/d₁ = n₂/d₂`. -/
theorem acc_fold_final_rat (k : AccKind) (vs : List Int) :
    (accOf k vs).final.1 * (specFinal k vs).2 = (specFinal k vs).1 * (accOf k vs).final.2 := by
  rw [final_accOf]

/-- non-vacuity: a negative minimum (printed `-1000` before the repair of the "first value" rule) -/
example : (accOf .min [-3000, 5000, -7000]).final = (-7000, 1) := by decide
/-- non-vacuity: an all-negative maximum (printed `0` before the repair) -/
example : (accOf .max [-3000, -5000, -1000]).final = (-1000, 1) := by decide
example : specFinal .max [-3000, -5000, -1000] = (-1000, 1) := by decide
example : (accOf .avg [1000, 2000, 4000]).final = (7000, 3) := by decide
example : (accOf .sum [1000, -2500]).final = (-1500, 1) := by decide
example : (accOf .counter [0, 0, 0, 0]).final = (4, 1) := by decide
example : (accOf .min []).final = (0, 1) := by decide

/-! ## 2. merging backends is a homomorphism -/

/-- Merging the slot of a second backend (rows `ys`) into the slot of a first backend (rows `xs`) the way
    `Response.MergeStats` does gives exactly the slot one backend holding all the rows `xs ++ ys` would
    have — for every kind, including empty backends and negative extrema. -/
theorem merge_hom (k : AccKind) (xs ys : List Int) :
    (accOf k xs).apply (accOf k ys).stats (accOf k ys).count = accOf k (xs ++ ys) :=
  merge_accOf k xs ys

/-- The merged slot does not depend on how the rows are spread over the backends: for any number of
    backends with any row lists `parts`, merging their slots from left to right into an empty slot gives
    the slot of the concatenation of all rows. -/
theorem split_independent (k : AccKind) (parts : List (List Int)) :
    parts.foldl (fun a p => a.apply (accOf k p).stats (accOf k p).count) (Acc.init k) =
      accOf k parts.flatten := by
  have := merge_parts k [] parts
  simpa [accOf] using this

/-- As `split_independent`, in the form `MergeStats` really runs: the first backend's slot is taken as it
    is and the later ones are applied to it. -/
theorem split_independent_first (k : AccKind) (p : List Int) (parts : List (List Int)) :
    parts.foldl (fun a p => a.apply (accOf k p).stats (accOf k p).count) (accOf k p) =
      accOf k (p :: parts).flatten := by
  simpa using merge_parts k p parts

/-- Consequently two different splits of the same rows print the same value. -/
theorem split_independent_final (k : AccKind) (parts parts' : List (List Int))
    (h : parts.flatten = parts'.flatten) :
    (parts.foldl (fun a p => a.apply (accOf k p).stats (accOf k p).count) (Acc.init k)).final =
      (parts'.foldl (fun a p => a.apply (accOf k p).stats (accOf k p).count) (Acc.init k)).final := by
  rw [split_independent, split_independent, h]

/-- `MergeStats` on whole result maps works key by key (group-by keys of the second map distinct): a key
    on both sides gets its slots merged slot by slot, a key on one side only keeps its slots. -/
theorem merge_per_key (a b : StatsMap) (hb : (keys b).Nodup) (key : String) :
    lookup (mergeStats a b) key =
      match lookup b key with
      | none => lookup a key
      | some s => some (match lookup a key with
          | some cur => zipMerge cur s
          | none => s) :=
  mergeStats_lookup b a hb key

/-- Slot-wise merging of two backends' slot lists for the stats columns of kinds `ks` gives the slot list
    of the union of their rows. -/
theorem merge_slots_hom (ks : List AccKind) (xss yss : List (List Int)) :
    zipMerge (List.zipWith accOf ks xss) (List.zipWith accOf ks yss) =
      List.zipWith accOf ks (List.zipWith (· ++ ·) xss yss) :=
  zipMerge_accOf ks xss yss

/-- non-vacuity: a negative minimum on the second backend wins over a positive one on the first -/
example : (accOf .min [4000, 9000]).apply (accOf .min [-2000, 3000]).stats (accOf .min [-2000, 3000]).count
    = { kind := .min, stats := -2000, count := 4 } := by decide
/-- non-vacuity: all-negative maximum over three backends, one of them empty -/
example : [[-5000], [], [-1000, -8000]].foldl
      (fun a p => a.apply (accOf .max p).stats (accOf .max p).count) (Acc.init .max)
    = { kind := .max, stats := -1000, count := 3 } := by decide
example : accOf .max [-5000, -1000, -8000] = { kind := .max, stats := -1000, count := 3 } := by decide

/-! ## 3. flat counting: each stats column on its own slot, under the Boolean semantics -/

/-- Evaluating the flat stats list on one row (specification mode: Boolean filter semantics) with one slot
    per stats column leaves the number of slots unchanged, bumps the slot of a counter iff the counter's
    filter holds for the row (`sem`), and applies the row's value to the slot of an aggregate. -/
theorem counter_spec (q : Quirks) (v : View) (stats : List StatsEntry) (accs accs' : Accs)
    (hlen : accs.length = stats.length) (h : countFlat q false v stats 0 accs = some accs') :
    accs'.length = accs.length ∧
    ∀ (i : Nat) (h1 : i < stats.length) (h2 : i < accs.length),
      accs'[i]? = stepSlot q v stats[i] accs[i] := by
  rw [countFlat_slotwise q v stats accs hlen] at h
  exact slotwise_spec q v stats accs accs' hlen h

/-- Flat counting of a row fails (the daemon would crash) exactly when one of the aggregates' getters
    panics on that row; counters never fail. -/
theorem counter_spec_crash (q : Quirks) (v : View) (stats : List StatsEntry) (accs : Accs)
    (hlen : accs.length = stats.length) :
    countFlat q false v stats 0 accs = none ↔
      ∃ k col n, StatsEntry.agg k col n ∈ stats ∧ getFloat v col = none := by
  rw [countFlat_slotwise q v stats accs hlen]
  exact slotwise_none_iff q v stats accs hlen

/-- For a stats list consisting only of counters with filters `fs`: after counting any list of rows,
    starting from fresh slots, slot `i` holds the number of rows for which filter `fᵢ` holds. -/
theorem counter_fold_spec (q : Quirks) (fs : List Filter) (views : List View) :
    views.foldlM (fun accs v => countFlat q false v (fs.map StatsEntry.counter) 0 accs)
        (fs.map fun _ => Acc.init .counter) =
      some (fs.map fun f => counterSlot ((views.filter (fun v => sem q v f)).length)) := by
  have := counters_fold q fs views (fun _ => 0)
  simpa [counterSlot, Acc.init] using this

/-! concrete data for the non-vacuity examples: a row with `state = 2`, `acknowledged = 1` -/

def colState : Column := { name := "state", dtype := .int, storage := .loc }
def colAck : Column := { name := "acknowledged", dtype := .int, storage := .loc }
def demoView : View := { get := fun c => if c.name == "state" then .i 2 else .i 1, flags := 0 }
def stateIs2 : Leaf := { col := colState, op := .eq, sval := "2", num := 2000 }
def ackIs (n : Int) : Leaf := { col := colAck, op := .eq, sval := toString n, num := n * 1000 }

/-- `Stats: state = 2`, `Stats: acknowledged = 1`, `StatsAnd: 2` / the same with `acknowledged = 0` -/
def demoStats : List StatsEntry :=
  [ .counter (.grp true [.leaf stateIs2 false, .leaf (ackIs 1) false] false),
    .counter (.grp true [.leaf stateIs2 false, .leaf (ackIs 0) false] false) ]

def demoSlots : Accs := [Acc.init .counter, Acc.init .counter]

/-- non-vacuity of `counter_spec`: the hypotheses hold for the demo row and the first counter is hit -/
example : countFlat Quirks.none false demoView demoStats 0 demoSlots =
    some [counterSlot 1, counterSlot 0] := by decide

/-! ## 4. negation push-down does not change flat counting -/

/-- With the negation defect repaired, counting with the daemon's filter evaluation (`MatchFilter` with
    negation push-down) equals counting under the Boolean semantics: for every row, stats list, start
    position and slots. -/
theorem countFlat_pushDown (q : Quirks) (hq : q.negOr = false) (v : View) :
    ∀ (stats : List StatsEntry) (pos : Nat) (accs : Accs),
      countFlat q true v stats pos accs = countFlat q false v stats pos accs
  | [], _, _ => by simp [countFlat]
  | .counter f :: rest, pos, accs => by
    simp only [countFlat, if_true, Bool.false_eq_true, if_false, Lmd.C01.matchF_eq_sem q hq v f false,
      Bool.bne_false]
    exact countFlat_pushDown q hq v rest _ _
  | .agg k col n :: rest, pos, accs => by
    simp only [countFlat]
    cases getFloat v col with
    | none => rfl
    | some m => exact countFlat_pushDown q hq v rest _ _

example : Quirks.none.negOr = false := rfl

/-! ## 5. the grouping optimiser -/

/-- Soundness of `optimizeStatsGroups`, for unbounded stats lists and the full recursion into sub groups.
    For every quirks record, row, stats list and slots: if the optimiser produced a grouped form, then
    counting the row with the grouped form equals counting it with the flat list — provided the leaves the
    optimiser may identify evaluate alike on that row: `KeyCongr P q v` says that two leaves satisfying `P`
    with the same column name, operator, string value, custom tag and empty flag (`sameKey`, the
    comparison the optimiser uses when it appends to a group; `Filter.Equals` is finer) have the same
    `matchLeaf`, and `StatsOK P stats` says all leaves of the counters satisfy `P`.

    What is missing for the unrestricted statement: nothing can be — without the congruence hypothesis the
    statement is false for the model (see `grouping_unsound_without_congruence`), because the optimiser
    compares leaves by their text, not by the resolved column / parsed number / compiled pattern.
    Discharging the hypothesis for leaves built by the request parser (where these fields are functions of
    the text) is the open piece.  Neither `q.negOr = false` nor `accs.length = stats.length` is needed. -/
theorem grouping_sound_partial (P : Leaf → Prop) (q : Quirks) (v : View) (hk : KeyCongr P q v)
    (stats : List StatsEntry) (hs : StatsOK P stats) (nodes : List SNode)
    (h : optimizeStats stats = some nodes) (accs : Accs) :
    countNodes q v nodes accs = countFlat q true v stats 0 accs :=
  grouping_bumps P q v hk stats hs nodes h accs

/-- `grouping_sound_partial` with a hypothesis that mentions neither the row nor the quirks: if every leaf
    of the stats list is determined by its key — there is one function `mk` from (column name, operator,
    string value, tag, empty flag) to leaves that rebuilds each of them, as is the case for a
    deterministic parser working on one table — then grouped and flat counting agree on every row. -/
theorem grouping_sound_of_keyDetermined
    (mk : String → Op → String → String → Bool → Leaf)
    (stats : List StatsEntry)
    (hs : StatsOK (fun l => l = mk l.col.name l.op l.sval l.tag l.isEmpty) stats)
    (nodes : List SNode) (h : optimizeStats stats = some nodes)
    (q : Quirks) (v : View) (accs : Accs) :
    countNodes q v nodes accs = countFlat q true v stats 0 accs := by
  refine grouping_bumps _ q v ?_ stats hs nodes h accs
  intro a b ha hb hab
  simp only [sameKey, Bool.and_eq_true, beq_iff_eq] at hab
  obtain ⟨⟨⟨⟨⟨h1, _⟩, h3⟩, h4⟩, h5⟩, h6⟩ := hab
  rw [ha, hb, h1, h3, h4, h5, h6]

/-- Grouped counting also equals the specification (Boolean semantics, flat) once negation is repaired. -/
theorem grouping_sound_spec (P : Leaf → Prop) (q : Quirks) (hq : q.negOr = false) (v : View)
    (hk : KeyCongr P q v) (stats : List StatsEntry) (hs : StatsOK P stats) (nodes : List SNode)
    (h : optimizeStats stats = some nodes) (accs : Accs) :
    countNodes q v nodes accs = countFlat q false v stats 0 accs := by
  rw [grouping_bumps P q v hk stats hs nodes h accs, countFlat_pushDown q hq v]

/-- non-vacuity: the two demo counters share their first term, the optimiser nests them under one group … -/
example : optimizeStats demoStats =
    some [.sgroup stateIs2 false [.counter 0 (.leaf (ackIs 1) false), .counter 1 (.leaf (ackIs 0) false)]] := by
  rfl
/-- … all their leaves are determined by their key (`P` := being one of the three leaves; equal keys are
    equal leaves) … -/
example : StatsOK (fun l => l = stateIs2 ∨ l = ackIs 1 ∨ l = ackIs 0) demoStats ∧
    KeyCongr (fun l => l = stateIs2 ∨ l = ackIs 1 ∨ l = ackIs 0) Quirks.none demoView := by
  refine ⟨by simp [StatsOK, demoStats, FilterOK, FiltersOK], ?_⟩
  rintro a b (rfl | rfl | rfl) (rfl | rfl | rfl) h <;> first | rfl | (revert h; decide)
/-- … and both evaluations bump exactly the first slot. -/
example : countNodes Quirks.none demoView
      [.sgroup stateIs2 false [.counter 0 (.leaf (ackIs 1) false), .counter 1 (.leaf (ackIs 0) false)]] demoSlots
    = some [counterSlot 1, counterSlot 0] := by decide
example : countFlat Quirks.none true demoView demoStats 0 demoSlots = some [counterSlot 1, counterSlot 0] := by
  decide

/-- a leaf with the same text as `stateIs2` but resolved to a column of another type (never matches) -/
def stateIs2Odd : Leaf :=
  { col := { name := "state", dtype := .ifaceList, storage := .loc }, op := .eq, sval := "2", num := 2000 }

/-- The congruence hypothesis of `grouping_sound_partial` cannot be dropped: on syntax trees whose leaves
    carry the same text but different resolved columns the grouped form counts differently from the flat
    list (negation repaired, one slot per column).  The optimiser identifies the two first terms by
    `Filter.Equals`, which does not look at the column's type. -/
theorem grouping_unsound_without_congruence :
    ∃ (q : Quirks) (v : View) (stats : List StatsEntry) (nodes : List SNode) (accs : Accs),
      q.negOr = false ∧ accs.length = stats.length ∧ optimizeStats stats = some nodes ∧
      countNodes q v nodes accs ≠ countFlat q true v stats 0 accs :=
  ⟨Quirks.none, demoView,
    [ .counter (.grp true [.leaf stateIs2 false, .leaf (ackIs 1) false] false),
      .counter (.grp true [.leaf stateIs2Odd false, .leaf (ackIs 1) false] false) ],
    [.sgroup stateIs2 false [.counter 0 (.leaf (ackIs 1) false), .counter 1 (.leaf (ackIs 1) false)]],
    demoSlots, by decide, by decide, by rfl, by decide⟩

/-! ## 6. group-by: one slot list per key, fed by exactly the rows of that key -/

/-- `gatherStatsResult` for one backend, when it does not crash: the keys of the result are pairwise
    distinct, and for every key the result holds a slot list iff some candidate row passes the filter and
    the authorisation check and has that key; that slot list is the fresh slot list after counting exactly
    these rows, each once, in table order. (`gsCands`, `gsOk`, `gsKey`, `gsCount`, `gsInit` name the
    candidate rows, the row test, the key, the per-row counting and the fresh slots of `gatherStats`.) -/
theorem groupby_partition (m : StatsMode) (cx : Ctx) (t : Table) (req : Request) (reqCols : List Column)
    (res : StatsMap) (h : gatherStats m cx t req reqCols = some res) :
    (keys res).Nodup ∧
    ∀ key : String,
      let rows := (gsCands m cx t req).filter (fun r => gsOk m cx t req r && gsKey cx t reqCols r == key)
      if rows.isEmpty then lookup res key = none
      else ∃ slots, lookup res key = some slots ∧
        rows.foldlM (fun accs r => gsCount m cx t req r accs) (gsInit req) = some slots := by
  rw [gatherStats_eq] at h
  obtain ⟨hn, hk⟩ := foldRows_spec _ _ _ _ _ _ _ h
  refine ⟨hn (by simp [keys]), ?_⟩
  intro key
  have := hk key
  simp only [lookup_nil, Option.isSome_none, Bool.false_or, Option.getD_none, rowsOf] at this
  intro rows
  by_cases he : rows.isEmpty = true
  · simp only [he, if_true]
    simpa [rows, he] using this
  · simp only [he, Bool.false_eq_true, if_false]
    simpa [rows, he] using this

/-- The step used by `groupby_partition`, on its own: `upsert` changes the slot list of its key only (to
    the counted-on version of the old one, or of the fresh slots for a new key) and keeps keys distinct. -/
theorem upsert_partition (m m' : StatsMap) (key : String) (init : Accs) (f : Accs → Option Accs)
    (h : m.upsert key init f = some m') :
    ∃ x, f ((lookup m key).getD init) = some x ∧ lookup m' key = some x ∧
      (∀ k, k ≠ key → lookup m' k = lookup m k) ∧ ((keys m).Nodup → (keys m').Nodup) :=
  upsert_spec m m' key init f h

/-- non-vacuity of `upsert_partition`: a new key is appended, an old one is updated in place -/
example : StatsMap.upsert [("a", [counterSlot 1])] "b" [counterSlot 0] (fun s => some (s.map incr)) =
    some [("a", [counterSlot 1]), ("b", [counterSlot 1])] := by decide
example : StatsMap.upsert [("a", [counterSlot 1])] "a" [counterSlot 0] (fun s => some (s.map incr)) =
    some [("a", [counterSlot 2])] := by decide

end Lmd.C05
