/- C05 — property theorems (under construction). -/
import Lmd.Props.C01
namespace Lmd.C05
end Lmd.C05
