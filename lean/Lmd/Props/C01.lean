/-
  C01 — a GET query returns exactly the rows that satisfy its filter.
  Property theorems only; helper lemmas live in Lmd/Lemmas.
-/
import Lmd.Query
import Lmd.Lemmas.Select

namespace Lmd.C01

/-- quirks record with the negation defect repaired (the other switches are arbitrary) -/
def NegRepaired (q : Quirks) : Prop := q.negOr = false

mutual
  /-- De-Morgan push-down is sound once negation is combined by XOR: for every tree, every depth,
      every inherited negation. -/
  theorem matchF_eq_sem (q : Quirks) (hq : q.negOr = false) (v : View) :
      ∀ (f : Filter) (neg : Bool), matchF q v neg f = (sem q v f != neg)
    | .leaf l n, neg => by
      simp only [matchF, sem, combineNeg, hq]
      cases neg <;> cases n <;> cases matchLeaf q v l <;> rfl
    | .grp isAnd fs n, neg => by
      simp only [matchF, sem, combineNeg, hq]
      have ha := allF_eq q hq v fs
      have ho := anyF_eq q hq v fs
      cases neg <;> cases n <;> cases isAnd <;> simp [ha, ho]
  /-- the conjunction loop of `MatchFilter` under an inherited negation: De Morgan form of the Boolean meaning -/
  theorem allF_eq (q : Quirks) (hq : q.negOr = false) (v : View) :
      ∀ (fs : List Filter) (neg : Bool), allF q v neg fs = (if neg then !semAny q v fs else semAll q v fs)
    | [], neg => by cases neg <;> simp [allF, semAll, semAny]
    | f :: fs, neg => by
      simp only [allF, semAll, semAny, matchF_eq_sem q hq v f neg, allF_eq q hq v fs neg]
      cases neg <;> cases sem q v f <;> simp
  /-- the disjunction loop of `MatchFilter` under an inherited negation: De Morgan form of the Boolean meaning -/
  theorem anyF_eq (q : Quirks) (hq : q.negOr = false) (v : View) :
      ∀ (fs : List Filter) (neg : Bool), anyF q v neg fs = (if neg then !semAll q v fs else semAny q v fs)
    | [], neg => by cases neg <;> simp [anyF, semAll, semAny]
    | f :: fs, neg => by
      simp only [anyF, semAll, semAny, matchF_eq_sem q hq v f neg, anyF_eq q hq v fs neg]
      cases neg <;> cases sem q v f <;> simp
end

/-- Without the negation defect the request's filter list evaluated the way the code does it (negation
    pushed down the tree) is exactly the conjunction of the Boolean meanings of its filters. -/
theorem matchAll_eq_semList (q : Quirks) (hq : q.negOr = false) (v : View) (fs : List Filter) :
    matchAll q v fs = semList q v fs := by
  unfold matchAll semList
  congr 1
  funext f
  rw [matchF_eq_sem q hq v f false]
  cases sem q v f <;> rfl

/-- non-vacuity: `Quirks.current` has the negation defect repaired -/
example : Quirks.current.negOr = false := rfl

/-- a row on which every column reads as the empty string / nothing -/
def cexView : View := { get := fun _ => .s "", flags := 0 }
/-- `state != <empty>` on an integer column: always true -/
def cexLeaf : Leaf := { col := { name := "state", dtype := .int, storage := .loc }, op := .ne, isEmpty := true }
/-- `Negate:` applied to an `And:` group whose only member is itself negated -/
def cexFilter : Filter := .grp true [.leaf cexLeaf true] true

/-- The defect that was repaired: with negation OR-ed down the tree (`negOr = true`) a negated filter
    inside a negated group is evaluated wrongly - the code says "no match" where the Boolean meaning
    (not (not true)) is "match". -/
theorem nested_negate_counterexample :
    ∃ (q : Quirks) (v : View) (f : Filter), q.negOr = true ∧ matchF q v false f = false ∧ sem q v f = true := by
  refine ⟨{ Quirks.current with negOr := true }, cexView, cexFilter, rfl, ?_, ?_⟩
  · simp [cexFilter, matchF, anyF, combineNeg, matchLeaf, matchLeafCore, cexLeaf, matchEmptyFilter]
  · simp [cexFilter, sem, semAll, matchLeaf, matchLeafCore, cexLeaf, matchEmptyFilter]

/-- the same tree is evaluated correctly by the code of today -/
example : matchF Quirks.current cexView false cexFilter = sem Quirks.current cexView cexFilter :=
  matchF_eq_sem Quirks.current rfl cexView cexFilter false

/-- The per-backend row loop without index pre-selection and without the early cut returns exactly the
    rows of the store that satisfy the Boolean meaning of the filter and pass authorisation: none is
    omitted, no other row is returned, the order is the store order, and the reported total is their
    number.  `hq` excludes only the switch of the repaired defect (a negated `Or` group evaluated as
    written, fix 1): `Quirks.current` satisfies it. -/
theorem gatherRows_scan_eq_filter (m : EvalMode) (cx : Ctx) (t : Table) (req : Request)
    (hi : m.useIndex = false) (hc : m.earlyCut = false) (hq : m.q.negOr = false) :
    (gatherRows m cx t req).hits.map (·.r) =
        (tableRows cx t).filter (fun r => semList m.q (mkView cx t r) req.filter && checkAuth cx t req.authUser r)
    ∧ (gatherRows m cx t req).total =
        ((tableRows cx t).filter (fun r => semList m.q (mkView cx t r) req.filter && checkAuth cx t req.authUser r)).length := by
  have hrm : ∀ v fs, rowMatches m v fs = semList m.q v fs := by
    intro v fs
    unfold rowMatches
    split
    · exact matchAll_eq_semList m.q hq v fs
    · rfl
  simp only [gatherRows, hi, hc, hrm, Bool.false_eq_true, if_false, List.map_map, List.length_map]
  constructor
  · have : ((fun (x : Hit) => x.r) ∘ fun r => ({ b := cx.b, r := r, keys := req.sort.map (sortKeyOf (mkView cx t r)) } : Hit)) = id := by
      funext r; rfl
    rw [this, List.map_id]
  · trivial

/-- non-vacuity: the specification mode is such a mode -/
example : EvalMode.spec.useIndex = false ∧ EvalMode.spec.earlyCut = false ∧ EvalMode.spec.q.negOr = false :=
  ⟨rfl, rfl, rfl⟩

/-- non-vacuity: on the demo dataset `Filter: name = a` selects one of the two host rows -/
example : (gatherRows EvalMode.spec Lemmas.Demo.cx Lemmas.Demo.hosts
    { table := "hosts", filter := [.leaf (Lemmas.Demo.nameLeaf .eq "a") false] }).total = 1 := by
  decide

/-- Every row the per-backend loop returns - in any mode, with index pre-selection and early cut - is a
    row of the store, unaltered, and is labelled with the backend it was read from. -/
theorem hit_values_unchanged (m : EvalMode) (cx : Ctx) (t : Table) (req : Request) :
    ∀ h ∈ (gatherRows m cx t req).hits, h.r ∈ tableRows cx t ∧ h.b = cx.b := by
  intro h hh
  have hc : ∀ r ∈ (if m.useIndex then preFiltered cx t (tableRows cx t) req.filter else tableRows cx t),
      r ∈ tableRows cx t := by
    intro r hr
    split at hr
    · exact Lemmas.preFiltered_subset cx t _ _ r hr
    · exact hr
  have key : ∀ (l : List Row) (p : Row → Bool), (∀ r ∈ l, r ∈ tableRows cx t) →
      ∀ h ∈ (l.filter p).map (fun r => ({ b := cx.b, r := r, keys := req.sort.map (sortKeyOf (mkView cx t r)) } : Hit)),
        h.r ∈ tableRows cx t ∧ h.b = cx.b := by
    intro l p hl h hh
    simp only [List.mem_map, List.mem_filter] at hh
    obtain ⟨r, ⟨hr, _⟩, rfl⟩ := hh
    exact ⟨hl r hr, rfl⟩
  unfold gatherRows at hh
  simp only at hh
  split at hh
  · exact key _ _ hc h hh
  · exact key _ _ hc h (List.mem_of_mem_take hh)

/-- non-vacuity: the loop of the code of today does return rows on the demo dataset -/
example : (gatherRows (EvalMode.code Quirks.current) Lemmas.Demo.cx Lemmas.Demo.hosts { table := "hosts" }).hits.length = 2 := by
  decide

end Lmd.C01
