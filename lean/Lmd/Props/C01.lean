/-
  C01 — a GET query returns exactly the rows that satisfy its filter.
  Property theorems only; helper lemmas live in Lmd/Lemmas.
-/
import Lmd.Query

namespace Lmd.C01

/-- quirks record with the negation defect repaired (the other switches are arbitrary) -/
def NegRepaired (q : Quirks) : Prop := q.negOr = false

mutual
  /-- De-Morgan push-down is sound once negation is combined by XOR: for every tree, every depth,
      every inherited negation. -/
  theorem matchF_eq_sem (q : Quirks) (hq : q.negOr = false) (v : View) :
      ∀ (f : Filter) (neg : Bool), matchF q v neg f = (sem q v f != neg)
    | .leaf l n, neg => by
      simp only [matchF, sem, combineNeg, hq]
      cases neg <;> cases n <;> cases matchLeaf q v l <;> rfl
    | .grp isAnd fs n, neg => by
      simp only [matchF, sem, combineNeg, hq]
      have ha := allF_eq q hq v fs
      have ho := anyF_eq q hq v fs
      cases neg <;> cases n <;> cases isAnd <;> simp [ha, ho]
  theorem allF_eq (q : Quirks) (hq : q.negOr = false) (v : View) :
      ∀ (fs : List Filter) (neg : Bool), allF q v neg fs = (if neg then !semAny q v fs else semAll q v fs)
    | [], neg => by cases neg <;> simp [allF, semAll, semAny]
    | f :: fs, neg => by
      simp only [allF, semAll, semAny, matchF_eq_sem q hq v f neg, allF_eq q hq v fs neg]
      cases neg <;> cases sem q v f <;> simp
  theorem anyF_eq (q : Quirks) (hq : q.negOr = false) (v : View) :
      ∀ (fs : List Filter) (neg : Bool), anyF q v neg fs = (if neg then !semAll q v fs else semAny q v fs)
    | [], neg => by cases neg <;> simp [anyF, semAll, semAny]
    | f :: fs, neg => by
      simp only [anyF, semAll, semAny, matchF_eq_sem q hq v f neg, anyF_eq q hq v fs neg]
      cases neg <;> cases sem q v f <;> simp
end

end Lmd.C01
