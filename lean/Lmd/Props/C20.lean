/-
  C20 — a configuration reload keeps serving and applies exactly the changes.  (theorems: see below)
-/
import Lmd.PeerLoop

namespace Lmd.C20

end Lmd.C20
