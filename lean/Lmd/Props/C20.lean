/-
  C20 — a configuration reload keeps serving and applies exactly the changes.

  On SIGHUP `mainLoop` runs `initializePeers` and `initializeListeners` again.  The model (`Lmd.Reload`) describes
  the peer map before the reload as `old : List (Conn × Nat)` - every configured connection together with the
  generation number that identifies its `Peer` object (and with it the cache, the counters, the update loop) - and
  `next`, the first unused generation number.  `reloadPlan old conns next` is the list of decisions for the new
  configuration `conns` (`.keep g`: the object `g` stays; `.create g`: a new object `g` is made and synchronised),
  `reloadResult` the peer map afterwards, `reloadListeners old new` what happens to the listeners.

  Theorems:
   1  `order_is_configuration`   the peer map lists exactly the configured connections, in configuration order
   2  `unchanged_keeps_peer`, `unchanged_in_result`   an unchanged definition keeps its peer object
   3  `changed_gets_new_peer`, `created_is_new`, `created_distinct`, `created_consecutive`
   4  `keep_iff_unchanged`, `decision_unique`, `rename_forces_new_peer`, `sources_change_forces_new_peer`,
      `flags_change_forces_new_peer`
   5  `removed_gone`
   6  `noop_reload`, `reload_idempotent`
   7  `gens_stay_distinct`, `invariant_preserved`, `invariant_preserved_many`
   8  `listeners_match`, `listeners_kept`, `listeners_closed`, `listeners_opened`, `listeners_kept_not_closed`,
      `listeners_noop`
-/
import Lmd.Lemmas.ReloadLemmas

namespace Lmd.C20
open Lmd.ReloadLemmas

/-! ## 0. well-formedness of configurations and peer maps -/

/-- the connection ids of a configuration are pairwise different (lmd exits on a duplicate id) -/
def IdsDistinct (conns : List Conn) : Prop := (conns.map (·.id)).Nodup

/-- the connection ids of a peer map are pairwise different -/
def PeerIdsDistinct (old : List (Conn × Nat)) : Prop := IdsDistinct (old.map (·.1))

/-- every generation number in the peer map is below the counter -/
def GensBelow (old : List (Conn × Nat)) (next : Nat) : Prop := ∀ p ∈ old, p.2 < next

/-- the peer objects of the map are pairwise different -/
def GensDistinct (old : List (Conn × Nat)) : Prop := (old.map (·.2)).Nodup

instance (conns : List Conn) : Decidable (IdsDistinct conns) := by unfold IdsDistinct; infer_instance
instance (old : List (Conn × Nat)) : Decidable (PeerIdsDistinct old) := by unfold PeerIdsDistinct; infer_instance
instance (old : List (Conn × Nat)) (n : Nat) : Decidable (GensBelow old n) := by unfold GensBelow; infer_instance
instance (old : List (Conn × Nat)) : Decidable (GensDistinct old) := by unfold GensDistinct; infer_instance

theorem PeerIdsDistinct.ids {old : List (Conn × Nat)} (h : PeerIdsDistinct old) : (old.map (·.1.id)).Nodup := by
  unfold PeerIdsDistinct IdsDistinct at h
  rwa [List.map_map] at h

/-! ## a concrete reload for the examples -/

def b0 : Conn := { id := "id0", name := "b0", sources := ["b0.sock"], flags := [] }
def b1 : Conn := { id := "id1", name := "b1", sources := ["b1.sock"], flags := [] }
def b2 : Conn := { id := "id2", name := "b2", sources := ["b2.sock"], flags := [] }
/-- `b1` with a new display name -/
def b1r : Conn := { b1 with name := "renamed" }

def exOld : List (Conn × Nat) := [(b0, 0), (b1, 1)]
def exConns : List Conn := [b1r, b2, b0]

/-- the reload of the task description: the renamed and the added backend get new peers 2 and 3, the unchanged
    backend keeps peer 0, the counter ends at 4 -/
example : reloadPlan exOld exConns 2 = ([(b1r, .create 2), (b2, .create 3), (b0, .keep 0)], 4) := by decide

example : reloadResult exOld exConns 2 = ([(b1r, 2), (b2, 3), (b0, 0)], 4) := by decide

example : PeerIdsDistinct exOld ∧ GensDistinct exOld ∧ GensBelow exOld 2 ∧ IdsDistinct exConns := by decide

/-! ## 1. the peer map follows the configuration -/

/-- `order_is_configuration`: after a reload the peer map lists exactly the configured connections, in the order
    of the configuration file - whatever the peer map was before.  So removed backends are gone and added ones are
    present (this is also the order of the sites table). -/
theorem order_is_configuration (old : List (Conn × Nat)) (conns : List Conn) (next : Nat) :
    (reloadResult old conns next).1.map (·.1) = conns :=
  result_map_fst old conns next

example : (reloadResult exOld exConns 2).1.map (·.1) = [b1r, b2, b0] := by decide

/-- the plan has one decision per configured connection, in configuration order -/
theorem plan_is_configuration (old : List (Conn × Nat)) (conns : List Conn) (next : Nat) :
    (reloadPlan old conns next).1.map (·.1) = conns :=
  plan_map_fst old conns next

/-! ## 2. unchanged backends keep their peer -/

/-- `unchanged_keeps_peer`: a backend whose definition is configured exactly as before keeps its `Peer` object:
    the decision is `.keep g` with the old generation - same object, hence the same cache and counters, and no
    new connection is made. -/
theorem unchanged_keeps_peer {old : List (Conn × Nat)} {conns : List Conn} (next : Nat) {c : Conn} {g : Nat}
    (hold : (c, g) ∈ old) (hids : PeerIdsDistinct old) (hc : c ∈ conns) :
    (c, Decision.keep g) ∈ (reloadPlan old conns next).1 :=
  keep_mem_plan next hc (lookup_of_mem hids.ids hold)

/-- `unchanged_in_result`: the entry of an unchanged backend is in the peer map after the reload, with the same
    peer object. -/
theorem unchanged_in_result {old : List (Conn × Nat)} {conns : List Conn} (next : Nat) {c : Conn} {g : Nat}
    (hold : (c, g) ∈ old) (hids : PeerIdsDistinct old) (hc : c ∈ conns) :
    (c, g) ∈ (reloadResult old conns next).1 :=
  mem_result.2 ⟨.keep g, unchanged_keeps_peer next hold hids hc, rfl⟩

example : (b0, 0) ∈ exOld ∧ PeerIdsDistinct exOld ∧ b0 ∈ exConns := by decide

/-- the distinct-ids hypothesis is needed: when the old map has two entries with one id, the definition that is
    not the first one is not recognised. -/
example : (b1r, 7) ∈ [(b1, 1), (b1r, 7)] ∧ b1r ∈ [b1r] ∧
    (b1r, Decision.keep 7) ∉ (reloadPlan [(b1, 1), (b1r, 7)] [b1r] 8).1 := by decide

/-! ## 3. added and changed backends get a new peer -/

/-- `changed_gets_new_peer`: a configured connection that is not in the old peer map with exactly this definition
    (a new id, or a known id with any field changed) gets a new `Peer` object: every decision for it is a
    `.create g'`, there is one, and `g'` is one of the generation numbers handed out by this reload
    (`next ≤ g' < new counter`). -/
theorem changed_gets_new_peer {old : List (Conn × Nat)} {conns : List Conn} (next : Nat) {c : Conn}
    (hc : c ∈ conns) (hnew : ∀ g, (c, g) ∉ old) :
    (∃ g', (c, Decision.create g') ∈ (reloadPlan old conns next).1 ∧
        next ≤ g' ∧ g' < (reloadPlan old conns next).2) ∧
      ∀ d, (c, d) ∈ (reloadPlan old conns next).1 →
        ∃ g', d = Decision.create g' ∧ next ≤ g' ∧ g' < (reloadPlan old conns next).2 := by
  have hl := lookup_none_of_not_mem hnew
  refine ⟨create_mem_plan next hc hl, ?_⟩
  intro d hd
  cases d with
  | keep g =>
    have := (mem_plan_keep hd).2
    rw [hl] at this
    cases this
  | create g => exact ⟨g, rfl, (mem_plan_create hd).2.2⟩

example : b2 ∈ exConns ∧ ∀ g, g < 5 → (b2, g) ∉ exOld := by decide

/-- `created_is_new`: when all old generations are below the counter, the generation of a created peer differs
    from every generation in the old peer map - it is a genuinely new object. -/
theorem created_is_new {old : List (Conn × Nat)} {conns : List Conn} {next : Nat} {c : Conn} {g' : Nat}
    (hbelow : GensBelow old next) (h : (c, Decision.create g') ∈ (reloadPlan old conns next).1) :
    ∀ p ∈ old, p.2 ≠ g' := by
  intro p hp heq
  have h1 := hbelow p hp
  have h2 := (mem_plan_create h).2.2.1
  omega

/-- `created_distinct`: two created peers get different generations: one generation number is handed out to one
    connection only, two different positions of the plan never carry the same created generation, and the
    created generations (in plan order) have no duplicates. -/
theorem created_distinct (old : List (Conn × Nat)) (conns : List Conn) (next : Nat) :
    (∀ c₁ c₂ g, (c₁, Decision.create g) ∈ (reloadPlan old conns next).1 →
        (c₂, Decision.create g) ∈ (reloadPlan old conns next).1 → c₁ = c₂) ∧
      (reloadPlan old conns next).1.Pairwise
        (fun p q => ∀ g, p.2 = Decision.create g → q.2 ≠ Decision.create g) ∧
      (createdGens (reloadPlan old conns next).1).Nodup := by
  refine ⟨create_gen_inj old conns next, create_pairwise old conns next, ?_⟩
  rw [createdGens_plan]
  exact List.nodup_range'

/-- `created_consecutive`: the created peers get, in configuration order, exactly the numbers from the old counter
    up to the new counter; and the counter advances by the number of connections without an exactly equal old
    entry. -/
theorem created_consecutive (old : List (Conn × Nat)) (conns : List Conn) (next : Nat) :
    createdGens (reloadPlan old conns next).1 = List.range' next ((reloadPlan old conns next).2 - next) ∧
      (reloadPlan old conns next).2 = next + (conns.filter (fun c => (lookup old c).isNone)).length :=
  ⟨createdGens_plan old conns next, plan_counter_eq old conns next⟩

example : createdGens (reloadPlan exOld exConns 2).1 = [2, 3] := by decide

/-! ## 4. kept exactly when unchanged -/

/-- `keep_iff_unchanged`: the decision for a configured connection is a `.keep` exactly when the old peer map has
    an entry with exactly the same definition; and then the kept object is that entry's. -/
theorem keep_iff_unchanged {old : List (Conn × Nat)} {conns : List Conn} (next : Nat) {c : Conn}
    (hids : PeerIdsDistinct old) (hc : c ∈ conns) (g : Nat) :
    (c, Decision.keep g) ∈ (reloadPlan old conns next).1 ↔ (c, g) ∈ old :=
  ⟨fun h => lookup_some_mem (mem_plan_keep h).2, fun h => unchanged_keeps_peer next h hids hc⟩

/-- `keep_implies_unchanged`: a `.keep g` is only ever decided for a connection whose exact definition is in the
    old peer map with generation `g` (no hypothesis on the maps). -/
theorem keep_implies_unchanged {old : List (Conn × Nat)} {conns : List Conn} {next : Nat} {c : Conn} {g : Nat}
    (h : (c, Decision.keep g) ∈ (reloadPlan old conns next).1) : (c, g) ∈ old ∧ c ∈ conns :=
  ⟨lookup_some_mem (mem_plan_keep h).2, (mem_plan_keep h).1⟩

/-- `decision_unique`: with distinct ids on both sides, the decision for a connection is determined: two plan
    entries for the same connection are the same. -/
theorem decision_unique {old : List (Conn × Nat)} {conns : List Conn} {next : Nat} {c : Conn} {d₁ d₂ : Decision}
    (hconns : IdsDistinct conns)
    (h₁ : (c, d₁) ∈ (reloadPlan old conns next).1) (h₂ : (c, d₂) ∈ (reloadPlan old conns next).1) :
    d₁ = d₂ := by
  have hn : ((reloadPlan old conns next).1.map (·.1)).Nodup := by
    rw [plan_map_fst]
    exact nodup_of_nodup_map _ _ hconns
  have := eq_of_nodup_map (·.1) _ hn _ h₁ _ h₂ rfl
  cases this
  rfl

/-- a definition that differs from an old entry with the same id is not in the old peer map (distinct ids) -/
theorem not_mem_of_changed {old : List (Conn × Nat)} {c c' : Conn} {g : Nat}
    (hids : PeerIdsDistinct old) (hold : (c, g) ∈ old) (hid : c'.id = c.id) (hne : c' ≠ c) :
    ∀ g', (c', g') ∉ old := by
  intro g' hm
  have := eq_of_nodup_map (·.1.id) old hids.ids _ hm _ hold hid
  cases this
  exact hne rfl

/-- `change_forces_new_peer`: a configured connection with the id of an old backend but any difference in its
    definition gets a new peer. -/
theorem change_forces_new_peer {old : List (Conn × Nat)} {conns : List Conn} (next : Nat) {c c' : Conn} {g : Nat}
    (hids : PeerIdsDistinct old) (hold : (c, g) ∈ old) (hid : c'.id = c.id) (hne : c' ≠ c) (hc : c' ∈ conns) :
    ∃ g', (c', Decision.create g') ∈ (reloadPlan old conns next).1 ∧
      next ≤ g' ∧ g' < (reloadPlan old conns next).2 :=
  (changed_gets_new_peer next hc (not_mem_of_changed hids hold hid hne)).1

/-- `rename_forces_new_peer`: changing only the name of a backend forces a new peer. -/
theorem rename_forces_new_peer {old : List (Conn × Nat)} {conns : List Conn} (next : Nat) {c : Conn} {g : Nat}
    {name : String} (hids : PeerIdsDistinct old) (hold : (c, g) ∈ old) (hne : name ≠ c.name)
    (hc : { c with name := name } ∈ conns) :
    ∃ g', ({ c with name := name }, Decision.create g') ∈ (reloadPlan old conns next).1 ∧
      next ≤ g' ∧ g' < (reloadPlan old conns next).2 :=
  change_forces_new_peer next hids hold rfl (fun h => hne (congrArg Conn.name h)) hc

/-- `sources_change_forces_new_peer`: changing only the sources (addresses) of a backend forces a new peer. -/
theorem sources_change_forces_new_peer {old : List (Conn × Nat)} {conns : List Conn} (next : Nat) {c : Conn}
    {g : Nat} {sources : List String} (hids : PeerIdsDistinct old) (hold : (c, g) ∈ old)
    (hne : sources ≠ c.sources) (hc : { c with sources := sources } ∈ conns) :
    ∃ g', ({ c with sources := sources }, Decision.create g') ∈ (reloadPlan old conns next).1 ∧
      next ≤ g' ∧ g' < (reloadPlan old conns next).2 :=
  change_forces_new_peer next hids hold rfl (fun h => hne (congrArg Conn.sources h)) hc

/-- `flags_change_forces_new_peer`: changing only the flags of a backend forces a new peer. -/
theorem flags_change_forces_new_peer {old : List (Conn × Nat)} {conns : List Conn} (next : Nat) {c : Conn}
    {g : Nat} {flags : List String} (hids : PeerIdsDistinct old) (hold : (c, g) ∈ old)
    (hne : flags ≠ c.flags) (hc : { c with flags := flags } ∈ conns) :
    ∃ g', ({ c with flags := flags }, Decision.create g') ∈ (reloadPlan old conns next).1 ∧
      next ≤ g' ∧ g' < (reloadPlan old conns next).2 :=
  change_forces_new_peer next hids hold rfl (fun h => hne (congrArg Conn.flags h)) hc

example : PeerIdsDistinct exOld ∧ (b1, 1) ∈ exOld ∧ "renamed" ≠ b1.name ∧
    ({ b1 with name := "renamed" } : Conn) ∈ exConns := by decide

/-! ## 5. removed backends disappear -/

/-- `removed_gone`: a connection id that is not configured any more does not occur in the peer map after the
    reload (so it is gone from results and from the sites table) - in particular the id of an old backend. -/
theorem removed_gone (old : List (Conn × Nat)) (conns : List Conn) (next : Nat) (id : String)
    (hgone : id ∉ conns.map (·.id)) :
    id ∉ (reloadResult old conns next).1.map (·.1.id) := by
  have : (reloadResult old conns next).1.map (·.1.id) = conns.map (·.id) := by
    have h := congrArg (List.map Conn.id) (order_is_configuration old conns next)
    rwa [List.map_map] at h
  rwa [this]

example : "id1" ∈ exOld.map (·.1.id) ∧ "id1" ∉ [b0, b2].map (·.id) := by decide

/-- no entry of a removed backend survives, whatever its generation -/
theorem removed_gone_entry (old : List (Conn × Nat)) (conns : List Conn) (next : Nat) (c : Conn) (g : Nat)
    (hgone : c.id ∉ conns.map (·.id)) : (c, g) ∉ (reloadResult old conns next).1 := by
  intro hm
  apply removed_gone old conns next c.id hgone
  exact List.mem_map_of_mem (f := (·.1.id)) hm

/-! ## 6. reloading the configuration in force changes nothing -/

/-- `noop_reload`: reloading the configuration that is in force changes nothing: every peer object stays, in the
    same order, and no generation number is used. -/
theorem noop_reload (old : List (Conn × Nat)) (next : Nat) (hids : PeerIdsDistinct old) :
    reloadResult old (old.map (·.1)) next = (old, next) :=
  result_of_sub hids.ids old next (fun _ h => h)

example : PeerIdsDistinct exOld ∧ reloadResult exOld (exOld.map (·.1)) 2 = (exOld, 2) := by decide

/-- all decisions of such a reload are `.keep` -/
theorem noop_reload_plan (old : List (Conn × Nat)) (next : Nat) (hids : PeerIdsDistinct old) :
    reloadPlan old (old.map (·.1)) next = (old.map (fun p => (p.1, Decision.keep p.2)), next) :=
  plan_of_sub hids.ids old next (fun _ h => h)

/-- `reload_idempotent`: reloading a configuration a second time is the identity: the same peer map and the same
    counter as after the first reload - whatever the peer map was before the first one. -/
theorem reload_idempotent (old : List (Conn × Nat)) (conns : List Conn) (next : Nat) (hconns : IdsDistinct conns) :
    reloadResult (reloadResult old conns next).1 conns (reloadResult old conns next).2
      = reloadResult old conns next := by
  have hm := order_is_configuration old conns next
  have hids : PeerIdsDistinct (reloadResult old conns next).1 := by
    unfold PeerIdsDistinct
    rwa [hm]
  have := noop_reload (reloadResult old conns next).1 (reloadResult old conns next).2 hids
  rwa [hm] at this

example : IdsDistinct exConns := by decide

/-- the distinct-ids hypothesis is needed: with one id configured twice the second reload creates yet another
    peer. -/
example : reloadResult (reloadResult [] [b1, b1r] 0).1 [b1, b1r] (reloadResult [] [b1, b1r] 0).2
    ≠ reloadResult [] [b1, b1r] 0 := by decide

/-! ## 7. the generation invariant -/

/-- `gens_stay_distinct`: if the peer objects of the old map are pairwise different and below the counter, and the
    new configuration has distinct ids, then the peer objects of the new map are pairwise different and below
    the new counter; the counter does not decrease. -/
theorem gens_stay_distinct {old : List (Conn × Nat)} {conns : List Conn} {next : Nat}
    (hdist : GensDistinct old) (hbelow : GensBelow old next) (hconns : IdsDistinct conns) :
    GensDistinct (reloadResult old conns next).1 ∧
      GensBelow (reloadResult old conns next).1 (reloadResult old conns next).2 ∧
      next ≤ (reloadResult old conns next).2 := by
  refine ⟨?_, ?_, plan_counter_le old conns next⟩
  · unfold GensDistinct
    rw [result_map_snd]
    exact plan_gens_nodup hdist conns next hbelow (nodup_of_nodup_map _ _ hconns)
  · rintro ⟨c, g⟩ hp
    obtain ⟨d, hd, rfl⟩ := mem_result.1 hp
    exact plan_gen_lt hbelow hd

/-- the invariant of the peer map: distinct ids, distinct peer objects, all below the counter -/
def Inv (s : List (Conn × Nat) × Nat) : Prop :=
  PeerIdsDistinct s.1 ∧ GensDistinct s.1 ∧ GensBelow s.1 s.2

instance (s : List (Conn × Nat) × Nat) : Decidable (Inv s) := by unfold Inv; infer_instance

/-- `invariant_preserved`: a reload with a configuration of distinct ids preserves the invariant of the peer map. -/
theorem invariant_preserved {old : List (Conn × Nat)} {conns : List Conn} {next : Nat}
    (hinv : Inv (old, next)) (hconns : IdsDistinct conns) : Inv (reloadResult old conns next) := by
  obtain ⟨_, hd, hb⟩ := hinv
  have h := gens_stay_distinct hd hb hconns
  refine ⟨?_, h.1, h.2.1⟩
  unfold PeerIdsDistinct
  rwa [order_is_configuration]

/-- a sequence of reloads, one per configuration -/
def reloads (s : List (Conn × Nat) × Nat) (cfgs : List (List Conn)) : List (Conn × Nat) × Nat :=
  cfgs.foldl (fun s conns => reloadResult s.1 conns s.2) s

/-- `invariant_preserved_many`: the invariant holds after any sequence of reloads with configurations of distinct
    ids - in particular from the empty peer map at start-up. -/
theorem invariant_preserved_many (cfgs : List (List Conn)) :
    ∀ (s : List (Conn × Nat) × Nat), Inv s → (∀ conns ∈ cfgs, IdsDistinct conns) → Inv (reloads s cfgs) := by
  induction cfgs with
  | nil => intro s hs _; exact hs
  | cons conns rest ih =>
    intro s hs hall
    show Inv (reloads (reloadResult s.1 conns s.2) rest)
    apply ih
    · exact invariant_preserved (old := s.1) (next := s.2) hs (hall conns List.mem_cons_self)
    · exact fun c hc => hall c (List.mem_cons_of_mem _ hc)

/-- the empty peer map of a starting daemon satisfies the invariant -/
theorem inv_start : Inv ([], 0) := by decide

example : Inv (exOld, 2) ∧ reloads ([], 0) [[b0, b1], exConns] = ([(b1r, 2), (b2, 3), (b0, 0)], 4) := by decide

/-- after any sequence of reloads the last configuration is what the peer map lists -/
theorem reloads_last (s : List (Conn × Nat) × Nat) (cfgs : List (List Conn)) (conns : List Conn) :
    (reloads s (cfgs ++ [conns])).1.map (·.1) = conns := by
  unfold reloads
  rw [List.foldl_append]
  exact order_is_configuration _ _ _

/-! ## 8. listeners -/

/-- `listeners_match`: after the reload exactly the configured listeners are open, each once. -/
theorem listeners_match (old new : List String) :
    (∀ l, l ∈ (reloadListeners old new).nowOpen ↔ l ∈ new) ∧ (reloadListeners old new).nowOpen.Nodup := by
  constructor
  · intro l
    simp only [ListenerPlan.nowOpen, reloadListeners, List.mem_append, List.mem_filter, List.mem_eraseDups]
    by_cases h : l ∈ old <;> simp [h]
  · simp only [ListenerPlan.nowOpen, reloadListeners]
    rw [List.nodup_append]
    refine ⟨(nodup_eraseDups new).sublist List.filter_sublist,
      (nodup_eraseDups new).sublist List.filter_sublist, ?_⟩
    intro a ha b hb hab
    subst hab
    have h1 := (List.mem_filter.1 ha).2
    have h2 := (List.mem_filter.1 hb).2
    rw [h1] at h2
    cases h2

/-- `listeners_kept`: the listeners that stay open (never closed and re-opened) are exactly those configured before
    and after; each once. -/
theorem listeners_kept (old new : List String) :
    (∀ l, l ∈ (reloadListeners old new).kept ↔ l ∈ old ∧ l ∈ new) ∧ (reloadListeners old new).kept.Nodup := by
  constructor
  · intro l
    simp only [reloadListeners, List.mem_filter, List.mem_eraseDups, List.contains_iff_mem]
    exact And.comm
  · exact (nodup_eraseDups new).sublist List.filter_sublist

/-- `listeners_closed`: the closed listeners are exactly those of the old configuration that are not configured
    any more. -/
theorem listeners_closed (old new : List String) (l : String) :
    l ∈ (reloadListeners old new).closed ↔ l ∈ old ∧ l ∉ new := by
  simp [reloadListeners, List.mem_filter]

/-- `listeners_opened`: the newly opened listeners are exactly the configured ones that were not open before;
    each once. -/
theorem listeners_opened (old new : List String) :
    (∀ l, l ∈ (reloadListeners old new).opened ↔ l ∈ new ∧ l ∉ old) ∧
      (reloadListeners old new).opened.Nodup := by
  constructor
  · intro l
    simp [reloadListeners, List.mem_filter]
  · exact (nodup_eraseDups new).sublist List.filter_sublist

/-- `listeners_kept_not_closed`: a kept listener was open before, is not closed and is not opened again. -/
theorem listeners_kept_not_closed (old new : List String) (l : String)
    (h : l ∈ (reloadListeners old new).kept) :
    l ∈ old ∧ l ∉ (reloadListeners old new).closed ∧ l ∉ (reloadListeners old new).opened := by
  have hk := ((listeners_kept old new).1 l).1 h
  refine ⟨hk.1, ?_, ?_⟩
  · rw [listeners_closed]
    exact fun hc => hc.2 hk.2
  · rw [(listeners_opened old new).1]
    exact fun ho => ho.2 hk.1

/-- `listeners_noop`: reloading an unchanged (duplicate-free) listener configuration closes nothing, opens
    nothing and keeps every listener. -/
theorem listeners_noop (old : List String) (hnd : old.Nodup) :
    reloadListeners old old = { kept := old, opened := [], closed := [] } := by
  unfold reloadListeners
  rw [eraseDups_of_nodup old hnd]
  have h1 : old.filter old.contains = old := by
    rw [List.filter_eq_self]
    intro a ha
    simpa using ha
  have h2 : old.filter (fun l => !old.contains l) = [] := by
    rw [List.filter_eq_nil_iff]
    intro a ha
    simpa using ha
  simp only [h1, h2]

/-- a listener reload: `:6557` stays, the unix socket is closed, `:6558` (configured twice) is opened once -/
example : reloadListeners ["0.0.0.0:6557", "/tmp/lmd.sock"] ["0.0.0.0:6558", "0.0.0.0:6557", "0.0.0.0:6558"]
    = { kept := ["0.0.0.0:6557"], opened := ["0.0.0.0:6558"], closed := ["/tmp/lmd.sock"] } := by decide

example : (["0.0.0.0:6557", "/tmp/lmd.sock"] : List String).Nodup := by decide

end Lmd.C20
