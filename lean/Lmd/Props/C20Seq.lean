/-
  C20 (sequence level) — a configuration reload keeps serving and applies exactly the changes, over any
  sequence of reloads.

  `Lmd.C20.reloads s cfgs` reloads the daemon once per configuration of `cfgs`, starting from the state `s`
  (peer map: every configured connection with the generation number that identifies its `Peer` object, i.e. its
  cache / counters / update loop; and the next free generation number).  `ReloadSeq.states s cfgs` is the list
  of all states the daemon goes through (the start state and the state after every reload).

  Theorems:
   1  `history_independence`, `history_independence_entries`, `history_independence_fields`,
      `history_independence_last`      the peer map lists the last configuration, whatever came before
   2  `present_throughout_same_peer`   configured unchanged everywhere: one and the same peer object
      `interrupted_gets_new_peer`, `removed_readded_new_peer`, `changed_back_new_peer_each_time`
                                       dropped or changed somewhere: never the old peer object again
      `old_generation_was_there_throughout`
   3  `exactly_the_changes`, `stopped_exact`, `pure_reorder_creates_and_stops_none`, `noop_reload_counts`,
      `sequence_counter_counts_created`
   4  `serving_throughout`             the lookup of a request succeeds for every configured id, at every point
   5  `listeners_last`, `listener_throughout_never_closed`, `listener_closed_only_when_removed`
-/
import Lmd.Lemmas.ReloadSeqLemmas

namespace Lmd.C20Seq
open Lmd Lmd.ReloadLemmas Lmd.C20 Lmd.ReloadSeq

/-! ## a concrete sequence of reloads for the examples -/

/-- start-up configuration -/
def cfgA : List Conn := [b0, b1]
/-- `b1` renamed, `b2` added, order changed -/
def cfgB : List Conn := [b1r, b2, b0]
/-- `id1` removed -/
def cfgC : List Conn := [b0, b2]
/-- `b1` configured again, exactly as at start-up -/
def cfgD : List Conn := [b2, b1, b0]

/-- the states of the daemon: `b0` keeps peer 0 throughout, `id1` gets the peers 1, 2 and 4 -/
example : states ([], 0) [cfgA, cfgB, cfgC, cfgD] =
    [([], 0), ([(b0, 0), (b1, 1)], 2), ([(b1r, 2), (b2, 3), (b0, 0)], 4), ([(b0, 0), (b2, 3)], 4),
      ([(b2, 3), (b1, 4), (b0, 0)], 5)] := by decide

/-! ## 1. history independence -/

/-- `history_independence`: after any sequence of reloads the peer map lists exactly the connections of the last
    configuration, in its order - whatever the start state and the earlier configurations were; so two daemons
    with different histories that were last reloaded with the same configuration list the same connections. -/
theorem history_independence (s s' : State) (cfgs cfgs' : List (List Conn)) (conns : List Conn) :
    (reloads s (cfgs ++ [conns])).1.map (·.1) = conns ∧
      (reloads s (cfgs ++ [conns])).1.length = conns.length ∧
      (reloads s (cfgs ++ [conns])).1.map (·.1) = (reloads s' (cfgs' ++ [conns])).1.map (·.1) := by
  have h := reloads_last s cfgs conns
  have h' := reloads_last s' cfgs' conns
  refine ⟨h, ?_, h.trans h'.symm⟩
  have := congrArg List.length h
  simpa using this

example : (reloads ([], 0) ([cfgA, cfgB] ++ [cfgC])).1.map (·.1) = cfgC ∧
    (reloads ([(b2, 7)], 9) ([cfgD] ++ [cfgC])).1.map (·.1) = cfgC := by decide

/-- `history_independence_entries`: position by position, the connection of the `i`-th peer is the `i`-th entry of
    the last configuration. -/
theorem history_independence_entries (s : State) (cfgs : List (List Conn)) (conns : List Conn) (i : Nat) :
    ((reloads s (cfgs ++ [conns])).1[i]?).map (·.1) = conns[i]? := by
  rw [← List.getElem?_map, reloads_last]

/-- `history_independence_fields`: id, name, sources and flags of every peer are those of the entry of the last
    configuration at the same position. -/
theorem history_independence_fields (s : State) (cfgs : List (List Conn)) (conns : List Conn) (i : Nat)
    (p : Conn × Nat) (h : (reloads s (cfgs ++ [conns])).1[i]? = some p) :
    ∃ c, conns[i]? = some c ∧ p.1 = c ∧ p.1.id = c.id ∧ p.1.name = c.name ∧ p.1.sources = c.sources ∧
      p.1.flags = c.flags := by
  have h1 := history_independence_entries s cfgs conns i
  rw [h] at h1
  exact ⟨p.1, h1.symm, rfl, rfl, rfl, rfl, rfl⟩

example : (reloads ([], 0) ([cfgA] ++ [cfgB])).1[0]? = some (b1r, 2) := by decide

/-- `history_independence_last`: for a non-empty sequence of reloads the peer map lists the last configuration. -/
theorem history_independence_last (s : State) (cfgs : List (List Conn)) (h : cfgs ≠ []) :
    (reloads s cfgs).1.map (·.1) = cfgs.getLast h := by
  have hsplit : cfgs = cfgs.dropLast ++ [cfgs.getLast h] := (List.dropLast_concat_getLast h).symm
  have := reloads_last s cfgs.dropLast (cfgs.getLast h)
  rwa [← hsplit] at this

example : [cfgA, cfgB, cfgC] ≠ [] := by decide

/-! ## 2. peer identity through a sequence -/

/-- `present_throughout_same_peer`: a connection that is configured with one and the same definition in every
    configuration of the sequence keeps one and the same `Peer` object (generation `g`: the same cache, the same
    counters, no new connection) at every point of the sequence, from start to end; and at every point this is
    the only peer of that id. -/
theorem present_throughout_same_peer {s : State} {cfgs : List (List Conn)} {c : Conn} {g : Nat}
    (hs : PeerIdsDistinct s.1) (hm : (c, g) ∈ s.1)
    (hall : ∀ conns ∈ cfgs, IdsDistinct conns ∧ c ∈ conns) :
    ∀ st ∈ states s cfgs, (c, g) ∈ st.1 ∧ ∀ c' g', (c', g') ∈ st.1 → c'.id = c.id → c' = c ∧ g' = g := by
  intro st hst
  have hmem := keeps_throughout hs hm hall st hst
  refine ⟨hmem, ?_⟩
  intro c' g' hm' hid
  obtain ⟨pre, post, rfl, rfl⟩ := (mem_states s _ st).1 hst
  have hd : PeerIdsDistinct (reloads s pre).1 :=
    reloads_peerIds s pre hs (fun x hx => (hall x (List.mem_append_left _ hx)).1)
  have := entry_unique hd hm' hmem hid
  cases this
  exact ⟨rfl, rfl⟩

example : PeerIdsDistinct ([(b0, 0), (b1, 1)] : List (Conn × Nat)) ∧ (b0, 0) ∈ [(b0, 0), (b1, 1)] ∧
    ∀ conns ∈ [cfgB, cfgC, cfgD], IdsDistinct conns ∧ b0 ∈ conns := by decide

/-- `old_generation_was_there_throughout`: the converse - a peer of the final map whose generation number is
    below the counter the sequence started with was in the peer map, with the same definition, at every point of
    the sequence (so a peer object is never taken out of use and put back). -/
theorem old_generation_was_there_throughout {s : State} {cfgs : List (List Conn)} {c : Conn} {g : Nat}
    (h : (c, g) ∈ (reloads s cfgs).1) (hg : g < s.2) : ∀ st ∈ states s cfgs, (c, g) ∈ st.1 :=
  survivor h hg

example : (b0, 0) ∈ (reloads ([(b0, 0), (b1, 1)], 2) [cfgB, cfgC, cfgD]).1 := by decide

/-- `interrupted_gets_new_peer`: if some configuration `ci` of the sequence does not contain the definition `c`
    (the id is not configured there, or it is configured with any difference), then a peer for `c` after the
    whole sequence is a NEW object: its generation number was handed out after the reload before `ci`, hence it
    is greater than the generation of every peer that existed at any point before `ci` - never the old cache. -/
theorem interrupted_gets_new_peer {s : State} (pre post : List (List Conn)) (ci : List Conn) {c : Conn}
    {g' : Nat} (hb : GensBelow s.1 s.2) (hnot : c ∉ ci)
    (h : (c, g') ∈ (reloads s (pre ++ ci :: post)).1) :
    (reloads s pre).2 ≤ g' ∧ ∀ st ∈ states s pre, ∀ p ∈ st.1, p.2 < g' := by
  rw [reloads_append] at h
  have hge : (reloads s pre).2 ≤ g' := by
    apply Nat.le_of_not_lt
    intro hlt
    have hall := survivor h hlt
    have hin : step (reloads s pre) ci ∈ states (reloads s pre) (ci :: post) := by
      rw [states]
      exact List.mem_cons_of_mem _ (head_mem_states _ _)
    exact hnot (mem_step_conns (hall _ hin))
  refine ⟨hge, ?_⟩
  intro st hst p hp
  have h1 := states_gensBelow pre hb st hst p hp
  have h2 := (states_counter s pre st hst).2
  omega

example : GensBelow ([] : List (Conn × Nat)) 0 ∧ b1 ∉ cfgC ∧
    (b1, 4) ∈ (reloads ([], 0) ([cfgA, cfgB] ++ cfgC :: [cfgD])).1 := by decide

/-- the hypothesis that the generation numbers are below the counter is needed: from an ill-formed start state the
    counter can hand out a number that is not above the old ones -/
example : ¬ GensBelow [(b0, 5)] 2 ∧ b0 ∉ ([] : List Conn) ∧
    (b0, 2) ∈ (reloads ([(b0, 5)], 2) ([] ++ [] :: [[b0]])).1 := by decide

/-- `removed_readded_new_peer`: a connection whose id was removed in some configuration `ci` and configured
    again later has a new peer object: greater generation number than every peer that existed before `ci`. -/
theorem removed_readded_new_peer {s : State} (pre post : List (List Conn)) (ci : List Conn) {c : Conn}
    {g' : Nat} (hb : GensBelow s.1 s.2) (hgone : c.id ∉ ci.map (·.id))
    (h : (c, g') ∈ (reloads s (pre ++ ci :: post)).1) :
    (reloads s pre).2 ≤ g' ∧ ∀ st ∈ states s pre, ∀ p ∈ st.1, p.2 < g' :=
  interrupted_gets_new_peer pre post ci hb (fun hc => hgone (List.mem_map_of_mem (f := (·.id)) hc)) h

example : b1.id ∉ cfgC.map (·.id) := by decide

/-- `changed_back_new_peer_each_time`: a connection `c` with peer `g0` is changed to `c'` (same id, any
    difference) by some reloads `a` and changed back to `c` by later reloads `b`: the peer `g1` of `c'` is new,
    and the peer `g2` of the restored `c` is new again - not `g0`, not `g1`. -/
theorem changed_back_new_peer_each_time {s : State} (a b : List (List Conn)) {c c' : Conn} {g0 g1 g2 : Nat}
    (hs : PeerIdsDistinct s.1) (hb : GensBelow s.1 s.2) (ha : ∀ conns ∈ a, IdsDistinct conns)
    (hid : c'.id = c.id) (hne : c' ≠ c)
    (h0 : (c, g0) ∈ s.1) (h1 : (c', g1) ∈ (reloads s a).1) (h2 : (c, g2) ∈ (reloads (reloads s a) b).1) :
    g0 < g1 ∧ g1 < g2 := by
  have hg0 : g0 < s.2 := hb _ h0
  have hg1 : s.2 ≤ g1 := by
    apply Nat.le_of_not_lt
    intro hlt
    have hin := survivor h1 hlt s (head_mem_states s a)
    have := entry_unique hs hin h0 hid
    exact hne (congrArg Prod.fst this)
  have hd1 : PeerIdsDistinct (reloads s a).1 := reloads_peerIds s a hs ha
  have hb1 : GensBelow (reloads s a).1 (reloads s a).2 := reloads_gensBelow a hb
  have hg1' : g1 < (reloads s a).2 := hb1 _ h1
  have hg2 : (reloads s a).2 ≤ g2 := by
    apply Nat.le_of_not_lt
    intro hlt
    have hin := survivor h2 hlt _ (head_mem_states _ b)
    have := entry_unique hd1 h1 hin hid
    exact hne (congrArg Prod.fst this)
  omega

example : PeerIdsDistinct ([(b0, 0), (b1, 1)] : List (Conn × Nat)) ∧ GensBelow [(b0, 0), (b1, 1)] 2 ∧
    (∀ conns ∈ [cfgB], IdsDistinct conns) ∧ b1r.id = b1.id ∧ b1r ≠ b1 ∧ (b1, 1) ∈ [(b0, 0), (b1, 1)] ∧
    (b1r, 2) ∈ (reloads ([(b0, 0), (b1, 1)], 2) [cfgB]).1 ∧
    (b1, 4) ∈ (reloads (reloads ([(b0, 0), (b1, 1)], 2) [cfgB]) [cfgD]).1 := by decide

/-! ## 3. exactly the changes -/

/-- `stopped_exact`: which peer objects of the old map are stopped by a reload: a peer object is still in use
    afterwards exactly if its definition is configured unchanged; so the stopped peers (`stoppedPeers`) are
    exactly those whose id was removed or whose definition was changed. -/
theorem stopped_exact {old : List (Conn × Nat)} {conns : List Conn} {next : Nat} (hinv : Inv (old, next))
    (hconns : IdsDistinct conns) :
    (∀ p ∈ old, p.2 ∈ (reloadResult old conns next).1.map (·.2) ↔ p.1 ∈ conns) ∧
      (∀ p, p ∈ stoppedPeers old conns ↔ p ∈ old ∧ p.2 ∉ (reloadResult old conns next).1.map (·.2)) ∧
      (∀ p ∈ old, p ∈ stoppedPeers old conns ↔
        (p.1.id ∉ conns.map (·.id) ∨ ∃ c' ∈ conns, c'.id = p.1.id ∧ c' ≠ p.1)) := by
  have h1 : ∀ p ∈ old, p.2 ∈ (reloadResult old conns next).1.map (·.2) ↔ p.1 ∈ conns :=
    fun p hp => gen_survives_iff hinv hp
  refine ⟨h1, ?_, ?_⟩
  · intro p
    rw [mem_stoppedPeers]
    constructor
    · rintro ⟨hp, hn⟩
      exact ⟨hp, fun h => hn ((h1 p hp).1 h)⟩
    · rintro ⟨hp, hn⟩
      exact ⟨hp, fun h => hn ((h1 p hp).2 h)⟩
  · intro p hp
    rw [mem_stoppedPeers]
    simp only [hp, true_and]
    constructor
    · intro hn
      by_cases hid : p.1.id ∈ conns.map (·.id)
      · obtain ⟨c', hc', hcid⟩ := List.mem_map.1 hid
        exact Or.inr ⟨c', hc', hcid, fun he => hn (he ▸ hc')⟩
      · exact Or.inl hid
    · intro h hin
      rcases h with h | ⟨c', hc', hcid, hne⟩
      · exact h (List.mem_map_of_mem (f := (·.id)) hin)
      · exact hne (conn_unique hconns hc' hin hcid)

example : Inv (exOld, 2) ∧ IdsDistinct exConns ∧ stoppedPeers exOld exConns = [(b1, 1)] := by decide

/-- `exactly_the_changes`: the counting statement for one reload from the peer map `old` to the configuration
    `conns` (both with distinct ids).  The reload creates exactly as many peers as there are configured
    connections that are new or changed (no old peer with exactly this definition), keeps exactly as many as
    there are unchanged ones, advances the generation counter by the number of created peers, stops exactly as
    many peers as there are old peers whose id was removed or whose definition was changed, and
    `stopped + kept = |old|`, `created + kept = |conns|`. -/
theorem exactly_the_changes {old : List (Conn × Nat)} {conns : List Conn} {next : Nat}
    (hids : PeerIdsDistinct old) (hconns : IdsDistinct conns) :
    (createdGens (reloadPlan old conns next).1).length =
        (conns.filter (fun c => !(old.map (·.1)).contains c)).length ∧
      (keptGens (reloadPlan old conns next).1).length =
        (conns.filter (fun c => (old.map (·.1)).contains c)).length ∧
      (reloadResult old conns next).2 = next + (createdGens (reloadPlan old conns next).1).length ∧
      (stoppedPeers old conns).length = (old.filter (fun p => !conns.contains p.1)).length ∧
      (stoppedPeers old conns).length + (keptGens (reloadPlan old conns next).1).length = old.length ∧
      (createdGens (reloadPlan old conns next).1).length + (keptGens (reloadPlan old conns next).1).length
        = conns.length := by
  have hc : (createdGens (reloadPlan old conns next).1).length =
      (conns.filter (fun c => !(old.map (·.1)).contains c)).length := by
    rw [created_length]
    congr 1
    apply List.filter_congr
    intro c _
    exact lookup_isNone_eq hids c
  have hsum := length_kept_add_created (reloadPlan old conns next).1
  rw [plan_length] at hsum
  have hsplit := length_filter_add_not (fun c => (old.map (·.1)).contains c) conns
  have hk : (keptGens (reloadPlan old conns next).1).length =
      (conns.filter (fun c => (old.map (·.1)).contains c)).length := by omega
  have hst := length_staying_add_stopped old conns
  have hse := staying_length_eq hids hconns
  refine ⟨hc, hk, ?_, rfl, by omega, by omega⟩
  rw [result_snd, plan_counter_eq, created_length]

/-- the reload of the task description: 2 created (`b1r` changed, `b2` new), 1 kept (`b0`), 1 stopped (`b1`) -/
example : PeerIdsDistinct exOld ∧ IdsDistinct exConns ∧
    (createdGens (reloadPlan exOld exConns 2).1).length = 2 ∧ (keptGens (reloadPlan exOld exConns 2).1).length = 1 ∧
    (stoppedPeers exOld exConns).length = 1 := by decide

/-- `pure_reorder_creates_and_stops_none`: a reload whose configuration lists exactly the definitions in force,
    in any order, creates no peer, uses no generation number, stops no peer, and the new peer map has exactly the
    old entries (every connection with its old peer object). -/
theorem pure_reorder_creates_and_stops_none {old : List (Conn × Nat)} {conns : List Conn} (next : Nat)
    (hids : PeerIdsDistinct old) (hperm : conns.Perm (old.map (·.1))) :
    createdGens (reloadPlan old conns next).1 = [] ∧ (reloadResult old conns next).2 = next ∧
      stoppedPeers old conns = [] ∧ (reloadResult old conns next).1.Perm old := by
  have hsub : ∀ c ∈ conns, c ∈ old.map (·.1) := fun c hc => hperm.subset hc
  have hnone := filter_isNone_of_subset hids hsub
  have hcnt : (reloadPlan old conns next).2 = next := by
    rw [plan_counter_eq, hnone]
    rfl
  have hconns : IdsDistinct conns := by
    have hids' : ((old.map (fun p : Conn × Nat => p.1)).map (fun c : Conn => c.id)).Nodup := hids
    exact (hperm.map (fun c : Conn => c.id)).nodup_iff.2 hids'
  refine ⟨?_, ?_, ?_, ?_⟩
  · rw [createdGens_plan, hcnt, Nat.sub_self]
    rfl
  · rw [result_snd, hcnt]
  · unfold stoppedPeers
    rw [List.filter_eq_nil_iff]
    intro p hp
    have : p.1 ∈ conns := hperm.symm.subset (List.mem_map_of_mem (f := (·.1)) hp)
    simp [this]
  · have hn1 : (reloadResult old conns next).1.Nodup := by
      apply nodup_of_nodup_map (·.1)
      rw [result_map_fst]
      exact conns_nodup hconns
    rw [List.perm_ext_iff_of_nodup hn1 (peers_nodup hids)]
    rintro ⟨c, g⟩
    constructor
    · intro h
      obtain ⟨d, hd, hgen⟩ := mem_result.1 h
      cases d with
      | keep g' =>
        have hgg : g' = g := hgen
        subst hgg
        exact lookup_some_mem (mem_plan_keep hd).2
      | create g' =>
        exfalso
        have hk := mem_plan_create hd
        obtain ⟨⟨c0, g0⟩, hm0, hc0⟩ := List.mem_map.1 (hsub c hk.1)
        simp only at hc0
        subst hc0
        have := lookup_of_mem hids.ids hm0
        rw [hk.2.1] at this
        cases this
    · intro h
      exact unchanged_in_result next h hids (hperm.symm.subset (List.mem_map_of_mem (f := (·.1)) h))

/-- a pure reorder of the start-up configuration -/
example : PeerIdsDistinct exOld ∧ [b1, b0].Perm (exOld.map (·.1)) ∧
    reloadResult exOld [b1, b0] 2 = ([(b1, 1), (b0, 0)], 2) := by
  refine ⟨by decide, ?_, by decide⟩
  exact List.Perm.swap b0 b1 []

/-- `noop_reload_counts`: reloading the configuration in force leaves the state equal, creates no peer and stops
    no peer. -/
theorem noop_reload_counts (old : List (Conn × Nat)) (next : Nat) (hids : PeerIdsDistinct old) :
    reloadResult old (old.map (·.1)) next = (old, next) ∧
      createdGens (reloadPlan old (old.map (·.1)) next).1 = [] ∧
      (keptGens (reloadPlan old (old.map (·.1)) next).1).length = old.length ∧
      stoppedPeers old (old.map (·.1)) = [] := by
  have h := pure_reorder_creates_and_stops_none (conns := old.map (·.1)) next hids (List.Perm.refl _)
  refine ⟨noop_reload old next hids, h.1, ?_, h.2.2.1⟩
  have hsum := length_kept_add_created (reloadPlan old (old.map (·.1)) next).1
  rw [plan_length, h.1] at hsum
  simpa using hsum

example : PeerIdsDistinct exOld := by decide

/-- `sequence_counter_counts_created`: over a whole sequence of reloads the generation counter advances by exactly
    the number of peers created by all reloads together (`createdPerReload`: the number of created peers of
    every reload, in order). -/
theorem sequence_counter_counts_created (s : State) (cfgs : List (List Conn)) :
    (reloads s cfgs).2 = s.2 + (createdPerReload s cfgs).sum :=
  reloads_counter_eq s cfgs

example : createdPerReload ([], 0) [cfgA, cfgB, cfgC, cfgD] = [2, 2, 0, 1] := by decide

/-! ## 4. serving during the sequence -/

/-- the lookup a request does for a backend id (`PeerMap[id]`) -/
def peerFor (m : List (Conn × Nat)) (id : String) : Option (Conn × Nat) := m.find? (fun p => p.1.id == id)

/-- `serving_throughout`: at every point of a sequence of reloads - after the reload with any configuration
    `conns` of the sequence (distinct ids), whatever came before - every configured id maps to exactly one peer:
    the peer map has one entry per configured connection; the lookup a request does succeeds for every
    configured id, finds a peer of the connection configured under this id, and this is the only entry of the
    id (no id without peer, no duplicate); every peer of the map belongs to a configured connection and is what
    the lookup of its id finds (no peer without id); and the lookup of an id that is not configured fails. -/
theorem serving_throughout (s : State) (cfgs pre post : List (List Conn)) (conns : List Conn)
    (hsplit : cfgs = pre ++ conns :: post) (hconns : IdsDistinct conns) :
    reloads s (pre ++ [conns]) ∈ states s cfgs ∧
    (reloads s (pre ++ [conns])).1.length = conns.length ∧
    (∀ id ∈ conns.map (·.id), ∃ c g, peerFor (reloads s (pre ++ [conns])).1 id = some (c, g) ∧ c ∈ conns ∧
        c.id = id ∧ ∀ p ∈ (reloads s (pre ++ [conns])).1, p.1.id = id → p = (c, g)) ∧
    (∀ p ∈ (reloads s (pre ++ [conns])).1, p.1 ∈ conns ∧ peerFor (reloads s (pre ++ [conns])).1 p.1.id = some p) ∧
    (∀ id, id ∉ conns.map (·.id) → peerFor (reloads s (pre ++ [conns])).1 id = none) := by
  have hmap : (reloads s (pre ++ [conns])).1.map (·.1) = conns := reloads_last s pre conns
  have hd : PeerIdsDistinct (reloads s (pre ++ [conns])).1 := by
    unfold PeerIdsDistinct
    rwa [hmap]
  have hfind : ∀ p ∈ (reloads s (pre ++ [conns])).1, peerFor (reloads s (pre ++ [conns])).1 p.1.id = some p := by
    rintro ⟨c, g⟩ hp
    exact find?_of_mem hd.ids hp
  refine ⟨?_, ?_, ?_, ?_, ?_⟩
  · rw [mem_states]
    exact ⟨pre ++ [conns], post, by rw [hsplit]; simp, rfl⟩
  · have := congrArg List.length hmap
    simpa using this
  · intro id hid
    obtain ⟨c, hc, rfl⟩ := List.mem_map.1 hid
    rw [← hmap] at hc
    obtain ⟨⟨c', g⟩, hp, rfl⟩ := List.mem_map.1 hc
    refine ⟨c', g, hfind _ hp, ?_, rfl, ?_⟩
    · rw [← hmap]
      exact List.mem_map_of_mem (f := (·.1)) hp
    · intro q hq hqid
      exact entry_unique hd hq hp hqid
  · intro p hp
    refine ⟨?_, hfind p hp⟩
    rw [← hmap]
    exact List.mem_map_of_mem (f := (·.1)) hp
  · intro id hid
    unfold peerFor
    rw [List.find?_eq_none]
    intro p hp hpid
    apply hid
    rw [← hmap, List.map_map]
    have : p.1.id = id := by simpa using hpid
    rw [← this]
    exact List.mem_map_of_mem (f := (fun x : Conn × Nat => x.1.id)) hp

example : [cfgA, cfgB, cfgC, cfgD] = [cfgA] ++ cfgB :: [cfgC, cfgD] ∧ IdsDistinct cfgB ∧
    peerFor (reloads ([], 0) ([cfgA] ++ [cfgB])).1 "id1" = some (b1r, 2) ∧
    peerFor (reloads ([], 0) ([cfgA, cfgB] ++ [cfgC])).1 "id1" = none := by decide

/-- the distinct-ids hypothesis is needed: with one id configured twice the lookup finds one of two peers -/
example : (reloads ([], 0) ([] ++ [[b1, b1r]])).1 = [(b1, 0), (b1r, 1)] := by decide

/-! ## 5. listeners -/

/-- `listeners_last`: after any sequence of listener reloads the open listeners are exactly those of the last
    configuration, each once - whatever was open before and whatever the earlier configurations were. -/
theorem listeners_last (opn : List String) (cfgs : List (List String)) (last : List String) :
    (∀ l, l ∈ listenerRuns opn (cfgs ++ [last]) ↔ l ∈ last) ∧ (listenerRuns opn (cfgs ++ [last])).Nodup ∧
      (listenerRuns opn (cfgs ++ [last])).Perm last.eraseDups := by
  rw [listenerRuns_snoc]
  have h := listeners_match (listenerRuns opn cfgs) last
  refine ⟨h.1, h.2, ?_⟩
  rw [List.perm_ext_iff_of_nodup h.2 (nodup_eraseDups last)]
  intro l
  rw [h.1 l, List.mem_eraseDups]

example : listenerRuns ["/tmp/lmd.sock"] ([["0.0.0.0:6557"], []] ++ [["0.0.0.0:6558", "0.0.0.0:6557", "0.0.0.0:6558"]])
    = ["0.0.0.0:6558", "0.0.0.0:6557"] := by decide

/-- `listener_throughout_never_closed`: a listener that is open at the start and configured in every
    configuration of the sequence is kept by every reload of the sequence - never closed, never opened again -
    and is open at the end. -/
theorem listener_throughout_never_closed (opn : List String) (cfgs : List (List String)) (l : String)
    (h0 : l ∈ opn) (hall : ∀ cfg ∈ cfgs, l ∈ cfg) :
    (∀ p ∈ listenerPlans opn cfgs, l ∈ p.kept ∧ l ∉ p.closed ∧ l ∉ p.opened) ∧ l ∈ listenerRuns opn cfgs := by
  induction cfgs generalizing opn with
  | nil => exact ⟨fun p hp => (nomatch hp), h0⟩
  | cons new rest ih =>
    have hnew : l ∈ new := hall new List.mem_cons_self
    have hk : l ∈ (reloadListeners opn new).kept := ((listeners_kept opn new).1 l).2 ⟨h0, hnew⟩
    have hnc := listeners_kept_not_closed opn new l hk
    have hopen : l ∈ (reloadListeners opn new).nowOpen := List.mem_append_left _ hk
    obtain ⟨ih1, ih2⟩ := ih (reloadListeners opn new).nowOpen hopen (fun c hc => hall c (List.mem_cons_of_mem _ hc))
    refine ⟨?_, ?_⟩
    · intro p hp
      rw [listenerPlans, List.mem_cons] at hp
      rcases hp with rfl | hp
      · exact ⟨hk, hnc.2.1, hnc.2.2⟩
      · exact ih1 p hp
    · rw [listenerRuns_cons]
      exact ih2

example : "0.0.0.0:6557" ∈ ["0.0.0.0:6557", "/tmp/lmd.sock"] ∧
    (∀ cfg ∈ [["0.0.0.0:6558", "0.0.0.0:6557"], ["0.0.0.0:6557"]], "0.0.0.0:6557" ∈ cfg) ∧
    listenerPlans ["0.0.0.0:6557", "/tmp/lmd.sock"] [["0.0.0.0:6558", "0.0.0.0:6557"], ["0.0.0.0:6557"]] =
      [{ kept := ["0.0.0.0:6557"], opened := ["0.0.0.0:6558"], closed := ["/tmp/lmd.sock"] },
       { kept := ["0.0.0.0:6557"], opened := [], closed := ["0.0.0.0:6558"] }] := by decide

/-- `listener_closed_only_when_removed`: a listener is closed by the `k`-th reload of the sequence only if it is
    not in the `k`-th configuration (and it was open before that reload). -/
theorem listener_closed_only_when_removed (opn : List String) (cfgs : List (List String)) (k : Nat)
    (p : ListenerPlan) (hp : (listenerPlans opn cfgs)[k]? = some p) (l : String) (hl : l ∈ p.closed) :
    ∃ cfg, cfgs[k]? = some cfg ∧ l ∉ cfg ∧ l ∈ listenerRuns opn (cfgs.take k) := by
  induction cfgs generalizing opn k with
  | nil => simp [listenerPlans] at hp
  | cons new rest ih =>
    cases k with
    | zero =>
      simp only [listenerPlans, List.getElem?_cons_zero, Option.some.injEq] at hp
      subst hp
      have := (listeners_closed opn new l).1 hl
      exact ⟨new, rfl, this.2, this.1⟩
    | succ k =>
      simp only [listenerPlans, List.getElem?_cons_succ] at hp
      obtain ⟨cfg, h1, h2, h3⟩ := ih _ k hp
      exact ⟨cfg, by simpa using h1, h2, by rw [List.take_succ_cons, listenerRuns_cons]; exact h3⟩

example : (listenerPlans ["0.0.0.0:6557", "/tmp/lmd.sock"] [["0.0.0.0:6558", "0.0.0.0:6557"], ["0.0.0.0:6557"]])[1]?
    = some { kept := ["0.0.0.0:6557"], opened := [], closed := ["0.0.0.0:6558"] } := by decide

end Lmd.C20Seq
