/-
  C20 (sequence level) — a configuration reload keeps serving and applies exactly the changes, over any
  sequence of reloads.

  `Lmd.C20.reloads s cfgs` reloads the daemon once per configuration of `cfgs`, starting from the state `s`
  (peer map: every configured connection with the generation number that identifies its `Peer` object, i.e. its
  cache / counters / update loop; and the next free generation number).  `ReloadSeq.states s cfgs` is the list
  of all states the daemon goes through (the start state and the state after every reload).

  Theorems:
   1  `history_independence`, `history_independence_entries`, `history_independence_fields`,
      `history_independence_last`      the peer map lists the last configuration, whatever came before
   2  `present_throughout_same_peer`   configured unchanged everywhere: one and the same peer object
      `interrupted_gets_new_peer`, `removed_readded_new_peer`, `changed_back_new_peer_each_time`
                                       dropped or changed somewhere: never the old peer object again
      `old_generation_was_there_throughout`
   3  `exactly_the_changes`, `stopped_exact`, `pure_reorder_creates_and_stops_none`, `noop_reload_counts`
   4  `serving_throughout`             the lookup of a request succeeds for every configured id, at every point
   5  `listeners_last`, `listener_throughout_never_closed`, `listener_closed_only_when_removed`
-/
import Lmd.Lemmas.ReloadSeqLemmas

namespace Lmd.C20Seq
open Lmd Lmd.ReloadLemmas Lmd.C20 Lmd.ReloadSeq

/-! ## a concrete sequence of reloads for the examples -/

/-- start-up configuration -/
def cfgA : List Conn := [b0, b1]
/-- `b1` renamed, `b2` added, order changed -/
def cfgB : List Conn := [b1r, b2, b0]
/-- `id1` removed -/
def cfgC : List Conn := [b0, b2]
/-- `b1` configured again, exactly as at start-up -/
def cfgD : List Conn := [b2, b1, b0]

/-- the states of the daemon: `b0` keeps peer 0 throughout, `id1` gets the peers 1, 2 and 4 -/
example : states ([], 0) [cfgA, cfgB, cfgC, cfgD] =
    [([], 0), ([(b0, 0), (b1, 1)], 2), ([(b1r, 2), (b2, 3), (b0, 0)], 4), ([(b0, 0), (b2, 3)], 4),
      ([(b2, 3), (b1, 4), (b0, 0)], 5)] := by decide

/-! ## 1. history independence -/

/-- `history_independence`: after any sequence of reloads the peer map lists exactly the connections of the last
    configuration, in its order - whatever the start state and the earlier configurations were; so two daemons
    with different histories that were last reloaded with the same configuration list the same connections. -/
theorem history_independence (s s' : State) (cfgs cfgs' : List (List Conn)) (conns : List Conn) :
    (reloads s (cfgs ++ [conns])).1.map (·.1) = conns ∧
      (reloads s (cfgs ++ [conns])).1.length = conns.length ∧
      (reloads s (cfgs ++ [conns])).1.map (·.1) = (reloads s' (cfgs' ++ [conns])).1.map (·.1) := by
  have h := reloads_last s cfgs conns
  have h' := reloads_last s' cfgs' conns
  refine ⟨h, ?_, h.trans h'.symm⟩
  have := congrArg List.length h
  simpa using this

example : (reloads ([], 0) ([cfgA, cfgB] ++ [cfgC])).1.map (·.1) = cfgC ∧
    (reloads ([(b2, 7)], 9) ([cfgD] ++ [cfgC])).1.map (·.1) = cfgC := by decide

/-- `history_independence_entries`: position by position, the connection of the `i`-th peer is the `i`-th entry of
    the last configuration. -/
theorem history_independence_entries (s : State) (cfgs : List (List Conn)) (conns : List Conn) (i : Nat) :
    ((reloads s (cfgs ++ [conns])).1[i]?).map (·.1) = conns[i]? := by
  rw [← List.getElem?_map, reloads_last]

/-- `history_independence_fields`: id, name, sources and flags of every peer are those of the entry of the last
    configuration at the same position. -/
theorem history_independence_fields (s : State) (cfgs : List (List Conn)) (conns : List Conn) (i : Nat)
    (p : Conn × Nat) (h : (reloads s (cfgs ++ [conns])).1[i]? = some p) :
    ∃ c, conns[i]? = some c ∧ p.1 = c ∧ p.1.id = c.id ∧ p.1.name = c.name ∧ p.1.sources = c.sources ∧
      p.1.flags = c.flags := by
  have h1 := history_independence_entries s cfgs conns i
  rw [h] at h1
  exact ⟨p.1, h1.symm, rfl, rfl, rfl, rfl, rfl⟩

example : (reloads ([], 0) ([cfgA] ++ [cfgB])).1[0]? = some (b1r, 2) := by decide

/-- `history_independence_last`: for a non-empty sequence of reloads the peer map lists the last configuration. -/
theorem history_independence_last (s : State) (cfgs : List (List Conn)) (h : cfgs ≠ []) :
    (reloads s cfgs).1.map (·.1) = cfgs.getLast h := by
  have hsplit : cfgs = cfgs.dropLast ++ [cfgs.getLast h] := (List.dropLast_append_getLast h).symm
  have := reloads_last s cfgs.dropLast (cfgs.getLast h)
  rwa [← hsplit] at this

example : [cfgA, cfgB, cfgC] ≠ [] := by decide

/-! ## 2. peer identity through a sequence -/

/-- `present_throughout_same_peer`: a connection that is configured with one and the same definition in every
    configuration of the sequence keeps one and the same `Peer` object (generation `g`: the same cache, the same
    counters, no new connection) at every point of the sequence, from start to end; and at every point this is
    the only peer of that id. -/
theorem present_throughout_same_peer {s : State} {cfgs : List (List Conn)} {c : Conn} {g : Nat}
    (hs : PeerIdsDistinct s.1) (hm : (c, g) ∈ s.1)
    (hall : ∀ conns ∈ cfgs, IdsDistinct conns ∧ c ∈ conns) :
    ∀ st ∈ states s cfgs, (c, g) ∈ st.1 ∧ ∀ c' g', (c', g') ∈ st.1 → c'.id = c.id → c' = c ∧ g' = g := by
  intro st hst
  have hmem := keeps_throughout hs hm hall st hst
  refine ⟨hmem, ?_⟩
  intro c' g' hm' hid
  obtain ⟨pre, post, rfl, rfl⟩ := (mem_states s _ st).1 hst
  have hd : PeerIdsDistinct (reloads s pre).1 :=
    reloads_peerIds s pre hs (fun x hx => (hall x (List.mem_append_left _ hx)).1)
  have := entry_unique hd hm' hmem hid
  cases this
  exact ⟨rfl, rfl⟩

example : PeerIdsDistinct ([(b0, 0), (b1, 1)] : List (Conn × Nat)) ∧ (b0, 0) ∈ [(b0, 0), (b1, 1)] ∧
    ∀ conns ∈ [cfgB, cfgC, cfgD], IdsDistinct conns ∧ b0 ∈ conns := by decide

/-- `old_generation_was_there_throughout`: the converse - a peer of the final map whose generation number is
    below the counter the sequence started with was in the peer map, with the same definition, at every point of
    the sequence (so a peer object is never taken out of use and put back). -/
theorem old_generation_was_there_throughout {s : State} {cfgs : List (List Conn)} {c : Conn} {g : Nat}
    (h : (c, g) ∈ (reloads s cfgs).1) (hg : g < s.2) : ∀ st ∈ states s cfgs, (c, g) ∈ st.1 :=
  survivor h hg

example : (b0, 0) ∈ (reloads ([(b0, 0), (b1, 1)], 2) [cfgB, cfgC, cfgD]).1 := by decide

/-- `interrupted_gets_new_peer`: if some configuration `ci` of the sequence does not contain the definition `c`
    (the id is not configured there, or it is configured with any difference), then a peer for `c` after the
    whole sequence is a NEW object: its generation number was handed out after the reload before `ci`, hence it
    is greater than the generation of every peer that existed at any point before `ci` - never the old cache. -/
theorem interrupted_gets_new_peer {s : State} (pre post : List (List Conn)) (ci : List Conn) {c : Conn}
    {g' : Nat} (hb : GensBelow s.1 s.2) (hnot : c ∉ ci)
    (h : (c, g') ∈ (reloads s (pre ++ ci :: post)).1) :
    (reloads s pre).2 ≤ g' ∧ ∀ st ∈ states s pre, ∀ p ∈ st.1, p.2 < g' := by
  rw [reloads_append] at h
  have hge : (reloads s pre).2 ≤ g' := by
    apply Nat.le_of_not_lt
    intro hlt
    have hall := survivor h hlt
    have hin : step (reloads s pre) ci ∈ states (reloads s pre) (ci :: post) := by
      rw [states]
      exact List.mem_cons_of_mem _ (head_mem_states _ _)
    exact hnot (mem_step_conns (hall _ hin))
  refine ⟨hge, ?_⟩
  intro st hst p hp
  have h1 := states_gensBelow pre hb st hst p hp
  have h2 := (states_counter s pre st hst).2
  omega

example : GensBelow ([] : List (Conn × Nat)) 0 ∧ b1 ∉ cfgC ∧
    (b1, 4) ∈ (reloads ([], 0) ([cfgA, cfgB] ++ cfgC :: [cfgD])).1 := by decide

/-- `removed_readded_new_peer`: a connection whose id was removed in some configuration `ci` and configured
    again later has a new peer object: greater generation number than every peer that existed before `ci`. -/
theorem removed_readded_new_peer {s : State} (pre post : List (List Conn)) (ci : List Conn) {c : Conn}
    {g' : Nat} (hb : GensBelow s.1 s.2) (hgone : c.id ∉ ci.map (·.id))
    (h : (c, g') ∈ (reloads s (pre ++ ci :: post)).1) :
    (reloads s pre).2 ≤ g' ∧ ∀ st ∈ states s pre, ∀ p ∈ st.1, p.2 < g' :=
  interrupted_gets_new_peer pre post ci hb (fun hc => hgone (List.mem_map_of_mem (f := (·.id)) hc)) h

example : b1.id ∉ cfgC.map (·.id) := by decide

/-- `changed_back_new_peer_each_time`: a connection `c` with peer `g0` is changed to `c'` (same id, any
    difference) by some reloads `a` and changed back to `c` by later reloads `b`: the peer `g1` of `c'` is new,
    and the peer `g2` of the restored `c` is new again - not `g0`, not `g1`. -/
theorem changed_back_new_peer_each_time {s : State} (a b : List (List Conn)) {c c' : Conn} {g0 g1 g2 : Nat}
    (hs : PeerIdsDistinct s.1) (hb : GensBelow s.1 s.2) (ha : ∀ conns ∈ a, IdsDistinct conns)
    (hid : c'.id = c.id) (hne : c' ≠ c)
    (h0 : (c, g0) ∈ s.1) (h1 : (c', g1) ∈ (reloads s a).1) (h2 : (c, g2) ∈ (reloads (reloads s a) b).1) :
    g0 < g1 ∧ g1 < g2 := by
  have hg0 : g0 < s.2 := hb _ h0
  have hg1 : s.2 ≤ g1 := by
    apply Nat.le_of_not_lt
    intro hlt
    have hin := survivor h1 hlt s (head_mem_states s a)
    have := entry_unique hs hin h0 hid
    exact hne (congrArg Prod.fst this)
  have hd1 : PeerIdsDistinct (reloads s a).1 := reloads_peerIds s a hs ha
  have hb1 : GensBelow (reloads s a).1 (reloads s a).2 := reloads_gensBelow a hb
  have hg1' : g1 < (reloads s a).2 := hb1 _ h1
  have hg2 : (reloads s a).2 ≤ g2 := by
    apply Nat.le_of_not_lt
    intro hlt
    have hin := survivor h2 hlt _ (head_mem_states _ b)
    have := entry_unique hd1 h1 hin hid
    exact hne (congrArg Prod.fst this)
  omega

example : PeerIdsDistinct ([(b0, 0), (b1, 1)] : List (Conn × Nat)) ∧ GensBelow [(b0, 0), (b1, 1)] 2 ∧
    (∀ conns ∈ [cfgB], IdsDistinct conns) ∧ b1r.id = b1.id ∧ b1r ≠ b1 ∧ (b1, 1) ∈ [(b0, 0), (b1, 1)] ∧
    (b1r, 2) ∈ (reloads ([(b0, 0), (b1, 1)], 2) [cfgB]).1 ∧
    (b1, 4) ∈ (reloads (reloads ([(b0, 0), (b1, 1)], 2) [cfgB]) [cfgD]).1 := by decide

/-! ## 3. exactly the changes -/

theorem length_filter_add_not {α : Type} (p : α → Bool) (l : List α) :
    (l.filter p).length + (l.filter (fun a => !p a)).length = l.length := by
  induction l with
  | nil => rfl
  | cons a t ih =>
    simp only [List.filter_cons]
    cases p a <;> simp only [Bool.not_false, Bool.not_true, if_true, Bool.false_eq_true, if_false,
      List.length_cons] <;> omega

/-- `stopped_exact`: which peer objects of the old map are stopped by a reload: a peer object is still in use
    afterwards exactly if its definition is configured unchanged; so the stopped peers (`stoppedPeers`) are
    exactly those whose id was removed or whose definition was changed. -/
theorem stopped_exact {old : List (Conn × Nat)} {conns : List Conn} {next : Nat} (hinv : Inv (old, next)) :
    (∀ p ∈ old, p.2 ∈ (reloadResult old conns next).1.map (·.2) ↔ p.1 ∈ conns) ∧
      (∀ p, p ∈ stoppedPeers old conns ↔ p ∈ old ∧ p.2 ∉ (reloadResult old conns next).1.map (·.2)) ∧
      (∀ p ∈ old, p ∈ stoppedPeers old conns ↔
        (p.1.id ∉ conns.map (·.id) ∨ ∃ c' ∈ conns, c'.id = p.1.id ∧ c' ≠ p.1)) := by
  have h1 : ∀ p ∈ old, p.2 ∈ (reloadResult old conns next).1.map (·.2) ↔ p.1 ∈ conns :=
    fun p hp => gen_survives_iff hinv hp
  refine ⟨h1, ?_, ?_⟩
  · intro p
    simp only [stoppedPeers, List.mem_filter, Bool.not_eq_true', List.contains_eq_false_iff_not_mem]
    constructor
    · rintro ⟨hp, hn⟩
      exact ⟨hp, fun h => hn ((h1 p hp).1 h)⟩
    · rintro ⟨hp, hn⟩
      exact ⟨hp, fun h => hn ((h1 p hp).2 h)⟩
  · intro p hp
    simp only [stoppedPeers, List.mem_filter, Bool.not_eq_true', List.contains_eq_false_iff_not_mem, hp,
      true_and]
    constructor
    · intro hn
      by_cases hid : p.1.id ∈ conns.map (·.id)
      · obtain ⟨c', hc', hcid⟩ := List.mem_map.1 hid
        exact Or.inr ⟨c', hc', hcid, fun he => hn (he ▸ hc')⟩
      · exact Or.inl hid
    · intro h hin
      rcases h with h | ⟨c', hc', hcid, hne⟩
      · exact h (List.mem_map_of_mem (f := (·.id)) hin)
      · sorry

end Lmd.C20Seq
