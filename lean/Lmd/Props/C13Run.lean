/-
  C13Run — backend availability over whole event sequences.

  The peer state is `Lmd.PeerSt`; a history is a list of `C13.Event`s (`init` = a rebuild, `tick` = one pass of
  the update loop, `query` = what a client query does to a selected peer), each with its own time stamp and its
  own backend behaviour; `C13.run` folds `C13.step` over it.  "Time stamps do not decrease" is
  `(evs.map time).Pairwise (· ≤ ·)`.

  1. `idle_cadence`            two runs of the loop body with no client query between them, the second on an
                               idling peer, are at least `IdleInterval` apart (on the `trace` of a run);
     `idle_cadence_events`     the same on the events themselves (no trace);
     `idle_pass_runs_iff_due`, `idle_pass_without_run_is_silent`   what `ran` means for an idling peer.
  2. `bounded_staleness`       data held while failures are outstanding was seen within `StaleBackendTimeout`
                               before the last event that recorded a failure (run carrying a failure stamp);
     `event_trichotomy`, `failure_keeps_data_only_if_fresh`, `stale_failure_drops_data`   the same per event of a run.
  3. `status_table`            after every history: `Up` → data ∧ no error, `Warning` → data, `Down` / `Broken` /
                               `Pending` → no data;  `up_not_failed`  an `Up` peer is not listed under `failed`.
  4. `recovery_run`            a history that ends with a successful contact ends `Up`, clean, seen now.
  5. `first_query_after_idle`, `first_query_refresh`, `woken_peer_next_pass_runs`, `query_keeps_awake`   the client
                               query that wakes an idling peer, and how long the peer stays awake.

  Helper lemmas live in `Lmd.Lemmas.AvailLemmas`: `Ev` is the closure of a peer state under everything one event
  does to the availability fields; every event is an `Ev` (`initAllTables_ev`, `tick_ev`, `resume_ev`).
-/
import Lmd.Lemmas.AvailLemmas

namespace Lmd.C13Run
open Lmd Lmd.PeerL Lmd.Avail
open Lmd.C13 (Event step run exWorld exBackend exRefusing)

/-! ## 1. idle cadence -/

/-- The trace describes the run: the `k`-th observation is made — by `observe` — on the state the first `k` events
    leave: the event's time, its kind, whether the loop body ran (`ran` of a loop pass; a rebuild always runs; a
    client query is not part of the loop) and whether the peer idles in it (for a loop pass: after the idle check
    of that pass, `idlesAt`). -/
theorem trace_describes_run (w : World) (p0 : PeerSt) (evs : List Event) (k : Nat) (e : Event) (h : evs[k]? = some e) :
    (trace w p0 evs)[k]? = some (observe w (run w p0 (evs.take k)) e) ∧ (trace w p0 evs).length = evs.length :=
  ⟨trace_get w evs p0 k e h, trace_length w evs p0⟩

/-- Idle cadence over a run.  For every configuration, every start state and every history whose time stamps do not
    decrease: if the loop body ran in event `i` (a rebuild, or a loop pass reporting `ran`), ran again in a later
    loop pass `j` in which the peer idles, and no client query lies between the two, then pass `j` is at least
    `IdleInterval` later than event `i`.  (A client query between them wakes the peer and makes it due at once,
    see `woken_peer_next_pass_runs`.) -/
theorem idle_cadence (w : World) (p0 : PeerSt) (evs : List Event) (hmono : (evs.map time).Pairwise (· ≤ ·))
    (i j : Nat) (oi oj : Obs) (hij : i < j)
    (hi : (trace w p0 evs)[i]? = some oi) (hj : (trace w p0 evs)[j]? = some oj)
    (hnoq : ∀ k o, i < k → k < j → (trace w p0 evs)[k]? = some o → o.isQuery = false)
    (hri : oi.ran = true) (htick : oj.isTick = true) (hrj : oj.ran = true) (hidle : oj.idle = true) :
    oi.time + w.cfg.idleInterval ≤ oj.time :=
  cadence w evs p0 i j oi oj hmono hij hi hj hnoq hri htick hrj hidle

/-- non-vacuity: a new peer is synchronised at 100, idles from the pass at 300 on (no run), and is contacted again
    at 2000 (the backend refuses then; the loop body ran all the same) — `IdleInterval` (1800) after 100 is 1900 -/
example : (trace exWorld {} [.tick 100 exBackend, .tick 300 exBackend, .tick 2000 exRefusing]).map
      (fun o => (o.time, o.isTick, o.ran, o.idle)) =
    [(100, true, true, false), (300, true, false, true), (2000, true, true, true)] ∧
    (([.tick 100 exBackend, .tick 300 exBackend, .tick 2000 exRefusing] : List Event).map time).Pairwise (· ≤ ·) := by
  decide

/-- The same on the events themselves.  At any point of any run: a loop pass at `ti` that runs the loop body,
    followed by rebuilds and loop passes — no client query — at times from `ti` on, followed by a loop pass at `tj`
    in which the peer idles and which runs the loop body again: then `tj` is at least `IdleInterval` after `ti`. -/
theorem idle_cadence_events (w : World) (p0 : PeerSt) (pre mid : List Event) (ti tj : Int) (bi bj : BackendSt)
    (hmid : ∀ e ∈ mid, ti ≤ time e ∧ ∀ t b, e ≠ .query t b)
    (hri : (tick w ti (run w p0 pre) bi).ran = true)
    (hidle : idlesAt w tj (run w p0 (pre ++ .tick ti bi :: mid)) = true)
    (hrj : (tick w tj (run w p0 (pre ++ .tick ti bi :: mid)) bj).ran = true) :
    ti + w.cfg.idleInterval ≤ tj := by
  rw [run_append, run_cons] at hidle hrj
  have h1 : ti ≤ (step w (run w p0 pre) (.tick ti bi)).lastUpdate :=
    Int.le_of_eq (tick_ran_lastUpdate w ti (run w p0 pre) bi hri).symm
  have h2 := run_lastUpdate_ge w ti mid _ h1 hmid
  have h3 := (tick_idlesAt_ran w tj _ bj hidle).1 hrj
  omega

example : (tick exWorld 100 (run exWorld {} []) exBackend).ran = true ∧
    (∀ e ∈ ([.tick 300 exBackend] : List Event), (100 : Int) ≤ time e ∧ ∀ t b, e ≠ .query t b) ∧
    idlesAt exWorld 2000 (run exWorld {} ([] ++ .tick 100 exBackend :: [.tick 300 exBackend])) = true ∧
    (tick exWorld 2000 (run exWorld {} ([] ++ .tick 100 exBackend :: [.tick 300 exBackend])) exRefusing).ran = true := by
  refine ⟨by decide, ?_, by decide, by decide⟩
  intro e he
  rw [List.mem_singleton.1 he]
  exact ⟨by decide, fun t b h => by cases h⟩

/-- For a peer that idles in a loop pass (it idled before, or the idle check of this very pass sets the flag), the
    pass reports a run exactly when `IdleInterval` has passed since the last update — at every point of every run. -/
theorem idle_pass_runs_iff_due (w : World) (p0 : PeerSt) (pre : List Event) (t : Int) (b : BackendSt)
    (hidle : idlesAt w t (run w p0 pre) = true) :
    (tick w t (run w p0 pre) b).ran = true ↔ (run w p0 pre).lastUpdate + w.cfg.idleInterval ≤ t :=
  tick_idlesAt_ran w t (run w p0 pre) b hidle

/-- And a pass over an idling peer that reports no run has sent nothing: the backend is untouched and the peer
    changes by the idle flag at most.  So for idling peers `ran` is exactly "the backend was contacted". -/
theorem idle_pass_without_run_is_silent (w : World) (p0 : PeerSt) (pre : List Event) (t : Int) (b : BackendSt)
    (hidle : idlesAt w t (run w p0 pre) = true) (hr : (tick w t (run w p0 pre) b).ran = false) :
    (tick w t (run w p0 pre) b).b = b ∧ run w p0 (pre ++ [.tick t b]) = idleStep w t (run w p0 pre) := by
  rw [run_snoc]
  exact tick_idlesAt_quiet w t (run w p0 pre) b hidle hr

example : idlesAt exWorld 300 (run exWorld {} [.tick 100 exBackend]) = true ∧
    (tick exWorld 300 (run exWorld {} [.tick 100 exBackend]) exBackend).ran = false := by decide

/-! ## 2. bounded staleness -/

/-- What every event of every run does, at its own time `now`, to the failure counter, the time the backend was
    last seen and the data (`Tri`): either it records nothing (counter and last-seen time unchanged, no data
    appears), or it ends recovered (counter zero, seen at `now`), or the counter is positive afterwards — it grew
    while the last-seen time stayed, or the backend was seen at `now` before the failures — and the peer holds data
    only if the backend was seen no longer than `StaleBackendTimeout` before `now`. -/
theorem event_trichotomy (w : World) (p0 : PeerSt) (pre : List Event) (e : Event) :
    Tri w (time e) (run w p0 pre) (run w p0 (pre ++ [e])) := by
  rw [run_snoc]; exact step_tri w _ e

/-- In particular: data survives an event that counted a failure only if the backend was seen within
    `StaleBackendTimeout` before that event's time; and the last-seen time is the old one or the event's. -/
theorem failure_keeps_data_only_if_fresh (w : World) (p0 : PeerSt) (pre : List Event) (e : Event)
    (hfail : (run w p0 pre).errorCount < (run w p0 (pre ++ [e])).errorCount)
    (hdata : (run w p0 (pre ++ [e])).cache.isSome) :
    time e - w.cfg.staleTimeout ≤ (run w p0 (pre ++ [e])).lastOnline ∧
      ((run w p0 (pre ++ [e])).lastOnline = (run w p0 pre).lastOnline ∨ (run w p0 (pre ++ [e])).lastOnline = time e) := by
  rcases event_trichotomy w p0 pre e with ⟨a, _, _⟩ | ⟨a, _⟩ | ⟨_, b, c⟩
  · omega
  · omega
  · exact ⟨c hdata, b.imp (·.2) id⟩

example : (run exWorld {} [.tick 100 exBackend]).errorCount <
      (run exWorld {} ([.tick 100 exBackend] ++ [.tick 110 exRefusing])).errorCount ∧
    (run exWorld {} ([.tick 100 exBackend] ++ [.tick 110 exRefusing])).cache.isSome = true := by decide

/-- Bounded staleness proper: an event of a run that counted a failure at a time more than `StaleBackendTimeout`
    after the backend was last seen leaves the peer without data — data older than that is never served after a
    failed contact. -/
theorem stale_failure_drops_data (w : World) (p0 : PeerSt) (pre : List Event) (e : Event)
    (hfail : (run w p0 pre).errorCount < (run w p0 (pre ++ [e])).errorCount)
    (hstale : (run w p0 (pre ++ [e])).lastOnline < time e - w.cfg.staleTimeout) :
    (run w p0 (pre ++ [e])).cache = none := by
  cases hc : (run w p0 (pre ++ [e])).cache with
  | none => rfl
  | some c =>
    have := (failure_keeps_data_only_if_fresh w p0 pre e hfail (by rw [hc]; rfl)).1
    omega

example : (run exWorld {} [.tick 100 exBackend, .tick 110 exRefusing]).errorCount <
      (run exWorld {} ([.tick 100 exBackend, .tick 110 exRefusing] ++ [.tick 150 exRefusing])).errorCount ∧
    (run exWorld {} ([.tick 100 exBackend, .tick 110 exRefusing] ++ [.tick 150 exRefusing])).lastOnline <
      time (.tick 150 exRefusing) - exWorld.cfg.staleTimeout := by decide

/-- Bounded staleness over a run.  `runG` is `run` carrying a failure stamp (`failStamp`): the time of the last
    event during which a failure was recorded that no success has followed — cleared when the failure counter is
    zero after an event, kept when the event changed neither the counter nor the last-seen time, else set to the
    event's time.  For every history whose time stamps do not decrease, from a peer without outstanding failures:
    the stamp is set exactly while the failure counter is positive, and whenever it is set and the peer still holds
    data, the backend was last seen no longer than `StaleBackendTimeout` before the stamp.  (While the stamp is
    clear, no contact failed since the last success.) -/
theorem bounded_staleness (w : World) (p0 : PeerSt) (evs : List Event) (hmono : (evs.map time).Pairwise (· ≤ ·))
    (h0 : p0.errorCount = 0) :
    (runG w (p0, none) evs).1 = run w p0 evs ∧
    ((runG w (p0, none) evs).2 = none ↔ (run w p0 evs).errorCount = 0) ∧
    (∀ tf, (runG w (p0, none) evs).2 = some tf → (run w p0 evs).cache.isSome →
      tf - w.cfg.staleTimeout ≤ (run w p0 evs).lastOnline) := by
  have hfst := runG_fst w evs (p0, none)
  cases evs with
  | nil => exact ⟨rfl, by simp [runG, run_nil, h0], fun tf h => by cases h⟩
  | cons e es =>
    have hge : ∀ e' ∈ e :: es, time e ≤ time e' := by
      intro e' he'
      rw [List.map_cons, List.pairwise_cons] at hmono
      rcases List.mem_cons.1 he' with rfl | he'
      · exact Int.le_refl _
      · exact hmono.1 _ (List.mem_map_of_mem he')
    obtain ⟨a, b⟩ := runG_ok w (e :: es) (p0, none) (time e) (fun tf h => by cases h) (by simp [StampOK, h0])
      (fun tf h => by cases h) hge hmono
    unfold StampOK at b
    rw [hfst] at b
    refine ⟨hfst, b, fun tf h hc => ?_⟩
    have := a tf h (by rw [hfst]; exact hc)
    rwa [hfst] at this

/-- non-vacuity: synchronised at 100, refused at 110 and 125: the stamp is 125, the data is still there, and
    100 ≥ 125 − 30; refused again at 150: stamp 150, the data is gone -/
example : (runG exWorld ({}, none) [.tick 100 exBackend, .tick 110 exRefusing, .tick 125 exRefusing]).2 = some 125 ∧
    (run exWorld {} [.tick 100 exBackend, .tick 110 exRefusing, .tick 125 exRefusing]).cache.isSome = true ∧
    (run exWorld {} [.tick 100 exBackend, .tick 110 exRefusing, .tick 125 exRefusing]).lastOnline = 100 ∧
    (runG exWorld ({}, none) [.tick 100 exBackend, .tick 110 exRefusing, .tick 125 exRefusing, .tick 150 exRefusing]).2
      = some 150 ∧
    (run exWorld {} [.tick 100 exBackend, .tick 110 exRefusing, .tick 125 exRefusing, .tick 150 exRefusing]).cache.isSome
      = false ∧
    ({} : PeerSt).errorCount = 0 ∧
    (([.tick 100 exBackend, .tick 110 exRefusing, .tick 125 exRefusing, .tick 150 exRefusing] : List Event).map
      time).Pairwise (· ≤ ·) := by decide

/-! ## 3. status, data and error text -/

/-- The status / data table after every history.  For every configuration and every finite list of rebuilds, loop
    passes and client queries at arbitrary times against a backend in arbitrary modes, from a peer that starts
    `Pending` without data: `Up` implies data and an empty error text; `Warning` implies data; `Down`, `Broken`
    and `Pending` imply no data.  (`Syncing` says nothing about the data: see the example below.) -/
theorem status_table (w : World) (p0 : PeerSt) (evs : List Event) (h0 : p0.status = .pending) (hc : p0.cache = none) :
    ((run w p0 evs).status = .up → (run w p0 evs).cache.isSome ∧ (run w p0 evs).lastError = "") ∧
    ((run w p0 evs).status = .warning → (run w p0 evs).cache.isSome) ∧
    (((run w p0 evs).status = .down ∨ (run w p0 evs).status = .broken ∨ (run w p0 evs).status = .pending) →
      (run w p0 evs).cache = none) := by
  have : ∀ (evs : List Event) (p : PeerSt), Good p → Good (run w p evs) := by
    intro evs
    induction evs with
    | nil => exact fun p h => h
    | cons e es ih => exact fun p h => ih (step w p e) (step_good w p e h)
  have g := this evs p0 (good_pending h0 hc)
  exact ⟨g.up, g.warning, g.nodata⟩

/-- non-vacuity: the start state exists, and histories ending `Up`, `Warning` and `Down` exist -/
example : ({} : PeerSt).status = .pending ∧ ({} : PeerSt).cache = none := ⟨rfl, rfl⟩
example : (run exWorld {} [.tick 100 exBackend]).status = .up ∧
    (run exWorld {} [.tick 100 exBackend, .tick 110 exRefusing]).status = .warning ∧
    (run exWorld {} [.tick 100 exBackend, .tick 110 exRefusing, .tick 150 exRefusing]).status = .down := by decide

/-- the start hypothesis is needed: an arbitrary start state may be `Down` with data (empty history) -/
example : ∃ p0 : PeerSt, (run exWorld p0 []).status = .down ∧ (run exWorld p0 []).cache.isSome = true :=
  ⟨{ status := .down, cache := some [] }, rfl, rfl⟩

/-- a backend whose status table is empty, and one that fails at its second request -/
def exNotReady : BackendSt := { tables := [], cols := [] }
def exFailSecond : BackendSt := { exBackend with failAfter := some 1 }

/-- `Syncing` without data is reachable: synchronised at 100, a rebuild at 110 finds the backend not ready (`Down`,
    no data), and at 120 a rebuild that gets its status reply and then fails leaves `Syncing` without data -/
example : (run exWorld {} [.tick 100 exBackend, .init 110 exNotReady]).status = .down ∧
    (run exWorld {} [.tick 100 exBackend, .init 110 exNotReady, .tick 120 exFailSecond]).status = .syncing ∧
    (run exWorld {} [.tick 100 exBackend, .init 110 exNotReady, .tick 120 exFailSecond]).cache.isSome = false := by decide

/-- The consequence for the answer of a client query: a peer that is `Up` after any history is available for
    every table (`peerView` is the backend a query sees for a peer state), so in any data set in which the
    backends with its id are this peer, no entry of the `failed` list of a data query or of a Stats query carries
    its id. -/
theorem up_not_failed (w : World) (p0 : PeerSt) (evs : List Event) (h0 : p0.status = .pending) (hc : p0.cache = none)
    (hu : (run w p0 evs).status = .up) (id name : String) (s : Schema) (ds : Dataset) (t : Table)
    (req : Request) (hmem : peerView id name (run w p0 evs) ∈ ds.backends)
    (huniq : ∀ b ∈ ds.backends, b.id = id → b = peerView id name (run w p0 evs)) :
    backendAvailable (peerView id name (run w p0 evs)) t = true ∧
      (∀ (m : EvalMode), ∀ x ∈ (dataQuery m s ds t req).failed, x.1 ≠ id) ∧
      (∀ (m : StatsMode), ∀ x ∈ (statsQuery m s ds t req).failed, x.1 ≠ id) := by
  obtain ⟨g1, g2, g3⟩ := status_table w p0 evs h0 hc
  have hav : ∀ t, backendAvailable (peerView id name (run w p0 evs)) t = true :=
    fun t => peerView_available ⟨g1, g2, g3⟩ hu t
  have hnot := failedList_not ds t req id (List.any_eq_true.2 ⟨_, hmem, by simp [peerView]⟩)
    (fun b hb hid => by rw [huniq b hb hid]; exact hav t)
  exact ⟨hav t, (fun m => by rw [dataQuery_failed]; exact hnot), (fun m => by rw [statsQuery_failed]; exact hnot)⟩

example : (run exWorld {} [.tick 100 exBackend]).status = .up ∧
    peerView "a" "A" (run exWorld {} [.tick 100 exBackend]) ∈
      ({ backends := [peerView "a" "A" (run exWorld {} [.tick 100 exBackend])] } : Dataset).backends ∧
    (∀ b ∈ ({ backends := [peerView "a" "A" (run exWorld {} [.tick 100 exBackend])] } : Dataset).backends,
      b.id = "a" → b = peerView "a" "A" (run exWorld {} [.tick 100 exBackend])) :=
  ⟨by decide, List.mem_singleton.2 rfl, fun b hb _ => List.mem_singleton.1 hb⟩

/-! ## 4. recovery -/

/-- an event that is a successful contact of the update loop: a rebuild without error, or a loop pass that ran
    and reports no error -/
def succeeded (w : World) (p : PeerSt) : Event → Prop
  | .init t b => (initAllTables w t p b).err = .none
  | .tick t b => (tick w t p b).ran = true ∧ (tick w t p b).err = .none
  | .query _ _ => False

/-- Recovery over a run.  Whatever happened before — any start state, any history —, a history that ends with a
    successful contact ends `Up`, with data, with an empty error text, the backend seen at the time of that event,
    and a failure counter of zero. -/
theorem recovery_run (w : World) (p0 : PeerSt) (evs : List Event) (e : Event) (h : succeeded w (run w p0 evs) e) :
    (run w p0 (evs ++ [e])).status = .up ∧ (run w p0 (evs ++ [e])).cache.isSome ∧
      (run w p0 (evs ++ [e])).lastError = "" ∧ (run w p0 (evs ++ [e])).lastOnline = time e ∧
      (run w p0 (evs ++ [e])).errorCount = 0 := by
  rw [run_snoc]
  cases e with
  | init t b => exact init_fresh h
  | tick t b => exact tick_fresh h.1 h.2
  | query t b => exact absurd h id

/-- non-vacuity: after two refused passes (`Down`, data gone) the pass at 200 succeeds -/
example : (run exWorld {} [.tick 100 exBackend, .tick 110 exRefusing, .tick 150 exRefusing]).status = .down ∧
    succeeded exWorld (run exWorld {} [.tick 100 exBackend, .tick 110 exRefusing, .tick 150 exRefusing])
      (.tick 200 exBackend) := by
  refine ⟨by decide, ?_, ?_⟩ <;> decide

/-! ## 5. the first client query after idling -/

/-- At every point of every run: a client query that selects an idling peer wakes it before it is answered — the
    refresh of `ResumeFromIdle` runs on the peer with the idle flag cleared and the query time recorded, and the
    state the answer is built from is its outcome, with `idling = false` and `lastQuery` the time of the query. -/
theorem first_query_after_idle (w : World) (p0 : PeerSt) (pre : List Event) (tq : Int) (bq : BackendSt)
    (hidle : (run w p0 pre).idling = true) :
    (run w p0 (pre ++ [.query tq bq])).idling = false ∧ (run w p0 (pre ++ [.query tq bq])).lastQuery = tq ∧
      run w p0 (pre ++ [.query tq bq]) =
        { (resume w tq { run w p0 pre with lastQuery := tq, idling := false } bq).1 with lastQuery := tq } := by
  rw [run_snoc]
  obtain ⟨a, b, c⟩ := C13.spinup_first w tq (run w p0 pre) bq hidle
  exact ⟨a, b, congrArg Prod.fst c⟩

/-- The refresh is a sequence of recorded failures, bookkeeping and — on success — `resetErrors` at the time of
    the query (an `Ev`), or, for a peer that is not `Up` with data, sends nothing and makes the next loop pass due. -/
theorem first_query_refresh (w : World) (p0 : PeerSt) (pre : List Event) (tq : Int) (bq : BackendSt) :
    let p1 : PeerSt := { run w p0 pre with lastQuery := tq, idling := false }
    Ev w tq p1 (resume w tq p1 bq).1 ∨
      ((resume w tq p1 bq).1 = { p1 with lastUpdate := tq - w.cfg.updateInterval } ∧ (resume w tq p1 bq).2 = bq ∧
        ¬ (p1.status = .up ∧ p1.cache.isSome)) :=
  resume_ev w tq _ bq

/-- A woken peer without data is updated by the very next loop pass: after a client query at `tq > 0` on an idling
    peer without data, a loop pass at any time from `tq` up to `tq + IdleTimeout` runs the loop body. -/
theorem woken_peer_next_pass_runs (w : World) (p0 : PeerSt) (pre : List Event) (tq t : Int) (bq bt : BackendSt)
    (hidle : (run w p0 pre).idling = true) (hnd : (run w p0 pre).cache = none)
    (hq : 0 < tq) (h1 : tq ≤ t) (h2 : t ≤ tq + w.cfg.idleTimeout) :
    (tick w t (run w p0 (pre ++ [.query tq bq])) bt).ran = true := by
  obtain ⟨a, b, c⟩ := first_query_after_idle w p0 pre tq bq hidle
  have hr := resume_nodata w tq { run w p0 pre with lastQuery := tq, idling := false } bq hnd
  rw [hr] at c
  refine tick_due_nodata w t _ bt (idlesAt_awake a (by rw [b]; exact hq) (by rw [b]; exact h2)) ?_ ?_
  · rw [c]; exact hnd
  · rw [c]; show tq - w.cfg.updateInterval + w.cfg.updateInterval ≤ t; omega

/-- A client query keeps the peer awake: after a client query at `tq > 0` — on an idling peer or not — the peer does
    not idle after any further events whose times lie between `tq` and `tq + IdleTimeout`. -/
theorem query_keeps_awake (w : World) (p0 : PeerSt) (pre mid : List Event) (tq : Int) (bq : BackendSt) (hq : 0 < tq)
    (hmid : ∀ e ∈ mid, tq ≤ time e ∧ time e ≤ tq + w.cfg.idleTimeout) :
    (run w p0 (pre ++ .query tq bq :: mid)).idling = false ∧ tq ≤ (run w p0 (pre ++ .query tq bq :: mid)).lastQuery := by
  rw [run_append, run_cons]
  exact run_awake w tq hq mid _ (query_awake_after w tq _ bq) hmid

example : (run exWorld {} [.tick 100 exBackend, .tick 300 exBackend]).idling = true ∧ (0 : Int) < 310 ∧
    (∀ e ∈ ([.tick 400 exRefusing] : List Event), 310 ≤ time e ∧ time e ≤ 310 + exWorld.cfg.idleTimeout) ∧
    (run exWorld {} ([.tick 100 exBackend, .tick 300 exBackend] ++ .query 310 exRefusing :: [.tick 400 exRefusing])).idling
      = false := by
  refine ⟨by decide, by decide, ?_, by decide⟩
  intro e he
  rw [List.mem_singleton.1 he]
  decide

/-- non-vacuity: a pass at 300 against a refusing backend leaves a new peer idling without data -/
example : (run exWorld {} [.tick 300 exRefusing]).idling = true ∧ (run exWorld {} [.tick 300 exRefusing]).cache = none ∧
    (0 : Int) < 310 ∧ (310 : Int) ≤ 320 ∧ (320 : Int) ≤ 310 + exWorld.cfg.idleTimeout := by
  refine ⟨by decide, by decide, by decide, by decide, by decide⟩

/-- non-vacuity of `first_query_after_idle` on a peer that is `Up` with data: synchronised at 100, idling from 300 -/
example : (run exWorld {} [.tick 100 exBackend, .tick 300 exBackend]).idling = true ∧
    (run exWorld {} [.tick 100 exBackend, .tick 300 exBackend]).status = .up := by decide

end Lmd.C13Run
