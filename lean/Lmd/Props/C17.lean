/- C17 — property theorems (under construction). -/
import Lmd.Print
namespace Lmd.C17
end Lmd.C17
