/-
  C17 — a request serialises (`Request.String`) to an equivalent request.

  The filter part is the classic postfix round trip.  Header lines are viewed as tokens
  (`Tok`: a leaf line, `And: n` / `Or: n`, `Negate:`); `emit` lists the tokens in the order in which
  `Filter.print` writes the lines, `run` is the stack machine `parseHeaderLine` implements for these
  lines.  Definitions and helper lemmas live in `Lmd.Lemmas.Print`.

    5. `run (emit f) st = st ++ [f]` for every tree without empty groups, any depth and width;
    6. `Filter.print` writes exactly the lines of `emit` (both keyword flavours);
    7. negation is an involution and is printed once per marked node;
    8. queries read only the fields the round trip preserves;
    9. the steps of `run` are what `parseHeaderLine` does on the printed group and negate lines.
-/
import Lmd.Lemmas.Print

namespace Lmd.C17
open Lmd

/-! ## 5. the round trip -/

/-- Reading back the header lines lmd prints for a filter tree rebuilds exactly that tree on top of
    whatever is already on the stack — for every tree whose groups are non-empty, of any depth
    and width, provided `Negate:` toggles (the repaired/current behaviour `negOr = false`). -/
theorem forest_roundtrip (q : Quirks) (hq : q.negOr = false) (f : Filter) (wf : WellFormed f)
    (st : List Filter) : run q (emit f) st = some (st ++ [f]) :=
  run_emit q hq f wf st

/-- The same for a whole filter stack (`Request.Filter`): printing the trees one after the other
    and reading the lines back appends exactly these trees, in order. -/
theorem forest_roundtrip_list (q : Quirks) (hq : q.negOr = false) (fs : List Filter)
    (wf : ∀ f ∈ fs, WellFormed f) (st : List Filter) :
    run q (fs.flatMap emit) st = some (st ++ fs) := by
  rw [← emitList_eq_flatMap]
  exact run_emitList q hq fs ((wellFormedList_iff fs).2 wf) st

/-- In particular a printed request parses to the same filter stack when read from scratch. -/
theorem forest_roundtrip_request (q : Quirks) (hq : q.negOr = false) (req : Request)
    (wf : ∀ f ∈ req.filter, WellFormed f) :
    run q (req.filter.flatMap emit) [] = some req.filter := by
  simpa using forest_roundtrip_list q hq req.filter wf []

private def leafA : Leaf := { col := emptyColumn, op := .eq, sval := "a" }
private def leafB : Leaf := { col := emptyColumn, op := .ne, sval := "b" }
private def leafC : Leaf := { col := emptyColumn, op := .ge, sval := "c" }

/-- a three level tree with a negated group inside a negated group and a negated leaf -/
private def tree3 : Filter :=
  .grp false [.leaf leafA false,
              .grp true [.leaf leafB true, .grp false [.leaf leafC false, .leaf leafA true] true] true] true

/-- non-vacuity: the hypotheses hold for a three level tree with doubly nested negation, and the
    tree round-trips (on a non-empty stack, too) -/
example : WellFormed tree3 := by simp [tree3, WellFormed, WellFormedList]
example : run Quirks.current (emit tree3) [.leaf leafC true] = some [.leaf leafC true, tree3] :=
  forest_roundtrip Quirks.current rfl tree3 (by simp [tree3, WellFormed, WellFormedList]) _
example : (emit tree3).length = 12 := by simp [tree3, emit, emitList]

/-- the hypothesis on groups is needed: a group without members prints `And: 0`, which the parser
    ignores, so the stack stays as it was -/
example : run Quirks.current (emit (.grp true [] false)) [] = some [] := by
  simp [emit, emitList, run, step]

/-- the hypothesis on negation is needed: if `Negate:` sets the mark instead of toggling it, a
    printed tree still reads back, but a line sequence with two `Negate:` does not cancel -/
example : run { Quirks.current with negOr := true } [.leaf leafA, .neg, .neg] []
    = some [.leaf leafA true] := by
  simp [run, step, mapLast, Filter.setNeg]

/-! ## 6. `Filter.print` writes the tokens of `emit` -/

/-- The text lmd generates for a filter tree is the concatenation of the lines of `emit f`:
    a leaf prints as its `Filter:` line, a group as `And: n` / `Or: n` after its members, a
    negation mark as one `Negate:` line.  With `stats = true` the same holds for the keywords
    `Stats:`, `StatsAnd:`, `StatsOr:`, `StatsNegate:`. -/
theorem print_follows_emit (stats : Bool) (f : Filter) (wf : WellFormed f) :
    Filter.print stats f = String.join ((emit f).map (Tok.line stats)) :=
  print_emit stats f wf

/-- The filter section of a printed request is the concatenation of the lines of all trees. -/
theorem print_follows_emit_list (stats : Bool) (fs : List Filter) (wf : ∀ f ∈ fs, WellFormed f) :
    Filter.printList stats fs = String.join ((fs.flatMap emit).map (Tok.line stats)) := by
  rw [← emitList_eq_flatMap]
  exact printList_emit stats fs ((wellFormedList_iff fs).2 wf)

/-- A counter entry of `Request.Stats` is printed with the Stats flavour of the same lines. -/
theorem stats_print_follows_emit (f : Filter) (wf : WellFormed f) :
    StatsEntry.print (.counter f) = String.join ((emit f).map (Tok.line true)) :=
  print_emit true f wf

/-- what the individual lines look like -/
theorem tok_lines (l : Leaf) (n : Nat) :
    Tok.line false (.leaf l) = l.printLine "Filter" ∧ Tok.line true (.leaf l) = l.printLine "Stats"
    ∧ Tok.line false (.grp true n) = "And: " ++ toString n ++ "\n"
    ∧ Tok.line false (.grp false n) = "Or: " ++ toString n ++ "\n"
    ∧ Tok.line true (.grp true n) = "StatsAnd: " ++ toString n ++ "\n"
    ∧ Tok.line true (.grp false n) = "StatsOr: " ++ toString n ++ "\n"
    ∧ Tok.line false .neg = "Negate:\n" ∧ Tok.line true .neg = "StatsNegate:\n" := by
  simp [Tok.line, String.append_assoc]

example : Filter.print false (.grp true [.grp false [] false, .leaf leafA true] true)
    ≠ String.join ((emit (.grp true [.grp false [] false, .leaf leafA true] true)).map (Tok.line false)) := by
  decide

/-! ## 7. negation -/

/-- With toggling negation, negating twice gives the filter back — which is why one printed
    `Negate:` line reproduces a mark and no mark prints no line. -/
theorem setNeg_involutive (q : Quirks) (hq : q.negOr = false) (f : Filter) :
    (f.setNeg q).setNeg q = f := by
  cases f <;> simp [Filter.setNeg, hq]

/-- The mark set by one `Negate:` on a fresh node: an unmarked node becomes marked. -/
theorem setNeg_marks (q : Quirks) (hq : q.negOr = false) (l : Leaf) (a : Bool) (fs : List Filter) :
    (Filter.leaf l false).setNeg q = .leaf l true ∧ (Filter.grp a fs false).setNeg q = .grp a fs true := by
  simp [Filter.setNeg, hq]

/-- the involution fails under the old "set the mark" behaviour -/
example : ((Filter.leaf leafA false).setNeg { Quirks.current with negOr := true }).setNeg
    { Quirks.current with negOr := true } = .leaf leafA true := by
  simp [Filter.setNeg]

/-- `Filter.print` writes at most one `Negate:` line per node: the number of `Negate:` lines is the
    number of marked nodes (so at most the number of nodes), and no two `Negate:` lines follow
    each other directly. -/
theorem negate_printed_once (f : Filter) :
    (emit f).countP Tok.isNeg = negCount f ∧ negCount f ≤ nodeCount f ∧ noNegNeg (emit f) = true :=
  ⟨countP_emit f, negCount_le f, (emit_shape f).1⟩

example : (emit tree3).countP Tok.isNeg = 5 ∧ nodeCount tree3 = 7 := by
  simp [tree3, emit, emitList, Tok.isNeg, nodeCount, nodeCountList, List.countP_cons]

/-! ## 8. what a query reads of a request -/

/-- The rows a data query returns depend only on the filter stack, the sort fields, limit, offset,
    authorised user, backends, table name and output format of the request; two requests that
    agree on these give the same result.  Together with the round trip of the filter stack this is
    "the serialised request selects the same rows". -/
theorem semantics_preserved (m : EvalMode) (s : Schema) (ds : Dataset) (t : Table) (r1 r2 : Request)
    (hf : r1.filter = r2.filter) (hs : r1.sort = r2.sort) (hl : r1.limit = r2.limit)
    (ho : r1.offset = r2.offset) (ha : r1.authUser = r2.authUser) (hb : r1.backends = r2.backends)
    (ht : r1.table = r2.table) (hfmt : r1.outFmt = r2.outFmt) :
    dataQuery m s ds t r1 = dataQuery m s ds t r2 := by
  simp only [dataQuery, selectBackends_congr ds t r1 r2 hb,
    gatherRows_congr m _ t r1 r2 hf hs hl ho ha ht hfmt, hs, hl, ho]

/-- The same for Stats queries: they read the filter stack, the stats entries, the columns, the
    authorised user and the backends. -/
theorem semantics_preserved_stats (m : StatsMode) (s : Schema) (ds : Dataset) (t : Table)
    (r1 r2 : Request) (hf : r1.filter = r2.filter) (hs : r1.stats = r2.stats)
    (hc : r1.columns = r2.columns) (ha : r1.authUser = r2.authUser) (hb : r1.backends = r2.backends) :
    statsQuery m s ds t r1 = statsQuery m s ds t r2 := by
  simp only [statsQuery, selectBackends_congr ds t r1 r2 hb, gatherStats_congr m _ t r1 r2 _ hf hs ha, hs, hc]

/-- non-vacuity: two different requests that agree on everything a query reads -/
example : ({ table := "hosts", keepAlive := true } : Request).filter = ({ table := "hosts", fixed16 := true } : Request).filter
    ∧ ({ table := "hosts", keepAlive := true } : Request).keepAlive ≠ ({ table := "hosts", fixed16 := true } : Request).keepAlive := by
  simp

/-! ## 9. the token machine is the header-line parser -/

/-- `strconv.Atoi` reads the number of a printed group line back. -/
theorem atoi_reads_printed_number (n : Nat) : atoi? (toString n) = some (n : Int) := atoi_toString n

/-- Parsing the printed line `And: n` / `Or: n` does to the filter stack exactly what the `grp`
    step does (including failure on a too short stack), and touches nothing else of the request. -/
theorem parser_step_grp (o : ParseOpts) (t : Table) (req : Request) (a : Bool) (n : Nat) :
    (parseHeaderLine o t req ((if a then "And: " else "Or: ") ++ toString n)).toOption
      = (step o.q req.filter (.grp a n)).map (fun f => { req with filter := f }) := by
  cases a
  · simp only [Bool.false_eq_true, if_false, headerLine_or, toOption_map,
      groupOp_eq_step o.q false (toString n) n req.filter (atoi_toString n)]
  · simp only [if_true, headerLine_and, toOption_map,
      groupOp_eq_step o.q true (toString n) n req.filter (atoi_toString n)]

/-- Parsing the printed line `Negate:` is the `neg` step. -/
theorem parser_step_neg (o : ParseOpts) (t : Table) (req : Request) :
    (parseHeaderLine o t req "Negate:").toOption
      = (step o.q req.filter .neg).map (fun f => { req with filter := f }) := by
  rw [headerLine_negate, toOption_map, negateTop_eq_step]

/-- A `Filter:` line whose text parses to the leaf `l` is the `leaf l` step: it pushes the
    unmarked leaf (and counts one more filter line). -/
theorem parser_step_leaf (o : ParseOpts) (t : Table) (req : Request) (v : String) (l : Leaf)
    (h : parseFilterLeaf o t (trimLeftSpaces (" " ++ v)) = .ok l) :
    ∃ r, parseHeaderLine o t req ("Filter: " ++ v) = .ok r ∧ step o.q req.filter (.leaf l) = some r.filter
      ∧ r = { req with filter := r.filter, numFilter := req.numFilter + 1 } := by
  refine ⟨_, by rw [headerLine_filter, h]; rfl, rfl, rfl⟩

/-- `StatsAnd: n` / `StatsOr: n` over `n > 0` counter entries groups them like `And: n` / `Or: n`
    groups filters (the Stats stack machine is the same machine on counters). -/
theorem parser_step_stats_grp (o : ParseOpts) (t : Table) (a : Bool)
    (keep : List StatsEntry) (fs : List Filter) (hne : fs ≠ []) :
    statsGroupOp o t a (toString fs.length) (keep ++ fs.map StatsEntry.counter)
      = .ok (keep ++ [.counter (.grp a fs false)]) :=
  statsGroupOp_counters o t a _ keep fs hne (atoi_toString fs.length)

/-- `StatsNegate:` on a counter toggles the mark of its tree like `Negate:` does. -/
theorem parser_step_stats_neg (q : Quirks) (f : Filter) :
    StatsEntry.setNeg q (.counter f) = .counter (f.setNeg q) := rfl

/-! ## 10. the printed text through the real line parser -/

/-- The printed group and negate lines are header lines in the sense of `LineOf`: `parseHeaderLines`
    passes them on untrimmed and they act as the corresponding token. -/
theorem printed_lines_are_tokens (o : ParseOpts) (t : Table) (a : Bool) (n : Nat) :
    LineOf o t ((if a then "And: " else "Or: ") ++ toString n) (.grp a n) ∧ LineOf o t "Negate:" .neg :=
  ⟨lineOf_grp o t a n, lineOf_neg o t⟩

/-- Feeding the lines of a printed filter tree to the header-line parser (`parseHeaderLines`, the
    loop of `NewRequest`) puts exactly this tree on top of the filter stack.

    Partial: it assumes that every leaf line reads back as its leaf (`hll`: the text `ll l` is the
    line `Filter.print` writes for `l`, and `parseHeaderLine` turns it into `l`).  This leaf-level
    round trip is not proved here and does not hold for arbitrary `Leaf` records (the number, the
    compiled regular expression and the optional-flags copy must be the ones the parser computes from
    the text, and operators rewritten by the optimiser print differently); everything above the
    leaves — groups of any depth and width, negation marks — is covered unconditionally. -/
theorem printed_filter_parses_partial (o : ParseOpts) (t : Table) (hq : o.q.negOr = false)
    (f : Filter) (wf : WellFormed f) (ll : Leaf → String)
    (hll : ∀ l, Tok.leaf l ∈ emit f → ll l ++ "\n" = l.printLine "Filter" ∧ LineOf o t (ll l) (.leaf l))
    (req : Request) :
    Filter.print false f = String.join (((emit f).map (tokHeader ll)).map (· ++ "\n"))
    ∧ (parseHeaderLines o t req ((emit f).map (tokHeader ll))).toOption.map (·.filter)
        = some (req.filter ++ [f]) := by
  constructor
  · rw [print_emit false f wf, lines, List.map_map]
    congr 1
    apply List.map_congr_left
    intro tok htok
    exact (tokHeader_line ll tok (fun l e => (hll l (e ▸ htok)).1)).symm
  · rw [parseHeaderLines_run o t (tokHeader ll) (emit f), run_emit o.q hq f wf]
    intro tok htok
    cases tok with
    | leaf l => exact (hll l htok).2
    | grp a n => exact lineOf_grp o t a n
    | neg => exact lineOf_neg o t

private def nameCol : Column := { name := "name", dtype := .str, storage := .loc }
private def hostsT : Table := { name := "hosts", cols := [nameCol] }
private def opts0 : ParseOpts := { optimize := false, q := Quirks.current }
private def leafN : Leaf := { col := nameCol, op := .eq, sval := "a" }

private theorem leafN_line : LineOf opts0 hostsT "Filter: name = a" (.leaf leafN) := by
  refine ⟨by decide, by decide, ?_⟩
  intro req
  have e : ("Filter: name = a" : String) = "Filter: " ++ "name = a" := by decide
  have p : parseFilterLeaf opts0 hostsT (trimLeftSpaces (" " ++ "name = a")) = .ok leafN := by rfl
  rw [e, headerLine_filter, p]
  rfl

/-- non-vacuity of the leaf hypothesis: a concrete table, a concrete leaf line, a negated group of
    a negated and a plain leaf; the printed lines parse back to the tree -/
example : (parseHeaderLines opts0 hostsT {}
      ["Filter: name = a", "Negate:", "Filter: name = a", "And: 2", "Negate:"]).toOption.map (·.filter)
    = some [.grp true [.leaf leafN true, .leaf leafN false] true] := by
  have h := (printed_filter_parses_partial opts0 hostsT rfl
    (.grp true [.leaf leafN true, .leaf leafN false] true) (by simp [WellFormed, WellFormedList])
    (fun _ => "Filter: name = a")
    (by
      intro l hl
      have : l = leafN := by
        simp [emit, emitList] at hl
        exact hl
      subst this
      exact ⟨by decide, leafN_line⟩) {}).2
  simp only [emit, emitList, tokHeader, List.map, List.cons_append, List.nil_append, List.append_nil,
    if_true, List.length_cons, List.length_nil] at h
  exact h

end Lmd.C17
