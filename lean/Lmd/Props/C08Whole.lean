/-
  C08 (whole answer) — "AuthUser never reveals objects the user is not a contact of."

  Whole-answer non-disclosure for `dataQuery` / `statsQuery` (all selected backends, index pre-selection,
  early cut, `Sort:` / `Limit:` / `Offset:`), on top of the per-row statements of Lmd/Props/C08.lean:
  1. every row of an answer satisfies the visibility specification `C08.mayView`;
  2. Stats with `AuthUser:` aggregate exactly the rows the plain data request with the same user returns;
  3. the answer grows with the contact relation; a contact of nothing sees nothing;
  4. strict against loose `ServiceAuthorization` / `GroupAuthorization`;
  5. non-interference: the answer is a function of the visible rows.
  `obs h = (h.r, h.keys)` is what a client sees of a returned row.
  Helper lemmas: Lmd/Lemmas/AuthWholeLemmas.lean.
-/
import Lmd.Lemmas.AuthWholeLemmas

namespace Lmd.C08Whole
open Lmd Lmd.C08 Lmd.Sort Lmd.Union Lmd.C05 Lmd.AuthWhole

/-- the context in which the rows of backend `b` are tested -/
abbrev ctxOf (s : Schema) (ds : Dataset) (b : Backend) : Ctx := { schema := s, ds := ds, b := b }

/-! ## 1. every row of the answer is visible -/

/-- For every request, every evaluation mode (index pre-selection, negation push-down, early cut, any quirk
    setting), every `Sort:` / `Limit:` / `Offset:` and every store: each row of the answer satisfies the
    visibility specification `mayView` for the request's `AuthUser`, evaluated on the backend the row is
    attributed to.  `mayView` restricts the nine tables of `C08.authTables` (hosts, services, hostgroups,
    servicegroups, hostsbygroup, servicesbygroup, servicesbyhostgroup, downtimes, comments). -/
theorem answer_only_visible (m : EvalMode) (s : Schema) (ds : Dataset) (t : Table) (req : Request) :
    ∀ h ∈ (dataQuery m s ds t req).hits, mayView (ctxOf s ds h.b) t req.authUser h.r = true := by
  intro h hh
  have hs := (C01Ops.query_sound m s ds t req h hh).2.2
  rw [Lemmas.selects, Bool.and_eq_true, checkAuth_eq_mayView] at hs
  exact hs.2

/-- The same for the sorted pool the window is cut from (what `Limit:` / `Offset:` paging walks through):
    it holds visible rows only. -/
theorem pool_only_visible (m : EvalMode) (s : Schema) (ds : Dataset) (t : Table) (req : Request) :
    ∀ h ∈ (dataQuery m s ds t req).pool, mayView (ctxOf s ds h.b) t req.authUser h.r = true := by
  intro h hh
  by_cases ho : req.offset ≤ totalOf m s ds t req
  · rw [dataQuery_pool m s ds t req ho, List.mem_mergeSort] at hh
    obtain ⟨b, _, hin⟩ := (Lemmas.mem_collected_iff m s ds t req h).mp hh
    have hb : h.b = b := (C01.hit_values_unchanged m _ t req h hin).2
    subst hb
    exact auth_sound m _ t req h hin
  · rw [(dataQuery_beyond m s ds t req (Nat.lt_of_not_le ho)).2] at hh
    cases hh

/-- Headline, hosts: a host in the answer to `AuthUser: u` exists on its backend and its (last) row there
    names `u` among its contacts. -/
theorem answer_hosts_only_contacts (m : EvalMode) (s : Schema) (ds : Dataset) (t : Table) (req : Request)
    (ht : t.name = "hosts") (hu : req.authUser ≠ "") :
    ∀ h ∈ (dataQuery m s ds t req).hits,
      ∃ hr, hostRow (ctxOf s ds h.b) (h.r.str t "name") = some hr ∧ req.authUser ∈ hr.strList "contacts" := by
  intro h hh
  have := answer_only_visible m s ds t req h hh
  simp only [mayView, hu, if_false, ht] at this
  exact (viewHost_iff _ _ _).1 this

/-- Headline, services: a service in the answer to `AuthUser: u` is viewable in the sense of
    `C08.viewService` (strict: the service names `u`; loose: its host exists and host or service names `u`). -/
theorem answer_services_only_contacts (m : EvalMode) (s : Schema) (ds : Dataset) (t : Table) (req : Request)
    (ht : t.name = "services") (hu : req.authUser ≠ "") :
    ∀ h ∈ (dataQuery m s ds t req).hits, h.r.str t "description" ≠ "" →
      viewService (ctxOf s ds h.b) req.authUser (h.r.str t "host_name") (h.r.str t "description") = true := by
  intro h hh hd
  have := answer_only_visible m s ds t req h hh
  simp only [mayView, hu, if_false, ht, viewObject, hd] at this
  exact this

/-- What the model does for every other table (contacts, status, timeperiods, commands, backends, log,
    ...): `mayView` accepts every row and the whole answer is the one given without `AuthUser:`. -/
theorem answer_other_tables_unrestricted (m : EvalMode) (s : Schema) (ds : Dataset) (t : Table) (req : Request)
    (ht : t.name ∉ authTables) :
    (∀ (cx : Ctx) (r : Row), mayView cx t req.authUser r = true) ∧
    dataQuery m s ds t req = dataQuery m s ds t { req with authUser := "" } := by
  constructor
  · intro cx r
    rw [← checkAuth_eq_mayView]
    exact checkAuth_other cx t _ r ht
  · have hg : (fun b => gatherRows m (ctxOf s ds b) t req) =
        (fun b => gatherRows m (ctxOf s ds b) t { req with authUser := "" }) :=
      funext (fun b => no_contacts_unaffected m _ t req ht)
    unfold dataQuery
    simp only [ctxOf] at hg
    simp only [hg]
    rfl

/-! ## 2. Stats see what the data request sees -/

/-- Flat Stats (no columns) with `AuthUser: u`, not crashing, rows counted flat (`FlatCounting`, see
    C05Whole section 0): the rows `D` the plain data request with the same user returns are all visible to
    `u`, their number is the `total` of that request, and the one Stats line holds, slot by slot, the
    accumulator that has seen exactly the rows `D` - each counter is the number of rows of `D` its filter
    holds for (`C05Whole.counter_prints_count`), each aggregate is taken over the values of `D`.
    Restricted by `FlatCounting` as `C05Whole.stats_is_fold_of_data_partial` is. -/
theorem stats_only_visible_partial (m : StatsMode) (s : Schema) (ds : Dataset) (t : Table) (req : Request)
    (hflat : FlatCounting m t req) (hcols : req.columns = []) (hc : (statsQuery m s ds t req).crash = false) :
    (∀ h ∈ (dataQuery (dataMode m) s ds t (dataReq req)).hits,
      mayView (ctxOf s ds h.b) t req.authUser h.r = true) ∧
    (dataQuery (dataMode m) s ds t (dataReq req)).total =
      (dataQuery (dataMode m) s ds t (dataReq req)).hits.length ∧
    (statsQuery m s ds t req).rows =
      [("", req.stats.map (fun e => slotOf m.q e
        ((dataQuery (dataMode m) s ds t (dataReq req)).hits.map (hitView s ds t))))] :=
  ⟨answer_only_visible (dataMode m) s ds t (dataReq req), dataReq_total m s ds t req,
    C05Whole.stats_is_fold_of_data_partial m s ds t req hflat hcols hc⟩

/-- The same without side condition for the specification evaluation of Stats (no grouping optimiser,
    Boolean filter semantics; any quirks, with or without index pre-selection). -/
theorem stats_only_visible (m : StatsMode) (hg : m.grouped = false) (hp : m.pushDown = false)
    (s : Schema) (ds : Dataset) (t : Table) (req : Request)
    (hcols : req.columns = []) (hc : (statsQuery m s ds t req).crash = false) :
    (∀ h ∈ (dataQuery (dataMode m) s ds t (dataReq req)).hits,
      mayView (ctxOf s ds h.b) t req.authUser h.r = true) ∧
    (dataQuery (dataMode m) s ds t (dataReq req)).total =
      (dataQuery (dataMode m) s ds t (dataReq req)).hits.length ∧
    (statsQuery m s ds t req).rows =
      [("", req.stats.map (fun e => slotOf m.q e
        ((dataQuery (dataMode m) s ds t (dataReq req)).hits.map (hitView s ds t))))] :=
  stats_only_visible_partial m s ds t req (flatCounting_spec m t req hg hp) hcols hc

/-- The printed values: every counter prints the number of visible returned rows its filter holds for. -/
theorem stats_counter_counts_visible_partial (m : StatsMode) (s : Schema) (ds : Dataset) (t : Table)
    (req : Request) (hflat : FlatCounting m t req) (hcols : req.columns = [])
    (hc : (statsQuery m s ds t req).crash = false) :
    (statsQuery m s ds t req).rows.map (fun p => p.2.map Acc.final) =
      [req.stats.map (fun e => match e with
        | .counter f => ((((dataQuery (dataMode m) s ds t (dataReq req)).hits.filter
            (fun h => sem m.q (hitView s ds t h) f)).length : Int), 1)
        | e => (slotOf m.q e ((dataQuery (dataMode m) s ds t (dataReq req)).hits.map (hitView s ds t))).final)] := by
  rw [C05Whole.stats_is_fold_of_data_partial m s ds t req hflat hcols hc]
  simp only [List.map_cons, List.map_nil, List.map_map, List.cons.injEq, and_true]
  apply List.map_congr_left
  intro e _
  cases e with
  | counter f =>
    simp only [Function.comp_apply, C05Whole.counter_prints_count, List.filter_map, List.length_map,
      Function.comp_def]
  | agg k c n => rfl

/-- Grouped Stats (`Columns:` + `Stats:`) with `AuthUser: u`, not crashing, rows counted flat: every group
    key of the answer is the key of at least one returned row that is VISIBLE to `u` - no line is created
    by a row the user may not see, so group names disclose nothing.  Conversely every visible returned row
    has its line. -/
theorem stats_groups_only_visible_partial (m : StatsMode) (s : Schema) (ds : Dataset) (t : Table) (req : Request)
    (hflat : FlatCounting m t req) (hcols : req.columns ≠ []) (hc : (statsQuery m s ds t req).crash = false) :
    ∀ key, key ∈ keys (statsQuery m s ds t req).rows ↔
      ∃ h ∈ (dataQuery (dataMode m) s ds t (dataReq req)).hits,
        hitKey s ds t req h = key ∧ mayView (ctxOf s ds h.b) t req.authUser h.r = true := by
  intro key
  rw [(C05Whole.stats_groups_of_data_partial m s ds t req hflat hcols hc).2.1 key]
  constructor
  · rintro ⟨h, hh, hk⟩
    exact ⟨h, hh, hk, answer_only_visible (dataMode m) s ds t (dataReq req) h hh⟩
  · rintro ⟨h, hh, hk, _⟩
    exact ⟨h, hh, hk⟩

/-! ## 3. monotonicity in the contact relation -/

/-- The visibility specification is monotone.  If `u'` on store `cx'` is a contact of at least the hosts
    and services `u` is a contact of on store `cx`, existing hosts still exist, the group tables list the
    same members and the settings are equal or looser (`AuthWhole.ContactLe`), then every object `u` may
    view on `cx`, `u'` may view on `cx'` - for all nine authorised tables, for rows that carry the same names. -/
theorem mayView_monotone (cx cx' : Ctx) (u u' : String) (hle : ContactLe cx cx' u u') (hu : u ≠ "")
    (t : Table) (r r' : Row) (hk : ∀ n, r'.str t n = r.str t n) (hv : mayView cx t u r = true) :
    mayView cx' t u' r' = true := mayView_mono hle hu t r r' hk hv

/-- Whole answers, two users on one store: if on every selected, available backend `u'` is named as a
    contact wherever `u` is (`AuthWhole.Dominates`), then without `Limit:` / `Offset:` every row of the
    answer for `u` is a row of the answer for `u'` (any mode, any `Sort:`), and without `Sort:` the answer
    for `u` is a sublist of the answer for `u'`.  (With a `Limit:` the window of `u'` may of course hold
    other rows.) -/
theorem answer_monotone_in_contacts (m : EvalMode) (s : Schema) (ds : Dataset) (t : Table) (req : Request)
    (u' : String) (hu : req.authUser ≠ "") (hl : req.limit = none) (ho : req.offset = 0)
    (hdom : ∀ b ∈ availBackends ds t req, Dominates (ctxOf s ds b) req.authUser u') :
    (∀ h ∈ (dataQuery m s ds t req).hits, h ∈ (dataQuery m s ds t { req with authUser := u' }).hits) ∧
    (req.sort = [] →
      (dataQuery m s ds t req).hits.Sublist (dataQuery m s ds t { req with authUser := u' }).hits) := by
  apply dataQuery_contained m s ds ds t req { req with authUser := u' } hl ho hl ho rfl rfl
  intro b hb
  apply gatherRows_hits_sublist ⟨rfl, rfl⟩ m t req { req with authUser := u' } rfl rfl
    (peerCut_of_no_limit m req hl) (peerCut_of_no_limit m { req with authUser := u' } hl)
  intro r hr
  rw [checkAuth_eq_mayView] at hr ⊢
  exact mayView_mono (contactLe_of_dominates (hdom b hb)) hu t r r (fun _ => rfl) hr

/-- A user who is named as a contact by no host and no service of the selected, available backends gets
    no row of any of the nine authorised tables (hosts, services, the group and by-group tables, comments,
    downtimes), in every mode, and `total` is 0. -/
theorem no_contact_no_rows (m : EvalMode) (s : Schema) (ds : Dataset) (t : Table) (req : Request)
    (ht : t.name ∈ authTables) (hu : req.authUser ≠ "")
    (hn : ∀ b ∈ availBackends ds t req, NoContact (ctxOf s ds b) req.authUser) :
    (dataQuery m s ds t req).hits = [] ∧ (dataQuery m s ds t req).total = 0 := by
  apply dataQuery_nil
  intro b hb r
  rw [checkAuth_eq_mayView]
  exact mayView_noContact (hn b hb) hu t ht r

/-- ... and Stats on these tables never crash for this user and answer with all slots untouched: one line
    of zero counters (empty aggregates) without `Columns:`, no line at all with `Columns:` - in every
    Stats mode (grouping optimiser and index pre-selection included). -/
theorem no_contact_zero_stats (m : StatsMode) (s : Schema) (ds : Dataset) (t : Table) (req : Request)
    (ht : t.name ∈ authTables) (hu : req.authUser ≠ "")
    (hn : ∀ b ∈ availBackends ds t req, NoContact (ctxOf s ds b) req.authUser) :
    (statsQuery m s ds t req).crash = false ∧
    (statsQuery m s ds t req).rows =
      if req.columns.isEmpty then [("", req.stats.map (fun e => Acc.init e.accKind))] else [] := by
  apply statsQuery_nil
  intro b hb r
  rw [checkAuth_eq_mayView]
  exact mayView_noContact (hn b hb) hu t ht r

/-- an untouched counter prints 0 -/
theorem init_counter_prints_zero : (Acc.init .counter).final = (0, 1) := rfl

/-! ## 4. strict against loose -/

/-- `GroupAuthorization`: on the same store the strict answer is contained in the loose one, for every
    table and whatever `ServiceAuthorization` says: without `Limit:` / `Offset:` every strict row is a loose
    row, and without `Sort:` the strict answer is a sublist (same order) of the loose answer. -/
theorem group_strict_sub_loose (m : EvalMode) (s : Schema) (ds : Dataset) (t : Table) (req : Request)
    (sl : Bool) (hu : req.authUser ≠ "") (hl : req.limit = none) (ho : req.offset = 0) :
    (∀ h ∈ (dataQuery m s (setAuth ds sl false) t req).hits, h ∈ (dataQuery m s (setAuth ds sl true) t req).hits) ∧
    (req.sort = [] →
      (dataQuery m s (setAuth ds sl false) t req).hits.Sublist (dataQuery m s (setAuth ds sl true) t req).hits) := by
  apply dataQuery_contained m s (setAuth ds sl false) (setAuth ds sl true) t req req hl ho hl ho
    (by rw [avail_setAuth, avail_setAuth]) rfl
  intro b _
  apply gatherRows_hits_sublist (sameData_setAuth s ds b sl false sl true) m t req req rfl rfl
    (peerCut_of_no_limit m req hl) (peerCut_of_no_limit m req hl)
  intro r hr
  rw [checkAuth_eq_mayView] at hr ⊢
  refine mayView_mono (contactLe_of_sameData (sameData_setAuth s ds b sl false sl true) _ id
    (fun h => by cases h) ?_) hu t r r (fun _ => rfl) hr
  intro h1 h2
  rw [show (ctxOf s (setAuth ds sl false) b).ds.serviceAuthLoose = sl from rfl] at h1
  rw [show (ctxOf s (setAuth ds sl true) b).ds.serviceAuthLoose = sl from rfl, h1] at h2
  cases h2

/-- `ServiceAuthorization`: the strict answer is contained in the loose one provided every service that
    names the user has its host row on the same backend.  Partial: without this hypothesis the statement
    is false in the model (and in lmd): loose mode looks the host up first and refuses a service whose
    host is missing, strict mode does not look at the host - see the counterexample below. -/
theorem service_strict_sub_loose_partial (m : EvalMode) (s : Schema) (ds : Dataset) (t : Table) (req : Request)
    (gl : Bool) (hu : req.authUser ≠ "") (hl : req.limit = none) (ho : req.offset = 0)
    (hhost : ∀ b ∈ availBackends ds t req, ∀ x y, svcContact (ctxOf s ds b) req.authUser x y = true →
      (hostRow (ctxOf s ds b) x).isSome = true) :
    (∀ h ∈ (dataQuery m s (setAuth ds false gl) t req).hits, h ∈ (dataQuery m s (setAuth ds true gl) t req).hits) ∧
    (req.sort = [] →
      (dataQuery m s (setAuth ds false gl) t req).hits.Sublist (dataQuery m s (setAuth ds true gl) t req).hits) := by
  apply dataQuery_contained m s (setAuth ds false gl) (setAuth ds true gl) t req req hl ho hl ho
    (by rw [avail_setAuth, avail_setAuth]) rfl
  intro b hb
  rw [avail_setAuth] at hb
  apply gatherRows_hits_sublist (sameData_setAuth s ds b false gl true gl) m t req req rfl rfl
    (peerCut_of_no_limit m req hl) (peerCut_of_no_limit m req hl)
  intro r hr
  rw [checkAuth_eq_mayView] at hr ⊢
  refine mayView_mono (contactLe_of_sameData (sameData_setAuth s ds b false gl true gl) _ (fun _ => rfl)
    id ?_) hu t r r (fun _ => rfl) hr
  intro _ _ x y hx
  exact hhost b hb x y hx

/-- Where the two `ServiceAuthorization` modes coincide, object by object: for a service whose host exists,
    strict and loose agree iff "host contact implies service contact" holds for this user and service.
    (It is the HOST contacts that gain access in loose mode; that every service contact is also a host
    contact does not make the modes agree.) -/
theorem service_modes_coincide_iff (cx cxL : Ctx) (u h sv : String) (hd : SameData cx cxL)
    (hs : cx.ds.serviceAuthLoose = false) (hL : cxL.ds.serviceAuthLoose = true)
    (hex : (hostRow cx h).isSome = true) :
    viewService cx u h sv = viewService cxL u h sv ↔
      (hostContact cx u h = true → svcContact cx u h sv = true) := by
  unfold viewService
  rw [← hostRow_sd hd, ← hostContact_sd hd, ← svcContact_sd hd]
  simp only [hs, hL, hex, Bool.false_eq_true, if_false, if_true, Bool.true_and]
  cases hostContact cx u h <;> cases svcContact cx u h sv <;> simp

/-- Where the two `GroupAuthorization` modes coincide: on a member list that is fully visible or fully
    invisible (an empty group is invisible in both modes). -/
theorem group_modes_coincide {α : Type} (view : α → Bool) (ms : List α)
    (h : ms.all view = true ∨ ms.all (fun x => !view x) = true) :
    viewMembers false view ms = viewMembers true view ms := by
  unfold viewMembers
  simp only [Bool.false_eq_true, if_false, if_true]
  cases ms with
  | nil => rfl
  | cons a as =>
    rcases h with h | h
    · simp only [List.all_cons, Bool.and_eq_true] at h
      simp [h.1, h.2]
    · simp only [List.all_cons, Bool.and_eq_true, Bool.not_eq_true', List.all_eq_true] at h
      have hany : as.any view = false := by
        rw [List.any_eq_false]
        intro x hx
        simp [h.2 x hx]
      simp [h.1, hany]

/-- Whole answers coincide (every mode, every `Sort:` / `Limit:` / `Offset:`, `total` included) whenever
    the two settings give the same verdict on every row of the selected, available backends. -/
theorem modes_coincide_answer (m : EvalMode) (s : Schema) (ds : Dataset) (t : Table) (req : Request)
    (sl gl sl' gl' : Bool)
    (ha : ∀ b ∈ availBackends ds t req, ∀ r,
      mayView (ctxOf s (setAuth ds sl gl) b) t req.authUser r =
        mayView (ctxOf s (setAuth ds sl' gl') b) t req.authUser r) :
    dataQuery m s (setAuth ds sl gl) t req = dataQuery m s (setAuth ds sl' gl') t req := by
  apply dataQuery_setAuth_eq
  intro b hb r
  rw [checkAuth_eq_mayView, checkAuth_eq_mayView]
  exact ha b hb r

/-! ## 5. non-interference -/

/-- two stores show user `u` the same rows of table `t`, and these rows read the same in both -/
def SameVisible (cx cx' : Ctx) (t : Table) (u : String) : Prop :=
  (tableRows cx t).filter (mayView cx t u) = (tableRows cx' t).filter (mayView cx' t u) ∧
  ∀ r ∈ (tableRows cx t).filter (mayView cx t u), mkView cx t r = mkView cx' t r

/-- How the model orders filter and authorisation: the row loop tests `filter && auth` row by row (the
    filter first, the authorisation test only for rows that pass it), and since both are tests of the one
    row this is the same as filtering the VISIBLE rows: with a full scan the rows that reach sorting,
    counting (`total`), the per-backend cut and the `Limit:` / `Offset:` window are exactly the visible
    rows that pass the filter, in table order.  The filter's verdict on an invisible row is never used. -/
theorem filter_on_visible_rows (m : EvalMode) (hi : m.useIndex = false) (cx : Ctx) (t : Table) (req : Request) :
    matchingRows m cx t req.filter req.authUser =
      ((tableRows cx t).filter (mayView cx t req.authUser)).filter
        (fun r => rowMatches m (mkView cx t r) req.filter) := by
  rw [matchingRows_scan m hi]
  have : checkAuth cx t req.authUser = mayView cx t req.authUser := funext (checkAuth_eq_mayView cx t _)
  rw [this]

/-- Non-interference, one backend, full scan: two stores that agree on the rows visible to the user give
    the same rows with the same sort keys in the same order, the same per-backend cut and the same
    per-backend `total` - whatever the invisible rows of the table are, and in whatever number. -/
theorem backend_noninterference (m : EvalMode) (hi : m.useIndex = false) (cx cx' : Ctx) (t : Table)
    (req : Request) (h : SameVisible cx cx' t req.authUser) :
    (gatherRows m cx t req).hits.map obs = (gatherRows m cx' t req).hits.map obs ∧
    (gatherRows m cx t req).total = (gatherRows m cx' t req).total :=
  gatherRows_visAgree m hi req (visAgree_of_mayView h.1 h.2)

/-- Non-interference, whole data query, full scan, every `Sort:` / `Limit:` / `Offset:`, with or without
    early cut: if the selected, available backends of `ds'` are those of `ds` with other content (`f`) and
    each pair agrees on what the user sees, the two answers show the same rows with the same sort keys in
    the same order and the same `total`.  An invisible row influences neither `total` nor the window.
    (With index pre-selection the candidates are looked up through the group tables as well; the statement
    is made for the full scan.) -/
theorem answer_noninterference (m : EvalMode) (hi : m.useIndex = false) (s : Schema) (ds ds' : Dataset)
    (t : Table) (req : Request) (f : Backend → Backend)
    (hav : availBackends ds' t req = (availBackends ds t req).map f)
    (hvis : ∀ b ∈ availBackends ds t req, SameVisible (ctxOf s ds b) (ctxOf s ds' (f b)) t req.authUser) :
    (dataQuery m s ds' t req).total = (dataQuery m s ds t req).total ∧
    (dataQuery m s ds' t req).hits.map obs = (dataQuery m s ds t req).hits.map obs :=
  dataQuery_visAgree m hi s ds ds' t req f hav (fun b hb => visAgree_of_mayView (hvis b hb).1 (hvis b hb).2)

/-- Non-interference for Stats, full scan, every Stats mode (grouping optimiser included), flat or grouped:
    under the same hypotheses the two Stats answers have the same lines and the same crash marker - no
    invisible row is counted, aggregated or opens a group. -/
theorem stats_noninterference (m : StatsMode) (hi : m.useIndex = false) (s : Schema) (ds ds' : Dataset)
    (t : Table) (req : Request) (f : Backend → Backend)
    (hav : availBackends ds' t req = (availBackends ds t req).map f)
    (hvis : ∀ b ∈ availBackends ds t req, SameVisible (ctxOf s ds b) (ctxOf s ds' (f b)) t req.authUser) :
    (statsQuery m s ds' t req).crash = (statsQuery m s ds t req).crash ∧
    (statsQuery m s ds' t req).rows = (statsQuery m s ds t req).rows :=
  statsQuery_visAgree m hi s ds ds' t req f hav (fun b hb => visAgree_of_mayView (hvis b hb).1 (hvis b hb).2)

/-- Instance of `SameVisible`: the same backend inside another dataset with the same authorisation
    settings (other backends added, removed or changed) - what one backend shows does not depend on the
    other backends. -/
theorem sameVisible_of_sameView {cx cx' : Ctx} (h : Lemmas.SameView cx cx') (t : Table) (u : String) :
    SameVisible cx cx' t u := by
  have e : mayView cx t u = mayView cx' t u := by
    funext r
    rw [← checkAuth_eq_mayView, ← checkAuth_eq_mayView, Lemmas.checkAuth_congr h]
  exact ⟨by rw [Lemmas.tableRows_congr h, e], fun r _ => Lemmas.mkView_congr h t r⟩

/-! ## non-vacuity -/

section Examples
open Lmd.Demo

/-- hosts h1 (alice, admin), h2 (admin); service (h1, s1) names alice and admin; one backend -/
def backendM : Backend :=
  { id := "m", name := "Site M",
    tables := [("hosts", [host "h1" ["alice", "admin"] [], host "h2" ["admin"] []]),
               ("services", [svc "h1" "s1" ["alice", "admin"]])] }
def dsM : Dataset := { backends := [backendM], serviceAuthLoose := false }
def hostsReq (u : String) : Request := { table := "hosts", authUser := u }

/-- `answer_only_visible` / `answer_monotone_in_contacts`: alice gets h1, admin gets h1 and h2 -/
example : ((dataQuery EvalMode.spec schema dsM hostsT (hostsReq "alice")).hits.map (fun h => h.r.str hostsT "name")) = ["h1"]
    ∧ ((dataQuery EvalMode.spec schema dsM hostsT (hostsReq "admin")).hits.map (fun h => h.r.str hostsT "name")) = ["h1", "h2"] := by
  decide

/-- the hypotheses of `answer_monotone_in_contacts`: admin is named wherever alice is -/
example : (hostsReq "alice").authUser ≠ "" ∧ (hostsReq "alice").limit = none ∧ (hostsReq "alice").offset = 0 ∧
    ∀ b ∈ availBackends dsM hostsT (hostsReq "alice"), Dominates (ctxOf schema dsM b) "alice" "admin" := by
  unfold Dominates; decide

/-- the hypotheses of `no_contact_no_rows` / `no_contact_zero_stats`: carol is named nowhere -/
example : hostsT.name ∈ authTables ∧ (hostsReq "carol").authUser ≠ "" ∧
    ∀ b ∈ availBackends dsM hostsT (hostsReq "carol"), NoContact (ctxOf schema dsM b) "carol" := by
  unfold NoContact; decide

/-- `Stats: name = h1`, `Stats: name != h1` asked by alice, flat and grouped by name -/
def statsReq : Request := { C05Whole.reqFlat with authUser := "alice" }
def statsReqG : Request := { C05Whole.reqGrouped with authUser := "alice" }

/-- the hypotheses of `stats_only_visible` hold; alice's counters are 1 and 0 (not 1 and 1): h2 is not counted -/
example : C05Whole.specMode.grouped = false ∧ C05Whole.specMode.pushDown = false ∧ statsReq.columns = [] ∧
    (statsQuery C05Whole.specMode schema dsM hostsT statsReq).crash = false ∧
    (statsQuery C05Whole.specMode schema dsM hostsT statsReq).rows.map (fun p => p.2.map Acc.final) = [[(1, 1), (0, 1)]] ∧
    (dataQuery (dataMode C05Whole.specMode) schema dsM hostsT (dataReq statsReq)).hits.length = 1 := by decide

/-- the hypotheses of `stats_groups_only_visible_partial` hold; the only group is h1, h2 opens no line -/
example : statsReqG.columns ≠ [] ∧ (statsQuery C05Whole.specMode schema dsM hostsT statsReqG).crash = false ∧
    keys (statsQuery C05Whole.specMode schema dsM hostsT statsReqG).rows = ["h1"] := by decide

/-- `ContactLe` (hypothesis of `mayView_monotone`) is satisfiable: alice below admin on backend M -/
example : ContactLe (ctxOf schema dsM backendM) (ctxOf schema dsM backendM) "alice" "admin" :=
  contactLe_of_dominates (by unfold Dominates; decide)

/-- a service whose host row is missing -/
def backendO : Backend := { id := "o", name := "Site O", tables := [("services", [svc "ghost" "s" ["alice"]])] }

/-- Counterexample to strict ⊆ loose for `ServiceAuthorization` without the host hypothesis: the orphan
    service is visible to alice in strict mode and hidden in loose mode. -/
example :
    mayView (ctxOf schema (setAuth { backends := [backendO] } false false) backendO) servicesT "alice"
      (svc "ghost" "s" ["alice"]) = true ∧
    mayView (ctxOf schema (setAuth { backends := [backendO] } true false) backendO) servicesT "alice"
      (svc "ghost" "s" ["alice"]) = false := by decide

/-- the host hypothesis of `service_strict_sub_loose_partial` holds where no service names the user (bob on
    the demo dataset is a host contact only); the theorem is not trivial there: loose mode shows bob the
    service (h2, s2) of his host, strict mode shows him no service -/
example : ∀ b ∈ availBackends (Demo.ds false) servicesT { table := "services", authUser := "bob" },
    ∀ x y, svcContact (ctxOf schema (Demo.ds false) b) "bob" x y = true →
      (hostRow (ctxOf schema (Demo.ds false) b) x).isSome = true := by
  have hn : ∀ b ∈ availBackends (Demo.ds false) servicesT { table := "services", authUser := "bob" },
      ∀ r ∈ b.rows "services", "bob" ∉ r.strList "contacts" := by decide
  intro b hb x y h
  rw [svcContact_false (cx := ctxOf schema (Demo.ds false) b) (hn b hb)] at h
  cases h

example :
    (dataQuery EvalMode.spec schema (setAuth (Demo.ds false) false false) servicesT
      { table := "services", authUser := "bob" }).hits.length = 0 ∧
    (dataQuery EvalMode.spec schema (setAuth (Demo.ds false) true false) servicesT
      { table := "services", authUser := "bob" }).hits.length = 1 := by decide

/-- `service_modes_coincide_iff`: its hypotheses hold for bob, host h2, service s2 - and the modes differ -/
example : SameData (Demo.cx false) (ctxOf schema (setAuth (Demo.ds false) true false) backendA) ∧
    (Demo.cx false).ds.serviceAuthLoose = false ∧ (hostRow (Demo.cx false) "h2").isSome = true ∧
    hostContact (Demo.cx false) "bob" "h2" = true ∧ svcContact (Demo.cx false) "bob" "h2" "s2" = false :=
  ⟨⟨rfl, rfl⟩, rfl, by decide, by decide, by decide⟩

/-- `group_modes_coincide`: a fully visible and a fully invisible member list; a mixed one differs -/
example : (["a", "b"].all (fun x => x != "c") = true) ∧ (["c", "c"].all (fun x => !(x != "c")) = true) ∧
    viewMembers false (fun x => x != "c") ["a", "c"] ≠ viewMembers true (fun x => x != "c") ["a", "c"] := by decide

/-- `answer_noninterference` / `stats_noninterference`: the demo dataset without its second (down) backend -/
example : SameVisible (Demo.cx false)
    (ctxOf schema { backends := [backendA], serviceAuthLoose := false } backendA) hostsT "alice" :=
  sameVisible_of_sameView (cx := Demo.cx false)
    (cx' := ctxOf schema { backends := [backendA], serviceAuthLoose := false } backendA)
    { schema := rfl, b := rfl, sal := rfl, gal := rfl } hostsT "alice"

example : availBackends ({ backends := [backendA], serviceAuthLoose := false } : Dataset) hostsT (hostsReq "alice") =
    (availBackends (Demo.ds false) hostsT (hostsReq "alice")).map id := by
  simp [availBackends, selectBackends, backendAvailable, hostsT, Demo.ds, backendA, backendB, hostsReq]

example : EvalMode.spec.useIndex = false ∧ C05Whole.specMode.useIndex = false := ⟨rfl, rfl⟩

end Examples

end Lmd.C08Whole
