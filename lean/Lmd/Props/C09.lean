/-
  C09 — no request and no backend reply crashes the daemon.

  Every function of the model is a total Lean function, so "the model terminates with a value" holds by
  construction for every input: `parseRequest`, `parseCommandHeaders`, `coerce`, `syncTable`, `getVal`,
  `statsQuery`, `sessionPlan`, `initAllTables` return for every text, every JSON value, every dataset.
  What is left to prove is that the value is never one of the markers the model uses for the places where
  the Go code can panic: a `Val.crash` value, `getFloat = none`, `StatsResult.crash = true`.

  1. `getFloat_total`            an aggregate is defined on every value that is not itself the marker.
  2. `coerce_no_crash` …         whatever a backend sends is stored as a proper value.
  3. `getVal_no_crash_local` …   which getters can yield the marker at all (`getVal_crash_iff`).
  4. `stats_no_crash` …          a Stats query never sets its crash flag on proper values.
  5. `parse_ok_wellformed`       an accepted request has its table and its sort columns.
  6. `command_headers_guarded`   a COMMAND with `Filter:`/`Stats:`/`WaitCondition:` is refused.
  7. `session_ends`              the connection loop ends with an answer per request or one error.
  8. `init_total`                a rebuild ends in an error or with a complete published set.

  Helper lemmas live in `Lmd.Lemmas.TotalLemmas`.
-/
import Lmd.Lemmas.TotalLemmas
import Lmd.Lemmas.Frame
import Lmd.Props.C11

namespace Lmd.C09
open Lmd Lmd.Total
open Lean (Json)

/-! ## 1. aggregates -/

/-- `GetFloat`, the value a `Stats: sum/avg/min/max` aggregates, is undefined (the Go getter panics)
    exactly when the column's value is the panic marker itself.  On every other value — numbers, strings
    (`Stats: sum name`), lists, custom variables, placeholders of missing references — it is a number. -/
theorem getFloat_total (v : View) (c : Column) :
    getFloat v c = none ↔ ∃ w, v.get c = .crash w := by
  unfold getFloat
  cases v.get c <;> simp

/-- non-vacuity: a string that spells a number counts as that number, any other string and a list as 0;
    only the marker is undefined -/
example : getFloat { get := fun _ => .s "1.5", flags := 0 } emptyColumn = some 1500
    ∧ getFloat { get := fun _ => .s "web01", flags := 0 } emptyColumn = some 0
    ∧ getFloat { get := fun _ => .sl ["a", "b"], flags := 0 } emptyColumn = some 0
    ∧ getFloat { get := fun _ => .crash "boom", flags := 0 } emptyColumn = none := by decide

/-! ## 2. backend values -/

/-- Whatever JSON value a backend delivers for a column of whatever type, lmd stores a proper value:
    `coerce` (the `interface2*` conversions) never produces the panic marker. -/
theorem coerce_no_crash (t : DataType) (j : Json) (w : String) : coerce t j ≠ .crash w :=
  (isCrash_false_iff _).1 (coerce_clean t j) w

/-- Every cell of a row built from a backend reply (`NewDataRow` / `UpdateValues`) is a proper value. -/
theorem coerceRow_no_crash (t : Table) (r : ReplyRow) (cell : String × Val)
    (h : cell ∈ (coerceRow t r).cells) (w : String) : cell.2 ≠ .crash w :=
  (isCrash_false_iff _).1 (coerceRow_clean t r cell h) w

/-- The same for a whole table after the initial synchronisation (`syncTable`) and for the complete cache
    of a backend including the rebuilt comment / downtime id lists (`syncBackend`): no stored cell is the
    panic marker, whatever the backend sent. -/
theorem synced_no_crash (s : Schema) (t : Table) (reply : List ReplyRow)
    (tables : List (String × List ReplyRow)) :
    (∀ r ∈ syncTable t reply, ∀ cell ∈ r.cells, ∀ w, cell.2 ≠ .crash w) ∧
    (∀ p ∈ syncBackend s tables, ∀ r ∈ p.2, ∀ cell ∈ r.cells, ∀ w, cell.2 ≠ .crash w) :=
  ⟨fun r hr cell hc => (isCrash_false_iff _).1 (syncTable_clean t reply r hr cell hc),
   fun p hp r hr cell hc => (isCrash_false_iff _).1 (syncBackend_clean s tables p hp r hr cell hc)⟩

/-- non-vacuity: a string where a number is expected, a number where a list is expected, an object where
    a string is expected — all are stored as values of the column type -/
example : (match coerce .int (Json.str "abc") with | .i 0 => true | _ => false) = true
    ∧ (match coerce .strList (Json.num 0) with | .sl [] => true | _ => false) = true
    ∧ (match coerce .int64List (Json.str "x") with | .il [] => true | _ => false) = true
    ∧ (match coerce .str (Json.bool true) with | .s "true" => true | _ => false) = true := by
  decide

/-! ## 3. getters -/

/-- A locally stored column never reads as the panic marker: for every table, every row whose stored cells
    are proper values (all rows built from backend replies are, see `synced_no_crash`), and every column
    with `storage = .loc` — including the lower-case shadow columns and columns without a stored cell. -/
theorem getVal_no_crash_local (cx : Ctx) (t : Table) (r : Row) (c : Column) (hs : c.storage = .loc)
    (hr : ∀ cell ∈ r.cells, ∀ w, cell.2 ≠ .crash w) (w : String) : getVal cx t r c ≠ .crash w :=
  (isCrash_false_iff _).1
    (getVal_loc_clean cx t r c hs (fun cell hc => (isCrash_false_iff _).2 (hr cell hc))) w

/-- The hypothesis on the row is needed: the model's rows can hold any value, a row holding the marker in
    a cell reads as the marker. -/
example : isCrash (getVal { schema := { tables := [] }, ds := { backends := [] }, b := { id := "a", name := "a" } }
      { name := "hosts", cols := [] } { cells := [("x", .crash "boom")] }
      { name := "x", dtype := .str, storage := .loc }) = true := by decide

/-- A reference column (`host_…` columns of services and the like) never reads as the panic marker when
    the schema satisfies `RefLocal`: the column it points to exists in the referenced table and is stored
    locally there; the rows of the backend hold proper values. -/
theorem getVal_no_crash_ref (cx : Ctx) (t : Table) (r : Row) (c : Column) (hs : c.storage = .ref)
    (hl : RefLocal cx.schema c = true)
    (hb : ∀ p ∈ cx.b.tables, ∀ r ∈ p.2, ∀ cell ∈ r.cells, ∀ w, cell.2 ≠ .crash w) (w : String) :
    getVal cx t r c ≠ .crash w :=
  (isCrash_false_iff _).1
    (getVal_ref_clean cx t r c hs hl
      (fun p hp r hr cell hc => (isCrash_false_iff _).2 (hb p hp r hr cell hc))) w

/-- A virtual column reads as the panic marker exactly when it is read at all (it is not an optional column
    the backend lacks) and `virtVal` does not model it. -/
theorem getVal_virt_crash_iff (cx : Ctx) (t : Table) (r : Row) (c : Column) (hs : c.storage = .virt) :
    (∃ w, getVal cx t r c = .crash w) ↔ present cx c = true ∧ virtVal cx t r c = none := by
  rw [← isCrash_iff, getVal_crash_iff]
  simp [hs]

/-- The limits of the model, precisely.  `getVal` yields the panic marker exactly when the column is read
    (not an optional column the backend lacks) and one of these holds:
    * a local column whose stored cell is the marker (never for rows built from backend replies);
    * a virtual column `virtVal` does not model (only `peer_key`, `peer_name`, `peer_section`, `empty`,
      `custom_variables`, `state_order`, `has_long_plugin_output`, `total_services` and the columns of the
      backends table are modelled);
    * a reference column whose referenced row exists and whose target column is missing from the referenced
      table, is itself a reference (nested references are not modelled), is an unmodelled virtual column, or
      is a local column whose stored cell is the marker.
    For the first two items of the last case and the nested reference the marker stands for "not modelled",
    not for a known panic of the Go code; the differential harness reports such requests as unsupported. -/
theorem getVal_crash_iff (cx : Ctx) (t : Table) (r : Row) (c : Column) :
    (∃ w, getVal cx t r c = .crash w) ↔
      present cx c = true ∧
      ((c.storage = .loc ∧ ∃ w, localVal t r c = .crash w) ∨
       (c.storage = .virt ∧ virtVal cx t r c = none) ∨
       (c.storage = .ref ∧ ∃ rr, refRow cx t r c.refTable = some rr ∧
          ((cx.table c.refTable).col? c.refCol = none ∨
           ∃ rc, (cx.table c.refTable).col? c.refCol = some rc ∧
             (rc.storage = .ref ∨
              (rc.storage = .virt ∧ virtVal cx (cx.table c.refTable) rr rc = none) ∨
              (rc.storage = .loc ∧ ∃ w, localVal (cx.table c.refTable) rr rc = .crash w))))) := by
  simp only [← isCrash_iff]
  exact Total.getVal_crash_iff cx t r c

/-- non-vacuity of the virtual case: `peer_key` is modelled, `lmd_version` is not -/
example : virtVal { schema := { tables := [] }, ds := { backends := [] }, b := { id := "a", name := "a" } }
      { name := "hosts", cols := [] } { cells := [] } { name := "lmd_version", dtype := .str, storage := .virt } = none
    ∧ isCrash (getVal { schema := { tables := [] }, ds := { backends := [] }, b := { id := "a", name := "a" } }
      { name := "hosts", cols := [] } { cells := [] } { name := "peer_key", dtype := .str, storage := .virt }) = false := by
  decide

/-! ## 4. Stats queries -/

/-- A Stats query does not crash (`StatsResult.crash = false`) whenever on every selected and available
    backend, on every row of the table, every aggregated column (`Stats: sum/avg/min/max col`) reads as a
    proper value — in every evaluation mode (index on or off, negation push-down on or off, grouped or flat
    counting). -/
theorem stats_no_crash (m : StatsMode) (s : Schema) (ds : Dataset) (t : Table) (req : Request)
    (h : ∀ b ∈ (selectBackends ds t req).peers, backendAvailable b t = true →
      ∀ r ∈ tableRows { schema := s, ds := ds, b := b } t,
        ∀ k col n, StatsEntry.agg k col n ∈ req.stats →
          ∀ w, getVal { schema := s, ds := ds, b := b } t r col ≠ .crash w) :
    (statsQuery m s ds t req).crash = false :=
  statsQuery_no_crash m s ds t req fun b hb ha r hr _ c hc => by
    obtain ⟨k, n, hm⟩ := mem_aggCols.1 hc
    exact (isCrash_false_iff _).2 (h b hb ha r hr k c n hm)

/-- Sharper: only the rows that are counted matter — those that pass the request's filter (evaluated as the
    mode says) and the authorisation check. -/
theorem stats_no_crash_counted (m : StatsMode) (s : Schema) (ds : Dataset) (t : Table) (req : Request)
    (h : ∀ b ∈ (selectBackends ds t req).peers, backendAvailable b t = true →
      ∀ r ∈ tableRows { schema := s, ds := ds, b := b } t,
        ((if m.pushDown then matchAll m.q (mkView { schema := s, ds := ds, b := b } t r) req.filter
          else semList m.q (mkView { schema := s, ds := ds, b := b } t r) req.filter) &&
          checkAuth { schema := s, ds := ds, b := b } t req.authUser r) = true →
        ∀ k col n, StatsEntry.agg k col n ∈ req.stats →
          ∀ w, getVal { schema := s, ds := ds, b := b } t r col ≠ .crash w) :
    (statsQuery m s ds t req).crash = false :=
  statsQuery_no_crash m s ds t req fun b hb ha r hr hok c hc => by
    obtain ⟨k, n, hm⟩ := mem_aggCols.1 hc
    exact (isCrash_false_iff _).2 (h b hb ha r hr hok k c n hm)

/-- Corollary: a Stats query that aggregates locally stored columns only — of whatever type: numbers,
    strings, lists — never crashes on a dataset whose stored cells are proper values (every dataset built
    from backend replies), whatever the filter, the grouping columns, the selected backends. -/
theorem stats_no_crash_local (m : StatsMode) (s : Schema) (ds : Dataset) (t : Table) (req : Request)
    (hl : ∀ k col n, StatsEntry.agg k col n ∈ req.stats → col.storage = .loc)
    (hd : ∀ b ∈ ds.backends, ∀ p ∈ b.tables, ∀ r ∈ p.2, ∀ cell ∈ r.cells, ∀ w, cell.2 ≠ .crash w) :
    (statsQuery m s ds t req).crash = false := by
  apply stats_no_crash
  intro b hb _ r hr k col n hm
  have hclean : BackendClean b := fun p hp r hr cell hc =>
    (isCrash_false_iff _).2 (hd b (selectBackends_subset ds t req b hb) p hp r hr cell hc)
  have hrow := tableRows_clean { schema := s, ds := ds, b := b } t hclean r hr
  exact getVal_no_crash_local _ t r col (hl k col n hm)
    (fun cell hc => (isCrash_false_iff _).1 (hrow cell hc))

/-- a schema with a hosts table with a string and a number column, and a backend with two hosts -/
def exSchema : Schema :=
  { tables := [{ name := "hosts", cols := [{ name := "name", dtype := .str, storage := .loc },
                                          { name := "latency", dtype := .float, storage := .loc }] }] }
def exHosts : Table := (exSchema.table? "hosts").getD { name := "hosts", cols := [] }
def exData (cell : Val) : Dataset :=
  { backends := [{ id := "a", name := "a",
                   tables := [("hosts", [{ cells := [("name", .s "web01"), ("latency", .f 1500)] },
                                         { cells := [("name", cell), ("latency", .f 500)] }])] }] }
def exMode : StatsMode := { q := Quirks.current, useIndex := true, pushDown := true, grouped := true }
/-- `Stats: sum name` and `Stats: avg latency` -/
def exReq : Request :=
  { table := "hosts", stats := [.agg .sum (exHosts.colWithFallback "name") false,
                                .agg .avg (exHosts.colWithFallback "latency") false] }

/-- non-vacuity: `Stats: sum name` over host names is answered (sum 0, average 1.0), and the crash flag is
    real — a row holding the marker in the aggregated column sets it -/
example : (statsQuery exMode exSchema (exData (.s "db01")) exHosts exReq).crash = false
    ∧ (statsQuery exMode exSchema (exData (.s "db01")) exHosts exReq).rows.map (fun p => p.2.map Acc.final)
        = [[(0, 1), (2000, 2)]]
    ∧ (statsQuery exMode exSchema (exData (.crash "boom")) exHosts exReq).crash = true := by decide

/-! ## 5. accepted requests -/

/-- `parseRequest` is a total function: for every text it returns an error (answered with a 400 text) or a
    request.  An accepted request is well formed for evaluation: its table exists in the schema, and every
    sort field carries the column of that table it names — evaluation never dereferences a missing table
    or a missing sort column. -/
theorem parse_ok_wellformed (s : Schema) (o : ParseOpts) (text : String) (req : Request)
    (h : parseRequest s o text = .ok req) :
    ∃ t, s.table? req.table = some t ∧
      ∀ sf ∈ req.sort, sf.col = t.col? sf.name ∧ sf.col.isSome = true :=
  parseRequest_ok s o text req h

/-- the lines of two request texts (`String.splitOn` is evaluated step by step) -/
private theorem exText_lines : splitLines "GET hosts\nSort: name" = ["GET hosts", "Sort: name"] := by
  have h1 : ("\n" == "") = false := by decide
  simp only [splitLines, String.splitOn, h1]
  repeat (rw [String.splitOnAux]; simp (decide := true) only [ite_false, ite_true])

private theorem exText_lines' : splitLines "GET nosuch" = ["GET nosuch"] := by
  have h1 : ("\n" == "") = false := by decide
  simp only [splitLines, String.splitOn, h1]
  repeat (rw [String.splitOnAux]; simp (decide := true) only [ite_false, ite_true])

/-- non-vacuity: a request with a sort header is accepted, its table is `hosts` and its sort field has a
    column; a request for an unknown table is refused -/
example : (match parseRequest exSchema { optimize := true, q := Quirks.current } "GET hosts\nSort: name" with
      | .ok req => req.table == "hosts" && req.sort.map (fun sf => sf.col.isSome) == [true]
      | .error _ => false) = true := by
  unfold parseRequest
  rw [exText_lines]
  decide

example : (match parseRequest exSchema { optimize := true, q := Quirks.current } "GET nosuch" with
      | .ok _ => false | .error _ => true) = true := by
  unfold parseRequest
  rw [exText_lines']
  decide

/-! ## 6. command headers -/

/-- A COMMAND request has no table.  A header line of it whose name (the part before the first colon, lower
    case) is `filter`, `stats` or `waitcondition` ends the parse with the error "header not supported for
    commands", whatever precedes or follows it: the column lookup these headers need is never reached. -/
theorem command_headers_guarded (o : ParseOpts) (req : Request) (line : String) (rest : List String)
    (hdr x : String) (hc : cut ':' (trimSpace line) = (hdr, some x))
    (hh : goLower hdr = "filter" ∨ goLower hdr = "stats" ∨ goLower hdr = "waitcondition") :
    parseCommandHeaders o req (line :: rest) = .error (.bad "header not supported for commands") :=
  parseCommandHeaders_guarded o req line rest hdr x hc hh

/-- non-vacuity: `COMMAND [0] x` followed by `Filter: name = x` -/
example : parseCommandHeaders { optimize := true, q := Quirks.current } {} ["Filter: name = x", "Backends: a"]
    = .error (.bad "header not supported for commands") :=
  command_headers_guarded _ _ _ _ "Filter" " name = x" (by decide) (.inl (by decide))

/-- the other headers of a command are parsed: `Backends: a` is accepted -/
example : (match parseCommandHeaders { optimize := true, q := Quirks.current } {} ["Backends: a"] with
    | .ok req => req.backends == ["a"] | .error _ => false) = true := by decide

/-! ## 7. the connection loop -/

/-- The connection loop terminates for every sequence of requests read from a connection: it performs at
    most one action per request, every action refers to a request that was read, and an unparsable request
    produces one error after which nothing follows (the connection is closed). -/
theorem session_ends (i : Nat) (reqs : List WireReq) :
    (sessionPlan i reqs).length ≤ reqs.length ∧
    (∀ k a, (sessionPlan i reqs)[k]? = some a → Lmd.Frame.Action.idx a = i + k ∧ i + k < i + reqs.length) ∧
    (∀ k j, (sessionPlan i reqs)[k]? = some (Action.parseError j) → k + 1 = (sessionPlan i reqs).length) := by
  refine ⟨Lmd.Frame.plan_length_le i reqs, ?_, Lmd.Frame.plan_parseError_last i reqs⟩
  intro k a h
  refine ⟨Lmd.Frame.plan_idx i reqs k a h, ?_⟩
  have hk : k < (sessionPlan i reqs).length := by
    rcases Nat.lt_or_ge k (sessionPlan i reqs).length with hlt | hge
    · exact hlt
    · rw [List.getElem?_eq_none hge] at h; cases h
  have := Lmd.Frame.plan_length_le i reqs
  omega

example : sessionPlan 0 [⟨true, true⟩, ⟨false, true⟩, ⟨true, true⟩] = [Action.answer 0, Action.parseError 1] := by
  decide

/-! ## 8. rebuilding a backend -/

/-- `InitAllTables`, from any peer state against any backend behaviour (refusing, garbage, truncated or
    malformed replies, closing early), returns: with an error, or with a complete published data set. -/
theorem init_total (w : World) (now : Int) (p : PeerSt) (b : BackendSt) :
    (initAllTables w now p b).err ≠ .none ∨ (initAllTables w now p b).p.cache.isSome = true := by
  rcases Lmd.C11.init_all_or_nothing w now p b with ⟨_, h, _⟩ | ⟨h, _⟩
  · exact .inr (by rw [h]; rfl)
  · exact .inl h

example : (initAllTables Lmd.C11.exWorld 100 {} Lmd.C11.exBackend).p.cache.isSome = true
    ∧ (initAllTables Lmd.C11.exWorld 100 {} Lmd.C11.exFailing).err ≠ .none := by decide

end Lmd.C09
