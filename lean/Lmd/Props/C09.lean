/- C09 — property theorems (under construction). -/
import Lmd.Stats
namespace Lmd.C09
end Lmd.C09
