/-
  C18 (second sentence) — "A query sent to any node returns the same rows, stats and ordering as a single
  LMD holding all backends would."

  `distData` / `distStats` (Lmd/Distributed.lean) answer a request the way a cluster node does: every node
  answers a sub request for the backends of its share, the asked node merges.  The theorems compare that
  with `dataQuery` / `statsQuery` on the whole dataset, under the hypothesis `Partition` (the sub requests
  name every selected backend exactly once) and for tables that are answered per backend (`PerBackend`).
  Helper lemmas: `Lmd.Lemmas.DistLemmas`, `Lmd.Lemmas.DistStatsLemmas`.
-/
import Lmd.Lemmas.DistLemmas
import Lmd.Lemmas.DistStatsLemmas

namespace Lmd.C18Dist
open Lmd Lmd.Sort Lmd.Dist Lmd.C05

/-! ## the hypothesis -/

/-- three backends, served by two nodes -/
def exDs : Dataset :=
  { backends := [{ id := "a", name := "a" }, { id := "b", name := "b" }, { id := "c", name := "c" }] }

/-- the virtual `backends` table: every backend contributes one row -/
def exT : Table := { name := "backends", cols := [], virt := .backends }

/-- the first node serves `a`, the second `b` and `c` -/
def exShares : List (List String) := [["a"], ["b", "c"]]

/-- the example table is answered per backend -/
theorem exPerBackend : PerBackend exT := by
  unfold PerBackend; decide

/-- The partition hypothesis holds for every request when the shares list each configured backend exactly
    once (what `redistribute` produces, see `C18.assignment_partition`), here for two nodes serving `a` and
    `b`, `c`. -/
theorem exPartition (req : Request) : Partition exDs exT req exShares :=
  Partition.of_config exDs exT req exShares exPerBackend (by decide) (by decide) (by decide) (by decide)

/-- also when the request names some of the backends only, one of them unknown -/
example : Partition exDs exT { backends := ["c", "a", "zzz"] } exShares := exPartition _

/-- the sub requests of that request: `a` for the first node, `c` for the second -/
example : nodeSubs { backends := ["c", "a", "zzz"] } exShares = [["a"], ["c"]] := by decide

/-! ## 1. failed backends -/

/-- The distributed answer reports the same failed backends with the same messages as the single answer
    (unknown ids of the request first, then the selected backends that are down), up to the order of the
    entries. -/
theorem dist_failed (m : EvalMode) (s : Schema) (ds : Dataset) (t : Table) (req : Request)
    (shares : List (List String)) (hT : PerBackend t) (hp : Partition ds t req shares) :
    (distData m s ds t req shares).failed.Perm (dataQuery m s ds t req).failed :=
  distFailed_perm m s ds t req shares hT hp

/-! ## 2. total_count -/

/-- The totals the nodes report add up to the total of the single answer.  The only requests excluded are
    those with `Limit: 0` and an offset that are cut per backend (default sort order, optimised
    evaluation) and not in wrapped_json format: a limit of 0 is not passed on to the nodes, so they count
    all rows while the single instance stops counting after `offset + 1` rows per backend. -/
theorem dist_total (m : EvalMode) (s : Schema) (ds : Dataset) (t : Table) (req : Request)
    (shares : List (List String)) (hT : PerBackend t) (hp : Partition ds t req shares)
    (h0 : req.limit = some 0 → req.offset = 0 ∨ m.earlyCut = false ∨ isDefaultSortOrder req = false ∨
      req.outFmt = .wrapped) :
    (distData m s ds t req shares).total = (dataQuery m s ds t req).total := by
  rw [distData_total, dataQuery_total]
  exact distTotal_eq m s ds t req shares hT hp h0

/-- the two nodes of the example report 1 + 2 rows, the single instance 3; two of them are returned -/
example : (distData (EvalMode.code Quirks.none) default exDs exT { limit := some 2 } exShares).total = 3 ∧
    (dataQuery (EvalMode.code Quirks.none) default exDs exT { limit := some 2 }).total = 3 ∧
    (distData (EvalMode.code Quirks.none) default exDs exT { limit := some 2 } exShares).hits.length = 2 := by
  decide

/-- one backend holding three hosts -/
def exHosts : Table := { name := "hosts", cols := [], primaryKey := ["name"] }
def exHostRow (n : String) : Row := { cells := [("name", .s n)] }
def exDs3 : Dataset :=
  { backends := [{ id := "a", name := "a", tables := [("hosts", [exHostRow "x", exHostRow "y", exHostRow "z"])] }] }

/-- The excluded case is a real difference: with `Limit: 0` and `Offset: 1` the optimised single instance
    stops counting after two rows, the node that gets the sub request (without limit) counts all three. -/
example : Partition exDs3 exHosts { table := "hosts", limit := some 0, offset := 1 } [["a"]] ∧
    (dataQuery (EvalMode.code Quirks.none) default exDs3 exHosts
      { table := "hosts", limit := some 0, offset := 1 }).total = 2 ∧
    (distData (EvalMode.code Quirks.none) default exDs3 exHosts
      { table := "hosts", limit := some 0, offset := 1 } [["a"]]).total = 3 :=
  ⟨Partition.of_config _ _ _ _ (by unfold PerBackend; decide) (by decide) (by decide) (by decide) (by decide),
    by decide, by decide⟩

/-- `PerBackend` is needed as well: a table called `tables` is answered from the first configured backend
    by the single instance and once more by every node that gets a sub request. -/
example : (dataQuery EvalMode.spec default exDs { exT with name := "tables" } {}).total = 1 ∧
    (distData EvalMode.spec default exDs { exT with name := "tables" } {} exShares).total = 2 := by
  decide

/-! ## 3. the window: rows and ordering -/

/-- The heart of the property, for every request (any Sort, Limit, Offset, evaluation mode): the rows the
    distributed answer returns have, position by position, the same sort keys as the rows of the single
    answer (in particular there are equally many), and every one of them is a row of the single answer's
    sorted pool.  Rows with equal sort keys may come in a different order, or be different rows with the
    same keys when a limit cuts inside a group of ties; that is all the freedom there is. -/
theorem dist_window_sorted (m : EvalMode) (s : Schema) (ds : Dataset) (t : Table) (req : Request)
    (shares : List (List String)) (hT : PerBackend t) (hp : Partition ds t req shares) :
    (distData m s ds t req shares).hits.map (·.keys) = (dataQuery m s ds t req).hits.map (·.keys) ∧
    ∀ x ∈ (distData m s ds t req shares).hits, x ∈ (dataQuery m s ds t req).pool :=
  ⟨map_keys_of_posRel req _ _ (distHits_posRel m s ds t req shares hT hp),
    distHits_mem_pool m s ds t req shares hT hp⟩

/-- Without Limit and Offset the distributed answer returns exactly the rows of the single answer, each as
    often, in an order that respects the requested sort. -/
theorem dist_window_nolimit (m : EvalMode) (s : Schema) (ds : Dataset) (t : Table) (req : Request)
    (shares : List (List String)) (hT : PerBackend t) (hp : Partition ds t req shares)
    (hl : req.limit = none) (ho : req.offset = 0) :
    (distData m s ds t req shares).hits.Perm (dataQuery m s ds t req).hits ∧
      (distData m s ds t req shares).hits.Pairwise (fun a b => Hit.le (dirsOf req) a b = true) :=
  distHits_nolimit m s ds t req shares hT hp hl ho

/-- A request without Sort, Limit and Offset gets the same rows from the cluster as from a single
    instance, as a multiset (the order follows the nodes instead of the configuration). -/
theorem dist_window_unsorted (m : EvalMode) (s : Schema) (ds : Dataset) (t : Table) (req : Request)
    (shares : List (List String)) (hT : PerBackend t) (hp : Partition ds t req shares)
    (_hs : req.sort = []) (hl : req.limit = none) (ho : req.offset = 0) :
    (distData m s ds t req shares).hits.Perm (dataQuery m s ds t req).hits :=
  (distHits_nolimit m s ds t req shares hT hp hl ho).1

/-! ## 4. Stats -/

/-- A Stats request sent to a cluster node is answered like a single instance would answer it: the crash
    flag is the same, the failed backends are the same up to order, the result has the same keys (each
    once; the order of the keys follows the nodes), and under every key the slots print the same values
    (`Acc.final`: counters, sums, averages with their denominators, minima and maxima over the non-empty
    parts).  The proof reads both answers as sums in the commutative monoid of slot values: one instance
    folds `mergeStats` over its backends, the asked node folds `mergeDist` (apply every reply to fresh
    accumulators) over the nodes' folds. -/
theorem distStats_eq (m : StatsMode) (s : Schema) (ds : Dataset) (t : Table) (req : Request)
    (shares : List (List String)) (hT : PerBackend t) (hp : Partition ds t req shares) :
    (distStats m s ds t req shares).crash = (statsQuery m s ds t req).crash ∧
    (distStats m s ds t req shares).failed.Perm (statsQuery m s ds t req).failed ∧
    ((distStats m s ds t req shares).rows.map (·.1)).Perm ((statsQuery m s ds t req).rows.map (·.1)) ∧
    ((distStats m s ds t req shares).rows.map (·.1)).Nodup ∧
    ∀ key s₁ s₂, (key, s₁) ∈ (distStats m s ds t req shares).rows →
      (key, s₂) ∈ (statsQuery m s ds t req).rows → s₁.map Acc.final = s₂.map Acc.final :=
  ⟨distStats_crash m s ds t req shares hT hp, distStats_failed m s ds t req shares hT hp,
    distStats_rows_spec m s ds t req shares hT hp⟩

/-- the arithmetic behind it: applying a reply slot to an accumulator of the same kind adds their values in
    a commutative monoid (`comb`), whatever the kind; fresh accumulators are its neutral element -/
theorem merge_is_monoid_sum (a b : Acc) (hk : b.kind = a.kind) :
    D (a.apply b.stats b.count) = comb a.kind (D a) (D b) ∧
    (∀ k x y z, comb k (comb k x y) z = comb k x (comb k y z)) ∧
    (∀ k x y, comb k x y = comb k y x) ∧
    (∀ k x, comb k e0 x = x) ∧ (∀ k, D (Acc.init k) = e0) :=
  ⟨D_apply a b hk, comb_assoc, comb_comm, comb_e0_left, D_init⟩

/-- a "match everything" counter over the example cluster: both answers count the three backends -/
example :
    ((distStats { q := Quirks.none, useIndex := true, pushDown := true, grouped := true } default exDs exT
      { stats := [.counter (.grp true [] false)] } exShares).rows.map fun r => (r.1, r.2.map Acc.final)) =
      [("", [(3, 1)])] ∧
    ((statsQuery { q := Quirks.none, useIndex := true, pushDown := true, grouped := true } default exDs exT
      { stats := [.counter (.grp true [] false)] }).rows.map fun r => (r.1, r.2.map Acc.final)) =
      [("", [(3, 1)])] := by
  decide

/-- minima merge correctly although fresh accumulators start at -1 (the `count = 0` rule): a node whose
    backends have no rows does not pull the minimum down -/
example : D ((Acc.init .min).apply (-1000) 0) = e0 ∧
    ((((Acc.init .min).apply (-1000) 0).apply 5000 2).apply 7000 1).final = (5000, 1) := by
  decide

end Lmd.C18Dist
