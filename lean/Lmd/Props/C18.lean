/-
  C18 — cluster nodes partition the backends.

  `redistribute online backends` (Lmd/Cluster.lean, `Nodes.redistribute` of pkg/lmd/nodes.go) gives, per
  configured node in configuration order, the backends that node polls and answers for, from the view
  `online` (which nodes answered the last ping) and the configured backend ids.

  1. `length_nodes`            one list per configured node.
  2. `assignment_partition`    with a node online the lists, concatenated, are the backend list: nothing
                               lost, nothing twice, order kept (`assignment_partition_general` with empty
                               ids, which lmd skips; `assignment_unique` for distinct ids: exactly one owner).
  3. `offline_gets_nothing`    an offline node gets no backend.
  4. `evenness`                online nodes get ⌊B/N⌋ or ⌈B/N⌉ backends (`evenness_quota`), exactly B mod N
                               of them the larger number (`evenness_remainder`).
  5. `takeover`                the backends of a node that went offline have an online owner in the new view.
  6. `deterministic_view`      same view, same assignment.

  Helper lemmas live in `Lmd.Lemmas.ClusterLemmas`.
-/
import Lmd.Lemmas.ClusterLemmas

namespace Lmd.C18
open Lmd Lmd.ClusterL

/-! ## 1. one list per node -/

/-- `redistribute` returns one backend list per configured node, online or not, whatever the backends. -/
theorem length_nodes (online : List Bool) (bs : List String) :
    (redistribute online bs).length = online.length := by
  rw [redistribute, handOut_length, quotas_length]

/-! ## 2. the lists partition the backends -/

/-- The quotas cover the backends: with a node online they add up to at least the number of backends,
    and to exactly that number when there are fewer online nodes than backends. -/
theorem quotas_cover (online : List Bool) (n : Nat) (h : true ∈ online) :
    n ≤ (quotas online n).sum ∧ ((online.filter id).length < n → (quotas online n).sum = n) :=
  ⟨quotas_sum_ge_length online n (nOnline_pos_of_mem h),
   fun hlt => quotas_sum_eq online n (nOnline_pos_of_mem h) hlt⟩

/-- General form: if at least one node is online, the per-node lists concatenated in node order are
    exactly the configured backend list without the empty ids (lmd skips a backend with an empty id). -/
theorem assignment_partition_general (online : List Bool) (bs : List String) (h : true ∈ online) :
    (redistribute online bs).flatten = bs.filter (· ≠ "") := by
  rw [redistribute, handOut_flatten _ _ (quotas_sum_ge_length online bs.length (nOnline_pos_of_mem h))]
  congr 1
  funext b
  by_cases hb : b = "" <;> simp [hb]

/-- If at least one node is online and no backend id is empty, the per-node lists concatenated in node
    order are exactly the backend list: every backend is assigned, none is assigned twice, none is lost,
    and each node is responsible for a consecutive stretch of the configuration. -/
theorem assignment_partition (online : List Bool) (bs : List String) (h : true ∈ online)
    (hne : ∀ b ∈ bs, b ≠ "") : (redistribute online bs).flatten = bs := by
  rw [redistribute, handOut_flatten _ _ (quotas_sum_ge_length online bs.length (nOnline_pos_of_mem h))]
  exact filter_nonempty_id hne

/-- Counting form (no assumption that ids are distinct): summed over the nodes, a backend id occurs in the
    assignment exactly as often as in the configuration. -/
theorem assignment_count (online : List Bool) (bs : List String) (h : true ∈ online)
    (hne : ∀ b ∈ bs, b ≠ "") (b : String) :
    ((redistribute online bs).map (List.count b)).sum = bs.count b := by
  rw [← List.count_flatten, assignment_partition online bs h hne]

/-- Distinct backend ids: every configured backend is in the list of exactly one node. -/
theorem assignment_unique (online : List Bool) (bs : List String) (h : true ∈ online)
    (hne : ∀ b ∈ bs, b ≠ "") (hd : bs.Nodup) (b : String) (hb : b ∈ bs) :
    ∃ i : Nat, (∃ l : List String, (redistribute online bs)[i]? = some l ∧ b ∈ l) ∧
      ∀ j : Nat, (∃ l : List String, (redistribute online bs)[j]? = some l ∧ b ∈ l) → j = i := by
  have hp := assignment_partition online bs h hne
  have hd' : (redistribute online bs).flatten.Nodup := by rw [hp]; exact hd
  rw [List.Nodup, List.pairwise_flatten] at hd'
  have hb' : b ∈ (redistribute online bs).flatten := by rw [hp]; exact hb
  obtain ⟨l, hl, hbl⟩ := List.mem_flatten.1 hb'
  obtain ⟨i, hi, rfl⟩ := List.getElem_of_mem hl
  refine ⟨i, ⟨_, List.getElem?_eq_getElem hi, hbl⟩, ?_⟩
  rintro j ⟨l', hj, hbl'⟩
  obtain ⟨hj', rfl⟩ := List.getElem?_eq_some_iff.1 hj
  have hpw := List.pairwise_iff_getElem.1 hd'.2
  rcases Nat.lt_trichotomy j i with hlt | heq | hgt
  · exact absurd rfl (hpw j i hj' hi hlt b hbl' b hbl)
  · exact heq
  · exact absurd rfl (hpw i j hi hj' hgt b hbl b hbl')

/-! ## 3. offline nodes -/

/-- A node that is offline in the view is responsible for no backend. -/
theorem offline_gets_nothing (online : List Bool) (bs : List String) (i : Nat)
    (h : online[i]? = some false) : (redistribute online bs)[i]? = some [] := by
  obtain ⟨q, hq, h0, _⟩ := quotas_getElem? online bs.length i false h
  obtain ⟨l, hl, hlen⟩ := handOut_getElem?_length_le (quotas online bs.length) bs i q hq
  rw [h0 rfl] at hlen
  rw [redistribute, hl, List.eq_nil_of_length_eq_zero (Nat.le_zero.1 hlen)]

/-- Every configured backend (with a non-empty id) has an owner that is online in the view. -/
theorem owner_online (online : List Bool) (bs : List String) (h : true ∈ online)
    (hne : ∀ b ∈ bs, b ≠ "") (b : String) (hb : b ∈ bs) :
    ∃ (j : Nat) (l : List String), online[j]? = some true ∧ (redistribute online bs)[j]? = some l ∧ b ∈ l := by
  have hb' : b ∈ (redistribute online bs).flatten := by
    rw [assignment_partition online bs h hne]; exact hb
  obtain ⟨l, hl, hbl⟩ := List.mem_flatten.1 hb'
  obtain ⟨j, hj, rfl⟩ := List.getElem_of_mem hl
  have hj' : j < online.length := length_nodes online bs ▸ hj
  refine ⟨j, _, ?_, List.getElem?_eq_getElem hj, hbl⟩
  cases hc : online[j] with
  | true => rw [List.getElem?_eq_getElem hj', hc]
  | false =>
    have := offline_gets_nothing online bs j (by rw [List.getElem?_eq_getElem hj', hc])
    rw [List.getElem?_eq_getElem hj, Option.some.injEq] at this
    rw [this] at hbl
    cases hbl

/-! ## 4. evenness -/

/-- What one online node gets (no empty ids), with B backends and N online nodes: when N < B it is ⌊B/N⌋,
    or ⌊B/N⌋ + 1 — the latter only if N does not divide B, so it is ⌈B/N⌉; when N ≥ B it is at most one. -/
theorem evenness_quota (online : List Bool) (bs : List String) (hne : ∀ b ∈ bs, b ≠ "") (i : Nat)
    (hi : online[i]? = some true) :
    ∃ l, (redistribute online bs)[i]? = some l ∧
      ((online.filter id).length < bs.length →
        l.length = bs.length / (online.filter id).length ∨
        (l.length = bs.length / (online.filter id).length + 1 ∧ 0 < bs.length % (online.filter id).length)) ∧
      (bs.length ≤ (online.filter id).length → l.length ≤ 1) := by
  obtain ⟨q, hq, _, h1⟩ := quotas_getElem? online bs.length i true hi
  obtain ⟨hge, hlt⟩ := h1 rfl
  by_cases hc : (online.filter id).length < bs.length
  · have hpos : 0 < nOnline online :=
      nOnline_pos_of_mem (List.mem_of_getElem? hi)
    obtain ⟨l, hl, hlen⟩ := handOut_getElem?_length (quotas online bs.length) bs i q hq hne
      (Nat.le_of_eq (quotas_sum_eq online bs.length hpos hc))
    refine ⟨l, hl, fun _ => ?_, fun h => absurd hc (by omega)⟩
    rw [hlen]; exact hlt hc
  · obtain ⟨l, hl, hlen⟩ := handOut_getElem?_length_le (quotas online bs.length) bs i q hq
    refine ⟨l, hl, fun h => absurd h hc, fun h => ?_⟩
    rw [hge h] at hlen; exact hlen

/-- Backends are spread as evenly as the counts allow: the numbers of backends of any two online nodes
    differ by at most one. -/
theorem evenness (online : List Bool) (bs : List String) (hne : ∀ b ∈ bs, b ≠ "") (i j : Nat)
    (hi : online[i]? = some true) (hj : online[j]? = some true) :
    ∃ li lj, (redistribute online bs)[i]? = some li ∧ (redistribute online bs)[j]? = some lj ∧
      li.length ≤ lj.length + 1 ∧ lj.length ≤ li.length + 1 := by
  obtain ⟨li, hli, ai, bi⟩ := evenness_quota online bs hne i hi
  obtain ⟨lj, hlj, aj, bj⟩ := evenness_quota online bs hne j hj
  refine ⟨li, lj, hli, hlj, ?_⟩
  by_cases hc : (online.filter id).length < bs.length
  · have := ai hc; have := aj hc; omega
  · have := bi (by omega); have := bj (by omega); omega

/-- With fewer online nodes than backends every node gets exactly its quota (no empty ids). -/
theorem lengths_eq_quotas (online : List Bool) (bs : List String) (h : true ∈ online)
    (hne : ∀ b ∈ bs, b ≠ "") (hc : (online.filter id).length < bs.length) :
    (redistribute online bs).map List.length = quotas online bs.length := by
  apply List.ext_getElem?
  intro i
  rw [List.getElem?_map]
  cases hq : (quotas online bs.length)[i]? with
  | none =>
    have : (redistribute online bs)[i]? = none := by
      rw [List.getElem?_eq_none_iff] at hq ⊢
      rw [length_nodes]; rw [quotas_length] at hq; exact hq
    rw [this]; rfl
  | some q =>
    obtain ⟨l, hl, hlen⟩ := handOut_getElem?_length (quotas online bs.length) bs i q hq hne
      (Nat.le_of_eq (quotas_sum_eq online bs.length (nOnline_pos_of_mem h) hc))
    rw [redistribute, hl, Option.map_some, hlen]

/-- With N online nodes and B > N backends (no empty ids), exactly B mod N nodes get the larger number
    ⌊B/N⌋ + 1: the remainder is spread, one backend each, and not heaped on one node. -/
theorem evenness_remainder (online : List Bool) (bs : List String) (h : true ∈ online)
    (hne : ∀ b ∈ bs, b ≠ "") (hc : (online.filter id).length < bs.length) :
    (((redistribute online bs).map List.length).filter
        (· = bs.length / (online.filter id).length + 1)).length
      = bs.length % (online.filter id).length := by
  rw [lengths_eq_quotas online bs h hne hc, quotas_eq, if_neg (by show ¬ _ ≤ (online.filter id).length; omega)]
  have := quotasFrom_count_succ (bs.length / nOnline online) (bs.length % nOnline online) online
  have hm := Nat.mod_lt bs.length (nOnline_pos_of_mem h)
  rw [Nat.min_eq_left (Nat.le_of_lt hm)] at this
  exact this

/-! ## 5. takeover -/

/-- When the view changes from `online` to `online'` (a node online in each), both assignments partition
    the same backend list; so a backend that belonged to a node which is offline in the new view belongs,
    after the redistribution, to a node that is online in the new view. -/
theorem takeover (online online' : List Bool) (bs : List String) (h : true ∈ online)
    (h' : true ∈ online') (hne : ∀ b ∈ bs, b ≠ "") :
    (redistribute online bs).flatten = (redistribute online' bs).flatten ∧
    ∀ (i : Nat) (l : List String) (b : String), online'[i]? = some false → (redistribute online bs)[i]? = some l → b ∈ l →
      ∃ (j : Nat) (l' : List String), online'[j]? = some true ∧ (redistribute online' bs)[j]? = some l' ∧ b ∈ l' := by
  refine ⟨by rw [assignment_partition online bs h hne, assignment_partition online' bs h' hne], ?_⟩
  intro i l b _ hl hb
  have hb' : b ∈ bs := by
    rw [← assignment_partition online bs h hne]
    exact List.mem_flatten.2 ⟨l, List.mem_of_getElem? hl, hb⟩
  exact owner_online online' bs h' hne b hb'

/-! ## 6. same view, same assignment -/

/-- The assignment depends on the view and the configured backends only: two nodes that see the same
    nodes online and have the same backend configuration compute the same list for every node index,
    so they agree on who is responsible for what. -/
theorem deterministic_view (online₁ online₂ : List Bool) (bs₁ bs₂ : List String)
    (hv : online₁ = online₂) (hb : bs₁ = bs₂) (i : Nat) :
    (redistribute online₁ bs₁)[i]? = (redistribute online₂ bs₂)[i]? := by
  rw [hv, hb]

/-! ## non-vacuity -/

/-- four backends on four nodes of which the second is offline -/
example : redistribute [true, false, true, true] ["b0", "b1", "b2", "b3"]
    = [["b0", "b1"], [], ["b2"], ["b3"]] := by decide

/-- the hypotheses of `assignment_partition`, `evenness`, `evenness_remainder` hold for that instance -/
example : true ∈ [true, false, true, true] ∧ (∀ b ∈ ["b0", "b1", "b2", "b3"], b ≠ "") ∧
    ([true, false, true, true].filter id).length < ["b0", "b1", "b2", "b3"].length := by decide

/-- seven backends on three online nodes: 3, 2, 2 — the remainder is spread -/
example : (redistribute [true, true, false, true] ["a", "b", "c", "d", "e", "f", "g"]).map List.length
    = [3, 2, 0, 2] := by decide

/-- more online nodes than backends: one each for the first nodes -/
example : redistribute [true, true, true] ["a", "b"] = [["a"], ["b"], []] := by decide

/-- a backend with an empty id is skipped (general form of the partition) -/
example : redistribute [true, true] ["a", "", "b"] = [["a"], ["b"]] := by decide

/-- a node online is needed: with no node online nothing is assigned -/
example : (redistribute [false, false] ["a", "b"]).flatten = [] := by decide

/-- takeover: node 0 goes offline, its backends move to nodes that are online -/
example : redistribute [false, true, true] ["a", "b", "c", "d"] = [[], ["a", "b"], ["c", "d"]] ∧
    redistribute [true, true, true] ["a", "b", "c", "d"] = [["a", "b"], ["c"], ["d"]] := by decide

end Lmd.C18
