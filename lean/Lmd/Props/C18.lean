/- C18 — property theorems (under construction). -/
import Lmd.Cluster
namespace Lmd.C18
end Lmd.C18
