/-
  C01 — a GET query returns exactly the rows that satisfy its filter: operator-level and tree-level laws.

  1. the algebra of the filter evaluator `matchF` (`DataRow.MatchFilter`): `And:`, `Or:`, `Negate:`;
  2. the duality of the comparison operators (`=`/`!=`, `~`/`!~`, `<`/`>=`, ...) per column type,
     with the exact statements (and counterexamples) where it fails;
  3. the rows of the per-backend answer: sound, complete, a sublist of the table, independent of the
     order in which the cached rows are scanned;
  4. idempotence: filtering the answer again changes nothing.

  `fAnd fs`, `fOr fs` are the groups the headers `And: n` / `Or: n` build, `fNot q f` is what `Negate:`
  makes of `f` (the parser's `Filter.setNeg`).  Property theorems only; helper lemmas live in
  Lmd/Lemmas/OpLemmas.lean.
-/
import Lmd.Lemmas.OpLemmas

namespace Lmd.C01Ops

open Lmd Lmd.Lemmas

/-! ## 1. tree algebra

The laws that do not involve `Negate:` hold for every setting of the quirk switches; the laws about
negation need negation to be combined by XOR (`negOr = false`, which is how `Quirks.current` is set). -/

/-- a sample row view for the non-vacuity examples: every column reads as the empty string -/
def demoView : View := C01.cexView
/-- `state != <empty>` on an integer column: matches every row -/
def leafT : Leaf := C01.cexLeaf
/-- `state = <empty>` on an integer column: matches no row -/
def leafF : Leaf := { C01.cexLeaf with op := .eq }

/-- An `And:` group matches a row iff every member matches it. -/
theorem and_eq_all (q : Quirks) (v : View) (fs : List Filter) :
    matchF q v false (fAnd fs) = fs.all (matchF q v false) := by
  simp [fAnd, matchF_grp_plain]

/-- An `Or:` group matches a row iff at least one member matches it. -/
theorem or_eq_any (q : Quirks) (v : View) (fs : List Filter) :
    matchF q v false (fOr fs) = fs.any (matchF q v false) := by
  simp [fOr, matchF_grp_plain]

/-- non-vacuity: a conjunction of a matching and a non-matching term does not match, the disjunction does -/
example : matchF Quirks.current demoView false (fAnd [.leaf leafT false, .leaf leafF false]) = false
    ∧ matchF Quirks.current demoView false (fOr [.leaf leafT false, .leaf leafF false]) = true := by decide

/-- The empty `And:` group matches every row. -/
theorem and_nil (q : Quirks) (v : View) : matchF q v false (fAnd []) = true := by
  simp [and_eq_all]

/-- The empty `Or:` group matches no row. -/
theorem or_nil (q : Quirks) (v : View) : matchF q v false (fOr []) = false := by
  simp [or_eq_any]

/-- An `And:` group with one member means the member. -/
theorem and_singleton (q : Quirks) (v : View) (f : Filter) :
    matchF q v false (fAnd [f]) = matchF q v false f := by
  simp [and_eq_all]

/-- An `Or:` group with one member means the member. -/
theorem or_singleton (q : Quirks) (v : View) (f : Filter) :
    matchF q v false (fOr [f]) = matchF q v false f := by
  simp [or_eq_any]

/-- Concatenating member lists: `And` of `fs ++ gs` is `And fs` and `And gs`. -/
theorem and_append (q : Quirks) (v : View) (fs gs : List Filter) :
    matchF q v false (fAnd (fs ++ gs)) = (matchF q v false (fAnd fs) && matchF q v false (fAnd gs)) := by
  simp [and_eq_all]

/-- Concatenating member lists: `Or` of `fs ++ gs` is `Or fs` or `Or gs`. -/
theorem or_append (q : Quirks) (v : View) (fs gs : List Filter) :
    matchF q v false (fOr (fs ++ gs)) = (matchF q v false (fOr fs) || matchF q v false (fOr gs)) := by
  simp [or_eq_any]

/-- Flattening: an `And:` group nested anywhere inside an `And:` group can be replaced by its members. -/
theorem and_flatten (q : Quirks) (v : View) (pre fs post : List Filter) :
    matchF q v false (fAnd (pre ++ fAnd fs :: post)) = matchF q v false (fAnd (pre ++ fs ++ post)) := by
  simp [and_eq_all]

/-- Flattening: an `Or:` group nested anywhere inside an `Or:` group can be replaced by its members. -/
theorem or_flatten (q : Quirks) (v : View) (pre fs post : List Filter) :
    matchF q v false (fOr (pre ++ fOr fs :: post)) = matchF q v false (fOr (pre ++ fs ++ post)) := by
  simp [or_eq_any]

/-- non-vacuity of flattening: a nested group with two members in front of another member -/
example : matchF Quirks.current demoView false (fAnd ([] ++ fAnd [.leaf leafT false, .leaf leafT false] :: [.leaf leafT false])) = true := by
  decide

/-- Order independence: permuting the members of a group never changes its verdict - for `And:` and `Or:`
    groups, marked with `Negate:` or not, under any inherited negation, for every quirk setting. -/
theorem grp_perm (q : Quirks) (v : View) (negIn a n : Bool) (fs gs : List Filter) (h : fs.Perm gs) :
    matchF q v negIn (.grp a fs n) = matchF q v negIn (.grp a gs n) := by
  rw [matchF_grp, matchF_grp, h.all_eq, h.any_eq]

/-- Order independence of `And:`. -/
theorem and_perm (q : Quirks) (v : View) (fs gs : List Filter) (h : fs.Perm gs) :
    matchF q v false (fAnd fs) = matchF q v false (fAnd gs) :=
  grp_perm q v false true false fs gs h

/-- Order independence of `Or:`. -/
theorem or_perm (q : Quirks) (v : View) (fs gs : List Filter) (h : fs.Perm gs) :
    matchF q v false (fOr fs) = matchF q v false (fOr gs) :=
  grp_perm q v false false false fs gs h

/-- non-vacuity: two different orders of two different members -/
example : [Filter.leaf leafT false, .leaf leafF false].Perm [.leaf leafF false, .leaf leafT false] :=
  List.Perm.swap _ _ _

/-- The filter list of a request (consecutive `Filter:` lines) means the `And:` group of its filters. -/
theorem matchAll_eq_and (q : Quirks) (v : View) (fs : List Filter) :
    matchAll q v fs = matchF q v false (fAnd fs) := by
  rw [and_eq_all]; rfl

/-- The order of the `Filter:` lines of a request does not matter. -/
theorem matchAll_perm (q : Quirks) (v : View) (fs gs : List Filter) (h : fs.Perm gs) :
    matchAll q v fs = matchAll q v gs := by
  unfold matchAll; exact h.all_eq

/-- Repeating a member changes nothing: `And [f, f]` and `Or [f, f]` mean `f`. -/
theorem and_or_idem (q : Quirks) (v : View) (f : Filter) :
    matchF q v false (fAnd [f, f]) = matchF q v false f ∧ matchF q v false (fOr [f, f]) = matchF q v false f := by
  simp [and_eq_all, or_eq_any]

/-- Congruence: replacing one member of a group by a filter with the same verdict on this row does not
    change the verdict of the group. -/
theorem grp_congr_member (q : Quirks) (v : View) (a : Bool) (pre post : List Filter) (f g : Filter)
    (h : matchF q v false f = matchF q v false g) :
    matchF q v false (.grp a (pre ++ f :: post) false) = matchF q v false (.grp a (pre ++ g :: post) false) := by
  simp [matchF_grp_plain, h]

/-- non-vacuity: two different filters with the same verdict on the sample row -/
example : matchF Quirks.current demoView false (.leaf leafT false) = matchF Quirks.current demoView false (.leaf leafF true) := by
  decide

/-- A leaf with its `Negate:` mark `n`: the verdict of the comparison, flipped iff marked. -/
theorem leaf_marked (q : Quirks) (hq : q.negOr = false) (v : View) (l : Leaf) (n : Bool) :
    matchF q v false (.leaf l n) = (matchLeaf q v l != n) := by
  rw [matchF_false_eq_sem q hq]; rfl

/-- A group with its `Negate:` mark `n`: conjunction / disjunction of the members, flipped iff marked. -/
theorem grp_marked (q : Quirks) (hq : q.negOr = false) (v : View) (a n : Bool) (fs : List Filter) :
    matchF q v false (.grp a fs n) =
      ((if a then fs.all (matchF q v false) else fs.any (matchF q v false)) != n) := by
  rw [matchF_false_eq_sem q hq, sem_grp]

/-- `Negate:` is Boolean negation: the negated tree matches exactly the rows the tree does not match. -/
theorem negate_eq_not (q : Quirks) (hq : q.negOr = false) (v : View) (f : Filter) :
    matchF q v false (fNot q f) = !matchF q v false f := by
  rw [matchF_false_eq_sem q hq]; exact sem_setNeg q hq v f

/-- non-vacuity: the quirk setting of today qualifies, and negation does flip a verdict -/
example : Quirks.current.negOr = false ∧
    matchF Quirks.current demoView false (fNot Quirks.current (.leaf leafT false)) = false := by decide

/-- An inherited negation (the flag `MatchFilter` passes down the tree) is Boolean negation of the verdict. -/
theorem inherited_negation (q : Quirks) (hq : q.negOr = false) (v : View) (f : Filter) (neg : Bool) :
    matchF q v neg f = (matchF q v false f != neg) := by
  rw [C01.matchF_eq_sem q hq v f neg, C01.matchF_eq_sem q hq v f false]
  cases sem q v f <;> cases neg <;> rfl

/-- Double negation, syntactically: `Negate:` twice gives the tree back. -/
theorem negate_negate_tree (q : Quirks) (hq : q.negOr = false) (f : Filter) : fNot q (fNot q f) = f := by
  cases f <;> simp [fNot, Filter.setNeg, hq]

/-- Double negation: `Negate:` twice does not change which rows match. -/
theorem negate_negate (q : Quirks) (hq : q.negOr = false) (v : View) (f : Filter) :
    matchF q v false (fNot q (fNot q f)) = matchF q v false f := by
  rw [negate_negate_tree q hq]

/-- The defect that was repaired, seen as a law: with negation OR-ed (`negOr = true`) a second `Negate:`
    is absorbed, so double negation fails. -/
example : matchF { Quirks.current with negOr := true } demoView false
      (fNot { Quirks.current with negOr := true } (fNot { Quirks.current with negOr := true } (.leaf leafT false))) = false
    ∧ matchF { Quirks.current with negOr := true } demoView false (.leaf leafT false) = true := by decide

/-- De Morgan: a negated `And:` group matches iff the `Or:` group of the negated members matches. -/
theorem de_morgan_and (q : Quirks) (hq : q.negOr = false) (v : View) (fs : List Filter) :
    matchF q v false (fNot q (fAnd fs)) = matchF q v false (fOr (fs.map (fNot q))) := by
  rw [negate_eq_not q hq, and_eq_all, or_eq_any, List.any_map, List.not_all_eq_any_not]
  congr 1
  funext f
  exact (negate_eq_not q hq v f).symm

/-- De Morgan: a negated `Or:` group matches iff the `And:` group of the negated members matches. -/
theorem de_morgan_or (q : Quirks) (hq : q.negOr = false) (v : View) (fs : List Filter) :
    matchF q v false (fNot q (fOr fs)) = matchF q v false (fAnd (fs.map (fNot q))) := by
  rw [negate_eq_not q hq, and_eq_all, or_eq_any, List.all_map, List.not_any_eq_all_not]
  congr 1
  funext f
  exact (negate_eq_not q hq v f).symm

/-- De Morgan for an arbitrary group (either kind, marked or not): negating the group is the same as
    switching its kind and negating every member. -/
theorem de_morgan_grp (q : Quirks) (hq : q.negOr = false) (v : View) (a n : Bool) (fs : List Filter) :
    matchF q v false (fNot q (.grp a fs n)) = matchF q v false (.grp (!a) (fs.map (fNot q)) n) := by
  have hm : ∀ f, matchF q v false (fNot q f) = !matchF q v false f := negate_eq_not q hq v
  rw [negate_eq_not q hq, grp_marked q hq, grp_marked q hq, List.all_map, List.any_map]
  have h1 : (matchF q v false ∘ fNot q) = fun f => !matchF q v false f := funext hm
  rw [h1, ← List.not_all_eq_any_not, ← List.not_any_eq_all_not]
  cases a <;> cases n <;> simp

/-- non-vacuity of De Morgan: on a group with a matching and a non-matching member both sides agree
    with the expected verdicts -/
example : matchF Quirks.current demoView false (fNot Quirks.current (fAnd [.leaf leafT false, .leaf leafF false])) = true
    ∧ matchF Quirks.current demoView false (fNot Quirks.current (fOr [.leaf leafT false, .leaf leafF false])) = false := by
  decide

/-- The negated empty `And:` group matches nothing, the negated empty `Or:` group matches everything. -/
theorem negate_nil (q : Quirks) (hq : q.negOr = false) (v : View) :
    matchF q v false (fNot q (fAnd [])) = false ∧ matchF q v false (fNot q (fOr [])) = true := by
  rw [negate_eq_not q hq, negate_eq_not q hq, and_nil, or_nil]
  exact ⟨rfl, rfl⟩

/-- Excluded middle and non-contradiction: a row matches `Or [f, Negate f]` always and `And [f, Negate f]` never. -/
theorem excluded_middle (q : Quirks) (hq : q.negOr = false) (v : View) (f : Filter) :
    matchF q v false (fOr [f, fNot q f]) = true ∧ matchF q v false (fAnd [f, fNot q f]) = false := by
  simp [and_eq_all, or_eq_any, negate_eq_not q hq]

/-! ## 2. operator duality

`withOp l o` is the filter term `l` written with operator `o` instead; `dualOp` maps every operator to
the one a client writes to negate it on a scalar column. -/

/-- Text-like columns (strings, large strings, JSON text, custom variables): writing the dual operator
    (`!=` for `=`, `!~` for `~`, `!~~`, `!=~`, `unlike`, `iunlike`, `>=` for `<`, `<=` for `>`, and back)
    gives exactly the opposite verdict on every row - also on rows of backends that lack the column,
    for every quirk setting. -/
theorem leaf_dual_text (q : Quirks) (v : View) (l : Leaf)
    (ht : isTextType l.col.dtype = true) (h : l.op ≠ .gcn) :
    matchLeaf q v (withOp l (dualOp l.op)) = !matchLeaf q v l :=
  matchLeaf_dual_text q v l ht h

/-- non-vacuity: `name = a` on the demo hosts table is such a term, and its dual is `name != a` -/
example : isTextType (Demo.nameLeaf .eq "a").col.dtype = true ∧ (Demo.nameLeaf .eq "a").op ≠ .gcn
    ∧ (withOp (Demo.nameLeaf .eq "a") (dualOp (Demo.nameLeaf .eq "a").op)).op = .ne := by decide

/-- Numeric columns (int, int64, float), filter value given, the row's getter yields a number: the dual
    operator gives exactly the opposite verdict - for `=`/`!=`, `<`/`>=`, `>`/`<=` compared as numbers and
    for the text operators compared on the printed number. -/
theorem leaf_dual_num (q : Quirks) (v : View) (l : Leaf)
    (ht : isNumType l.col.dtype = true) (he : l.isEmpty = false) (hv : isNumVal (v.get l.col) = true)
    (h : l.op ≠ .gcn) :
    matchLeaf q v (withOp l (dualOp l.op)) = !matchLeaf q v l :=
  matchLeaf_dual_num q v l ht he hv h

/-- The same on a real cached row: for a locally stored numeric column (not a `_lc` shadow column) whose
    cached cell, if present, holds a number - which is what the importer stores - the getter hypothesis
    holds, so the dual operator gives the opposite verdict on the row. -/
theorem leaf_dual_num_stored (q : Quirks) (cx : Ctx) (t : Table) (r : Row) (l : Leaf)
    (ht : isNumType l.col.dtype = true) (he : l.isEmpty = false) (h : l.op ≠ .gcn)
    (hloc : l.col.storage = .loc) (hlc : hasSuffix l.col.name "_lc" = false)
    (hcell : ∀ x, r.cell? l.col.name = some x → isNumVal x = true) :
    matchLeaf q (mkView cx t r) (withOp l (dualOp l.op)) = !matchLeaf q (mkView cx t r) l :=
  matchLeaf_dual_num q (mkView cx t r) l ht he (getVal_isNum_local cx t r l.col hloc ht hlc hcell) h

/-- non-vacuity: `state = 1` on host `B` of the demo dataset, whose `state` cell holds the number 1 -/
example : Demo.stateLeaf.col.storage = .loc ∧ hasSuffix Demo.stateLeaf.col.name "_lc" = false
    ∧ Demo.rowB.cell? Demo.stateLeaf.col.name = some (.i 1)
    ∧ matchLeaf Quirks.current (mkView Demo.cx Demo.hosts Demo.rowB) Demo.stateLeaf = true
    ∧ matchLeaf Quirks.current (mkView Demo.cx Demo.hosts Demo.rowB) (withOp Demo.stateLeaf .ne) = false := by
  refine ⟨rfl, by decide, rfl, by decide, by decide⟩

/-- a row view on which every column reads as the number 1 -/
def numView : View := { get := fun _ => .i 1, flags := 0 }

/-- non-vacuity: `state = 1` on the demo hosts table, on a row whose state is a number -/
example : isNumType Demo.stateLeaf.col.dtype = true ∧ Demo.stateLeaf.isEmpty = false
    ∧ isNumVal (numView.get Demo.stateLeaf.col) = true ∧ Demo.stateLeaf.op ≠ .gcn := by decide

/-- The hypothesis "the getter yields a number" is needed: on a value of the wrong kind `state = 1` and
    `state != 1` both answer "no match". -/
example : matchLeaf Quirks.current demoView Demo.stateLeaf = false
    ∧ matchLeaf Quirks.current demoView (withOp Demo.stateLeaf .ne) = false := by decide

/-- Numeric columns, empty filter value (`Filter: state = `): the verdict depends on the operator only
    (`!=`, `>`, `>=` match every row, all others none); so the ordering operators are dual ... -/
theorem leaf_dual_empty_num (q : Quirks) (v : View) (l : Leaf)
    (ht : isNumType l.col.dtype = true) (he : l.isEmpty = true) (ho : isOrderOp l.op = true) :
    matchLeaf q v (withOp l (dualOp l.op)) = !matchLeaf q v l := by
  rw [matchLeaf_empty_num q v (withOp l (dualOp l.op)) (by simpa using ht) (by simpa using he),
    matchLeaf_empty_num q v l ht he]
  exact matchEmptyFilter_dual l.op ho

/-- non-vacuity: `state != <empty>` -/
example : isNumType leafT.col.dtype = true ∧ leafT.isEmpty = true ∧ isOrderOp leafT.op = true := by decide

/-- ... and every other operator answers "no match" together with its dual: with an empty value on a
    numeric column `=~`/`!=~`, `~`/`!~`, `~~`/`!~~`, `like`/`unlike`, `ilike`/`iunlike` are NOT negations
    of each other. -/
theorem leaf_empty_num_not_dual (q : Quirks) (v : View) (l : Leaf)
    (ht : isNumType l.col.dtype = true) (he : l.isEmpty = true) (ho : isOrderOp l.op = false) :
    matchLeaf q v l = false ∧ matchLeaf q v (withOp l (dualOp l.op)) = false := by
  rw [matchLeaf_empty_num q v (withOp l (dualOp l.op)) (by simpa using ht) (by simpa using he),
    matchLeaf_empty_num q v l ht he]
  exact matchEmptyFilter_other l.op ho

/-- counterexample as a concrete request term: `state =~ <empty>` and `state !=~ <empty>` both match nothing -/
example : matchLeaf Quirks.current numView { leafT with op := .eqNc } = false
    ∧ matchLeaf Quirks.current numView { leafT with op := .neNc } = false := by decide

/-- `!>=` is not the negation of `>=` on scalar columns: it never matches there, whatever the row. -/
theorem leaf_gcn_scalar_never (q : Quirks) (v : View) (l : Leaf)
    (ht : (isTextType l.col.dtype || isNumType l.col.dtype) = true) (h : l.op = .gcn) :
    matchLeaf q v l = false :=
  matchLeaf_gcn_scalar q v l ht h

/-- counterexample: `name >= b` and `name !>= b` are both false on a row named `a` -/
example : matchLeaf Quirks.current { get := fun _ => .s "a", flags := 0 } (Demo.nameLeaf .ge "b") = false
    ∧ matchLeaf Quirks.current { get := fun _ => .s "a", flags := 0 } (Demo.nameLeaf .gcn "b") = false := by decide

/-- All scalar cases in one statement (see `DualApplies` for the three cases). -/
theorem leaf_dual (q : Quirks) (v : View) (l : Leaf) (h : DualApplies v l) :
    matchLeaf q v (withOp l (dualOp l.op)) = !matchLeaf q v l := by
  rcases h with ⟨ht, ho⟩ | ⟨ht, he, hv, ho⟩ | ⟨ht, he, ho⟩
  · exact leaf_dual_text q v l ht ho
  · exact leaf_dual_num q v l ht he hv ho
  · exact leaf_dual_empty_num q v l ht he ho

/-- In a tree, a scalar term written with the dual operator is the same filter as `Negate:` on the term. -/
theorem dual_leaf_eq_negate (q : Quirks) (hq : q.negOr = false) (v : View) (l : Leaf) (n : Bool)
    (h : DualApplies v l) :
    matchF q v false (.leaf (withOp l (dualOp l.op)) n) = matchF q v false (fNot q (.leaf l n)) := by
  rw [negate_eq_not q hq, leaf_marked q hq, leaf_marked q hq, leaf_dual q v l h]
  cases matchLeaf q v l <;> cases n <;> rfl

/-- non-vacuity: `name = a` satisfies `DualApplies` on every row -/
example : DualApplies demoView (Demo.nameLeaf .eq "a") := Or.inl (by decide)

/-- Taking the dual twice gives the operator back (so each of the laws above reads in both directions). -/
theorem dualOp_involutive (o : Op) : dualOp (dualOp o) = o := dualOp_dualOp o

/-- String-list columns (`groups`, `contacts`, ...): `>=` (contains) is the negation of `!>=` and of `<=`
    (both mean "does not contain"), and the pattern / substring operators `~`, `~~`, `like`, `ilike`
    ("some element matches") are the negations of `!~`, `!~~`, `unlike`, `iunlike` ("no element matches"). -/
theorem leaf_dual_strList (q : Quirks) (v : View) (l : Leaf) (a b : Op)
    (ht : l.col.dtype = .strList) (h : listDual a b = true) :
    matchLeaf q v (withOp l a) = !matchLeaf q v (withOp l b) :=
  matchLeaf_listDual q v l a b ht h

/-- non-vacuity: `groups >= g` / `groups !>= g` -/
example : Demo.groupLeaf.col.dtype = .strList ∧ listDual .ge .gcn = true := by decide

/-- String lists, `=` / `!=`: they only test for the empty list and only when the filter value is empty;
    `!=` matches iff the value is empty and `=` does not match.  With a non-empty value both match nothing. -/
theorem strList_eq_ne (l : Leaf) (xs : List String) :
    matchStringList (withOp l .ne) xs = (l.sval == "" && !matchStringList (withOp l .eq) xs) :=
  matchStringList_eq_ne l xs

/-- counterexample: `groups = g` and `groups != g` are both false on the list `[g]` -/
example : matchStringList (withOp Demo.groupLeaf .eq) ["g"] = false
    ∧ matchStringList (withOp Demo.groupLeaf .ne) ["g"] = false := by decide

/-- String lists: `=~`, `!=~`, `<`, `>` never match - so `<` is not the negation of `>=` on lists, nor
    `>` of `<=`, nor `!=~` of `=~`. -/
theorem strList_never (l : Leaf) (xs : List String)
    (h : l.op = .eqNc ∨ l.op = .neNc ∨ l.op = .lt ∨ l.op = .gt) : matchStringList l xs = false :=
  matchStringList_never l xs h

/-- counterexample: `groups < g` and `groups >= g` are both false on the empty list -/
example : matchStringList (withOp Demo.groupLeaf .lt) [] = false
    ∧ matchStringList (withOp Demo.groupLeaf .ge) [] = false := by decide

/-- Number-list columns: `>=` (contains) and `!>=` give opposite verdicts. -/
theorem leaf_dual_intList (q : Quirks) (v : View) (l : Leaf) (ht : l.col.dtype = .int64List) :
    matchLeaf q v (withOp l .gcn) = !matchLeaf q v (withOp l .ge) :=
  matchLeaf_intList q v l ht

/-- a filter term on a number-list column (`Filter: comments >= 5`) -/
def idsLeaf : Leaf := { col := { name := "comments", dtype := .int64List, storage := .loc }, op := .ge, sval := "5", num := 5000 }

/-- non-vacuity: the term is on a number-list column and `>=` / `!>=` do give opposite verdicts on `[5]` -/
example : idsLeaf.col.dtype = .int64List
    ∧ matchLeaf Quirks.current { get := fun _ => .il [5], flags := 0 } (withOp idsLeaf .ge) = true
    ∧ matchLeaf Quirks.current { get := fun _ => .il [5], flags := 0 } (withOp idsLeaf .gcn) = false := by decide

/-- Number lists, `=` / `!=`: only the empty filter value is tested, as for string lists. -/
theorem intList_eq_ne (q : Quirks) (l : Leaf) (xs : List Int) :
    matchIntList q (withOp l .ne) xs = (l.isEmpty && !matchIntList q (withOp l .eq) xs) :=
  matchIntList_eq_ne q l xs

/-- Number lists: every operator other than `=`, `!=`, `>=`, `!>=` never matches. -/
theorem intList_never (q : Quirks) (l : Leaf) (xs : List Int)
    (h : l.op ≠ .eq ∧ l.op ≠ .ne ∧ l.op ≠ .ge ∧ l.op ≠ .gcn) : matchIntList q l xs = false :=
  matchIntList_never q l xs h

/-- non-vacuity: `comments < 5` is such an operator -/
example : (withOp idsLeaf .lt).op ≠ .eq ∧ (withOp idsLeaf .lt).op ≠ .ne ∧ (withOp idsLeaf .lt).op ≠ .ge
    ∧ (withOp idsLeaf .lt).op ≠ .gcn := by decide

/-- Interface-list and service-member-list columns are not filtered at all: no term matches, hence no
    operator has a negation there. -/
theorem leaf_unfiltered_types_never (q : Quirks) (v : View) (l : Leaf)
    (ht : l.col.dtype = .ifaceList ∨ l.col.dtype = .svcMemberList) : matchLeaf q v l = false :=
  matchLeaf_unmodelled q v l ht

/-! ### the request text: `Filter: col !op value` against `Filter: col op value`

`buildLeaf o t col raw op isRegex` is what `ParseFilter` does once the header line is split into column,
operator text and value and the operator is recognised. -/

/-- Parsing a `Filter:` line is: split it at the first two blanks, recognise the operator text, and build
    the term with `buildLeaf` (this ties the next theorems to the parser of the model). -/
theorem parse_filter_line (o : ParseOpts) (t : Table) (value : String) :
    parseFilterLeaf o t value =
      match splitN ' ' 3 value with
      | colName :: opText :: rest =>
        match parseOp opText with
        | none => throw (.bad "unrecognized filter operator")
        | some (op, isRegex) => buildLeaf o t colName (match rest with | [] => "" | v :: _ => v) op isRegex
      | _ => throw (.bad "filter header must be Filter: <field> <operator> <value>") :=
  parseFilterLeaf_eq o t value

/-- the operator texts come in dual pairs, and exactly `~`, `!~`, `~~`, `!~~` are pattern operators -/
example : parseOp "!=" = some (dualOp .eq, false) ∧ parseOp "!=~" = some (dualOp .eqNc, false)
    ∧ parseOp ">=" = some (dualOp .lt, false) ∧ parseOp "<=" = some (dualOp .gt, false)
    ∧ parseOp "unlike" = some (dualOp .ct, false) ∧ parseOp "iunlike" = some (dualOp .ctNc, false)
    ∧ parseOp "!~" = some (dualOp .re, true) ∧ parseOp "!~~" = some (dualOp .reNc, true) := by decide

/-- Which operator texts are pattern operators. -/
theorem pattern_operators (s : String) (op : Op) (b : Bool) (h : parseOp s = some (op, b)) :
    b = (op == .re || op == .nre || op == .reNc || op == .nreNc) :=
  parseOp_isRegex s op b h

/-- For the operators that are not pattern operators (`=`, `!=`, `=~`, `!=~`, `<`, `<=`, `>`, `>=`, `like`,
    `unlike`, `ilike`, `iunlike`), with either parser (optimising or not): the same column and value with
    the dual operator text parse to the same term with the dual operator - or fail with the same error.
    The parser does nothing else operator-dependent (number parsing, lower-casing, `_lc` columns). -/
theorem parsed_dual (o : ParseOpts) (t : Table) (col raw : String) (op : Op) :
    buildLeaf o t col raw (dualOp op) false =
      (buildLeaf o t col raw op false).map (fun l => withOp l (dualOp l.op)) :=
  buildLeaf_dual o t col raw op

/-- non-vacuity: `Filter: name = a` on the demo hosts table parses, to the term used in the examples above -/
example : buildLeaf { optimize := true, q := Quirks.current } Demo.hosts "name" "a" .eq false
    = .ok (Demo.nameLeaf .eq "a") := by rfl

/-- Pattern operators (`~`/`!~`, `~~`/`!~~`) with the unoptimised parser: the dual operator text parses
    to the same term (same compiled pattern) with the dual operator - or fails with the same error.
    Partial: the optimising parser (`optimize = true`) and the literal-dots reading (`specDots = true`)
    are excluded; the optimiser rewrites `~ ^text$` to `= text` but keeps `!~ ^text$` a pattern, so there
    the two terms are equivalent only through the meaning of the pattern, not syntactically. -/
theorem parsed_dual_regex_partial (o : ParseOpts) (ho : o.optimize = false) (hd : o.specDots = false)
    (t : Table) (col raw : String) (op : Op) :
    buildLeaf o t col raw (dualOp op) true =
      (buildLeaf o t col raw op true).map (fun l => withOp l (dualOp l.op)) :=
  buildLeaf_dual_regex_noopt o ho hd t col raw op

/-- non-vacuity: such parser options exist (the specification parser) -/
example : ({ optimize := false, q := Quirks.current } : ParseOpts).optimize = false
    ∧ ({ optimize := false, q := Quirks.current } : ParseOpts).specDots = false := ⟨rfl, rfl⟩

/-- End to end for one filter line: if `col op value` parses to a scalar term to which duality applies on
    a row, then `col !op value` parses too and, as a filter, matches that row iff the first does not. -/
theorem dual_filter_line (o : ParseOpts) (q : Quirks) (hq : q.negOr = false) (t : Table) (col raw : String)
    (op : Op) (l : Leaf) (v : View) (hp : buildLeaf o t col raw op false = .ok l) (hd : DualApplies v l) :
    ∃ l', buildLeaf o t col raw (dualOp op) false = .ok l' ∧
      matchF q v false (.leaf l' false) = !matchF q v false (.leaf l false) := by
  refine ⟨withOp l (dualOp l.op), ?_, ?_⟩
  · rw [parsed_dual, hp]; rfl
  · rw [dual_leaf_eq_negate q hq v l false hd, negate_eq_not q hq]

/-! ## 3. the rows of the answer

`selects m cx t req r` is the test of the row loop (filter and authorisation) in evaluation mode `m`;
the theorems speak about `(gatherRows m cx t req).hits.map (·.r)`, the rows one backend contributes. -/

/-- Soundness in every mode (index pre-selection, negation push-down, early cut, any quirk setting): each
    returned row is a row of the table that passes the filter and the authorisation test. -/
theorem hits_sound (m : EvalMode) (cx : Ctx) (t : Table) (req : Request) :
    ∀ r ∈ (gatherRows m cx t req).hits.map (·.r), r ∈ tableRows cx t ∧ selects m cx t req r = true := by
  intro r hr
  rw [gatherRows_rows] at hr
  have hmem : r ∈ (candidates m cx t req).filter (selects m cx t req) := by
    cases hc : cutOf m req with
    | none => simpa [hc] using hr
    | some l => rw [hc] at hr; exact List.mem_of_mem_take hr
  rw [List.mem_filter] at hmem
  refine ⟨?_, hmem.2⟩
  unfold candidates at hmem
  split at hmem
  · exact preFiltered_subset cx t _ _ r hmem.1
  · exact hmem.1

/-- Soundness in terms of the Boolean meaning: with the negation defect repaired every returned row
    satisfies the filter of the request and is visible to the requesting user. -/
theorem hits_satisfy_filter (m : EvalMode) (hq : m.q.negOr = false) (cx : Ctx) (t : Table) (req : Request) :
    ∀ r ∈ (gatherRows m cx t req).hits.map (·.r),
      semList m.q (mkView cx t r) req.filter = true ∧ checkAuth cx t req.authUser r = true := by
  intro r hr
  have h := (hits_sound m cx t req r hr).2
  rw [selects_eq_sem m hq, Bool.and_eq_true] at h
  exact h

/-- non-vacuity: the code of today has the defect repaired and (here with the index switched off, so that
    `decide` can evaluate it) does return a row on the demo dataset -/
example : (EvalMode.code Quirks.current).q.negOr = false ∧
    ((gatherRows { EvalMode.code Quirks.current with useIndex := false } Demo.cx Demo.hosts
      { table := "hosts", filter := [.leaf (Demo.nameLeaf .eq "a") false] }).hits.map (·.r)).length = 1 := by decide

/-- Completeness of the full scan: without index pre-selection and early cut every row of the table that
    passes the test is returned; together with soundness: a row is returned iff it is in the table and passes. -/
theorem scan_mem_iff (m : EvalMode) (cx : Ctx) (t : Table) (req : Request)
    (hi : m.useIndex = false) (hc : m.earlyCut = false) (r : Row) :
    r ∈ (gatherRows m cx t req).hits.map (·.r) ↔ r ∈ tableRows cx t ∧ selects m cx t req r = true := by
  rw [gatherRows_rows, cutOf_none m req hc]
  simp [candidates, hi, List.mem_filter]

/-- The same in terms of the Boolean meaning of the filter. -/
theorem scan_mem_iff_sem (m : EvalMode) (cx : Ctx) (t : Table) (req : Request)
    (hi : m.useIndex = false) (hc : m.earlyCut = false) (hq : m.q.negOr = false) (r : Row) :
    r ∈ (gatherRows m cx t req).hits.map (·.r) ↔
      r ∈ tableRows cx t ∧ semList m.q (mkView cx t r) req.filter = true ∧ checkAuth cx t req.authUser r = true := by
  rw [scan_mem_iff m cx t req hi hc, selects_eq_sem m hq, Bool.and_eq_true]

/-- non-vacuity: the code's evaluation with the index and the cut switched off is such a mode -/
example : ({ EvalMode.code Quirks.current with useIndex := false, earlyCut := false } : EvalMode).useIndex = false
    ∧ ({ EvalMode.code Quirks.current with useIndex := false, earlyCut := false } : EvalMode).earlyCut = false
    ∧ ({ EvalMode.code Quirks.current with useIndex := false, earlyCut := false } : EvalMode).q.negOr = false :=
  ⟨rfl, rfl, rfl⟩

/-- Completeness on the index path.  With index pre-selection (no early cut, negation defect repaired) a
    stored row that satisfies the filter and is visible to the user is returned, provided the rows have
    pairwise different keys, hosts / services have their usual primary keys and every filter term the
    index uses is of a `Covered` shape for the row.
    Partial: `Covered` excludes index terms on ill-typed or optional columns and backends whose group
    tables disagree with the `groups` lists (see Lmd/Lemmas/Index.lean; the counterexample without it is
    `C07.preFiltered_incomplete_without_group_consistency`). -/
theorem index_complete_partial (m : EvalMode) (cx : Ctx) (t : Table) (req : Request)
    (hc : m.earlyCut = false) (hq : m.q.negOr = false)
    (hnd : ((tableRows cx t).map (Row.key t)).Nodup) (hshape : KeyShape t) (r : Row)
    (hr : r ∈ tableRows cx t)
    (hcov : ∀ kind, indexKind? t = some kind → ∀ l ∈ leavesOfList req.filter,
      (leafIndexKeys cx kind t l).isSome → Covered cx t r kind l)
    (hs : semList m.q (mkView cx t r) req.filter = true) (ha : checkAuth cx t req.authUser r = true) :
    r ∈ (gatherRows m cx t req).hits.map (·.r) := by
  rw [gatherRows_rows, cutOf_none m req hc]
  simp only [List.mem_filter, selects_eq_sem m hq, hs, ha, Bool.and_self, and_true]
  unfold candidates
  split
  · apply preFiltered_complete_of_leafSound m.q cx t _ req.filter r hnd hshape hr _ hs
    intro kind hk l hl
    cases hi : leafIndexKeys cx kind t l with
    | none => exact leafSound_of_none m.q cx kind t r _ l hi
    | some ks => exact covered_sound m.q cx t r kind l hk (hcov kind hk l hl (by simp [hi]))
  · exact hr

/-- non-vacuity: on the demo dataset all hypotheses hold for the request `Filter: name = a` and host row `a` -/
example :
    ((tableRows Demo.cx Demo.hosts).map (Row.key Demo.hosts)).Nodup ∧ KeyShape Demo.hosts ∧
    Demo.rowA ∈ tableRows Demo.cx Demo.hosts ∧
    (∀ kind, indexKind? Demo.hosts = some kind → ∀ l ∈ leavesOfList [.leaf (Demo.nameLeaf .eq "a") false],
      (leafIndexKeys Demo.cx kind Demo.hosts l).isSome → Covered Demo.cx Demo.hosts Demo.rowA kind l) ∧
    semList Quirks.current (mkView Demo.cx Demo.hosts Demo.rowA) [.leaf (Demo.nameLeaf .eq "a") false] = true ∧
    checkAuth Demo.cx Demo.hosts "" Demo.rowA = true := by
  refine ⟨by decide, ⟨fun _ => rfl, fun h => absurd h (by decide)⟩, ?_, ?_, by decide, by decide⟩
  · have : tableRows Demo.cx Demo.hosts = [Demo.rowB, Demo.rowA] := rfl
    rw [this]; simp
  · intro kind hk l hl _
    have hkind : kind = .hosts := by
      have : indexKind? Demo.hosts = some .hosts := by decide
      rw [this] at hk; exact (Option.some.inj hk).symm
    subst hkind
    simp only [leavesOfList, leavesOf, List.append_nil, List.mem_singleton] at hl
    subst hl
    exact Covered.hostsName ⟨by decide, rfl, rfl, rfl, rfl⟩ rfl (by decide)

/-- Without index pre-selection the returned rows are a sublist of the table: rows of the table, in table
    order, none twice unless stored twice - with or without the early cut, for every quirk setting. -/
theorem hits_sublist_scan (m : EvalMode) (cx : Ctx) (t : Table) (req : Request) (hi : m.useIndex = false) :
    ((gatherRows m cx t req).hits.map (·.r)).Sublist (tableRows cx t) := by
  rw [gatherRows_rows]
  have hf : ((candidates m cx t req).filter (selects m cx t req)).Sublist (tableRows cx t) := by
    simp only [candidates, hi, Bool.false_eq_true, if_false]
    exact List.filter_sublist
  cases cutOf m req with
  | none => exact hf
  | some l => exact (List.take_sublist _ _).trans hf

/-- With index pre-selection the same holds when the table is kept in strictly ascending key order (as
    the store keeps it): the candidates fetched through the index come back in key order, so the returned
    rows are again a sublist of the table.  Holds in every mode. -/
theorem hits_sublist_sorted (m : EvalMode) (cx : Ctx) (t : Table) (req : Request)
    (hsorted : (tableRows cx t).Pairwise (keyLt t)) :
    ((gatherRows m cx t req).hits.map (·.r)).Sublist (tableRows cx t) := by
  rw [gatherRows_rows]
  have hcand : (candidates m cx t req).Sublist (tableRows cx t) := by
    unfold candidates
    split
    · exact sublist_of_pairwise_of_subset (keyLt_irrefl t) (keyLt_asymm t) _ _
        (preFiltered_sorted cx t _ _ hsorted) hsorted (preFiltered_subset cx t _ _)
    · exact List.Sublist.refl _
  have hf : ((candidates m cx t req).filter (selects m cx t req)).Sublist (tableRows cx t) :=
    List.filter_sublist.trans hcand
  cases cutOf m req with
  | none => exact hf
  | some l => exact (List.take_sublist _ _).trans hf

/-- non-vacuity: the demo hosts table is in key order (`B` before `a`) -/
example : (tableRows Demo.cx Demo.hosts).Pairwise (keyLt Demo.hosts) := by
  have : tableRows Demo.cx Demo.hosts = [Demo.rowB, Demo.rowA] := rfl
  rw [this]
  simp only [List.pairwise_cons, List.mem_singleton, forall_eq, List.not_mem_nil, false_imp_iff, implies_true,
    List.Pairwise.nil, and_true]
  show Demo.rowB.key Demo.hosts < Demo.rowA.key Demo.hosts
  decide

/-- The early cut only drops a tail: the rows returned with the cut are a prefix of the rows returned
    without it. -/
theorem cut_is_prefix (m : EvalMode) (cx : Ctx) (t : Table) (req : Request) :
    (gatherRows m cx t req).hits.map (·.r) <+:
      (gatherRows { m with earlyCut := false } cx t req).hits.map (·.r) := by
  rw [gatherRows_rows, gatherRows_rows, cutOf_none { m with earlyCut := false } req rfl]
  have h1 : candidates { m with earlyCut := false } cx t req = candidates m cx t req := rfl
  have h2 : selects { m with earlyCut := false } cx t req = selects m cx t req := rfl
  rw [h1, h2]
  cases cutOf m req with
  | none => exact List.prefix_refl _
  | some l => exact List.take_prefix _ _

/-- Order independence: the row test looks at one row at a time, so scanning the cached rows in any other
    order `rows'` selects the same rows with the same multiplicities as the answer (full scan, no cut);
    only their order follows the scan order. -/
theorem scan_order_independent (m : EvalMode) (cx : Ctx) (t : Table) (req : Request)
    (hi : m.useIndex = false) (hc : m.earlyCut = false) (rows' : List Row) (hp : rows'.Perm (tableRows cx t)) :
    (rows'.filter (selects m cx t req)).Perm ((gatherRows m cx t req).hits.map (·.r)) := by
  rw [gatherRows_rows, cutOf_none m req hc]
  simp only [candidates, hi, Bool.false_eq_true, if_false]
  exact hp.filter _

/-- ... in particular the number of matching rows (the per-backend total) does not depend on the scan order. -/
theorem scan_total_order_independent (m : EvalMode) (cx : Ctx) (t : Table) (req : Request)
    (hi : m.useIndex = false) (hc : m.earlyCut = false) (rows' : List Row) (hp : rows'.Perm (tableRows cx t)) :
    (rows'.filter (selects m cx t req)).length = (gatherRows m cx t req).total := by
  have h := (scan_order_independent m cx t req hi hc rows' hp).length_eq
  rw [h, List.length_map]
  simp [gatherRows, hc]

/-- non-vacuity: the reversed demo table is another scan order -/
example : (tableRows Demo.cx Demo.hosts).reverse.Perm (tableRows Demo.cx Demo.hosts) := List.reverse_perm _

/-! ## 4. idempotence -/

/-- Filtering the answer again with the same request returns the answer unchanged - in every mode
    (index pre-selection and early cut included), for every quirk setting. -/
theorem refilter_idempotent (m : EvalMode) (cx : Ctx) (t : Table) (req : Request) :
    ((gatherRows m cx t req).hits.map (·.r)).filter (selects m cx t req) = (gatherRows m cx t req).hits.map (·.r) := by
  rw [List.filter_eq_self]
  exact fun r hr => (hits_sound m cx t req r hr).2

/-- The same in terms of the Boolean meaning: applying the filter (and the authorisation test) of the
    request to its own answer removes nothing. -/
theorem refilter_idempotent_sem (m : EvalMode) (hq : m.q.negOr = false) (cx : Ctx) (t : Table) (req : Request) :
    ((gatherRows m cx t req).hits.map (·.r)).filter
        (fun r => semList m.q (mkView cx t r) req.filter && checkAuth cx t req.authUser r) =
      (gatherRows m cx t req).hits.map (·.r) := by
  rw [List.filter_eq_self]
  intro r hr
  have h := hits_satisfy_filter m hq cx t req r hr
  rw [h.1, h.2]; rfl

/-- Filtering is idempotent as an operation on row lists: selecting twice with the row test of a request
    is selecting once. -/
theorem select_idempotent (m : EvalMode) (cx : Ctx) (t : Table) (req : Request) (rows : List Row) :
    (rows.filter (selects m cx t req)).filter (selects m cx t req) = rows.filter (selects m cx t req) := by
  rw [List.filter_filter]
  congr 1
  funext r
  exact Bool.and_self _

/-- non-vacuity: the answer that is filtered again is not empty on the demo dataset -/
example : ((gatherRows { EvalMode.code Quirks.current with useIndex := false } Demo.cx Demo.hosts
    { table := "hosts", filter := [.leaf Demo.stateLeaf false] }).hits.map (·.r)).length = 1 := by decide

/-! ## 5. the whole query (all selected backends, `Sort:`, `Limit:`, `Offset:`) -/

open Lmd.Sort in
/-- Soundness of the whole GET query in every mode: each returned row comes from a selected, available
    backend, is a row of that backend's table, and passes the request's filter and authorisation test
    evaluated on that backend - whatever `Sort:`, `Limit:` and `Offset:` say. -/
theorem query_sound (m : EvalMode) (s : Schema) (ds : Dataset) (t : Table) (req : Request) :
    ∀ h ∈ (dataQuery m s ds t req).hits,
      h.b ∈ availBackends ds t req ∧
      h.r ∈ tableRows { schema := s, ds := ds, b := h.b } t ∧
      selects m { schema := s, ds := ds, b := h.b } t req h.r = true := by
  intro h hh
  obtain ⟨b, hb, hin⟩ := (mem_collected_iff m s ds t req h).mp (dataQuery_hits_subset_collected m s ds t req h hh)
  have hsrc : h.b = b := (C01.hit_values_unchanged m _ t req h hin).2
  subst hsrc
  exact ⟨hb, hits_sound m _ t req h.r (List.mem_map_of_mem hin)⟩

open Lmd.Sort in
/-- Completeness of the whole GET query: with a full scan (no index pre-selection, no early cut) and no
    `Limit:` / `Offset:`, every row of every selected, available backend that passes the test is returned,
    attributed to its backend. -/
theorem query_complete (m : EvalMode) (s : Schema) (ds : Dataset) (t : Table) (req : Request)
    (hi : m.useIndex = false) (hc : m.earlyCut = false) (hl : req.limit = none) (ho : req.offset = 0)
    (b : Backend) (hb : b ∈ availBackends ds t req) (r : Row)
    (hr : r ∈ tableRows { schema := s, ds := ds, b := b } t)
    (hs : selects m { schema := s, ds := ds, b := b } t req r = true) :
    ∃ h ∈ (dataQuery m s ds t req).hits, h.b = b ∧ h.r = r := by
  have hmem := (scan_mem_iff m { schema := s, ds := ds, b := b } t req hi hc r).mpr ⟨hr, hs⟩
  obtain ⟨h, hin, rfl⟩ := List.mem_map.mp hmem
  refine ⟨h, ?_, (C01.hit_values_unchanged m _ t req h hin).2, rfl⟩
  exact (mem_dataQuery_hits_iff m s ds t req hl ho h).mpr ((mem_collected_iff m s ds t req h).mpr ⟨b, hb, hin⟩)

/-- non-vacuity: the demo backend is selected and available for a plain hosts query, and the query returns
    the one host that matches `Filter: state = 1` -/
example : Demo.backend ∈ Lmd.Sort.availBackends { backends := [Demo.backend] } Demo.hosts
      { table := "hosts", filter := [.leaf Demo.stateLeaf false] }
    ∧ (dataQuery EvalMode.spec { tables := [Demo.hosts, Demo.hostgroups] } { backends := [Demo.backend] } Demo.hosts
      { table := "hosts", filter := [.leaf Demo.stateLeaf false] }).hits.length = 1 := by
  constructor
  · simp [Lmd.Sort.availBackends, selectBackends, backendAvailable, Demo.hosts, Demo.backend]
  · decide

/-- Idempotence for the whole query: applying the request's filter and authorisation test (on each row's
    own backend) to the returned rows removes nothing. -/
theorem query_refilter_idempotent (m : EvalMode) (s : Schema) (ds : Dataset) (t : Table) (req : Request) :
    (dataQuery m s ds t req).hits.filter (fun h => selects m { schema := s, ds := ds, b := h.b } t req h.r) =
      (dataQuery m s ds t req).hits := by
  rw [List.filter_eq_self]
  exact fun h hh => (query_sound m s ds t req h hh).2.2

end Lmd.C01Ops
