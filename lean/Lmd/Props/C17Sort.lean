/-
  C17 (Sort header) — one `Sort:` field survives printing and reading back.

  `Request.print` (the model of `Request.String`) writes, for every sort field, the line
  `Sort: <name>[ <args>] asc|desc`.  `printSort` is the text after `Sort: `.  A field the parser
  produced (`parseSort v = .ok sf`, any header text `v`) is printed to a text that parses to the
  same field: same name, same direction, same custom variable name.  The string facts
  (`splitN ' ' 3`, case mapping) live in `Lmd.Lemmas.SortPrintLemmas`.
-/
import Lmd.Print
import Lmd.Lemmas.SortPrintLemmas

namespace Lmd.C17
open Lmd Lmd.SortPrint

/-- the text lmd writes for one sort field after `Sort: `: the column name, then the custom
    variable name when there is one, then the direction word -/
def printSort (sf : SortField) : String :=
  sf.name ++ (if sf.args != "" then " " ++ sf.args else "") ++ " " ++ (if sf.desc then "desc" else "asc")

/-- `printSort` is the text lmd emits: the line `Request.print` writes for a sort field is
    `Sort: `, then `printSort` of the field, then the line end. -/
theorem printSort_in_request :
    (fun sf : SortField => "Sort: " ++ sf.name ++ (if sf.args != "" then " " ++ sf.args else "") ++ " "
        ++ (if sf.desc then "desc" else "asc") ++ "\n")
      = fun sf => "Sort: " ++ printSort sf ++ "\n" := by
  funext sf
  simp only [printSort, String.append_assoc]

/-- The `Sort:` lines at the end of a printed request are the `printSort` texts of the request's
    sort fields, each between `Sort: ` and a line end, in order. -/
theorem print_sort_lines (req : Request) :
    ∃ head : String, req.print =
      head ++ String.join (req.sort.map fun sf => "Sort: " ++ printSort sf ++ "\n") ++ "\n" := by
  unfold Request.print
  rw [printSort_in_request]
  exact ⟨_, rfl⟩

/-- A sort field without custom variable name is printed as `<name> asc` or `<name> desc`. -/
theorem printSort_plain (sf : SortField) (h : sf.args = "") :
    printSort sf = sf.name ++ " " ++ (if sf.desc then "desc" else "asc") := by
  simp [printSort, h]

/-- The printed text of a sort field with a custom variable name carries that name: it is
    `<name> <args> asc|desc`.  (Testing found a version of the printer that dropped the variable
    name here, so that `Sort: custom_variables SITE desc` came back as a different request.) -/
theorem printSort_keeps_args (sf : SortField) (h : sf.args ≠ "") :
    printSort sf = sf.name ++ " " ++ sf.args ++ " " ++ (if sf.desc then "desc" else "asc") := by
  simp [printSort, h, String.append_assoc]

/-- Round trip of one `Sort:` header: whatever header text `v` the parser accepted, the field it
    built is printed by lmd to a text that the parser reads back as exactly the same field
    (column name, direction and custom variable name). -/
theorem sort_roundtrip (v : String) (sf : SortField) (h : parseSort v = .ok sf) :
    parseSort (printSort sf) = .ok sf := by
  have hv : v ≠ "" := by
    intro e; rw [e, parseSort_empty] at h; cases h
  rcases splitN3_spec v with ⟨hn, hs⟩ | ⟨a, b, ha, _, hs⟩ | ⟨a, b, c, _, hb, hs⟩
  · rw [parseSort_one hv hs] at h
    cases h
    rw [printSort_plain _ rfl]
    exact parseSort_plain (goLower_noBlank hn) (goLower_idem v) false
  · rw [parseSort_two hv hs] at h
    obtain ⟨d, _, rfl⟩ := map_ok h
    rw [printSort_plain _ rfl]
    exact parseSort_plain (goLower_noBlank ha) (goLower_idem a) d
  · rw [parseSort_three hv hs] at h
    by_cases hc : a = "custom_variables" ∨ a = "host_custom_variables"
    · rw [if_pos hc] at h
      obtain ⟨d, _, rfl⟩ := map_ok h
      rw [custom_name_lower hc]
      by_cases hu : goUpper b = ""
      · rw [printSort_plain _ hu, hu]
        exact parseSort_plain (custom_name_noBlank hc) (custom_name_lower hc) d
      · rw [printSort_keeps_args _ hu]
        exact parseSort_custom hc (goUpper_noBlank hb) (goUpper_idem b) d
    · rw [if_neg hc] at h
      cases h

/-- The same for a field of a parsed request, whose column has been resolved in the meantime
    (`SetSortColumns`): the printed text does not depend on the resolved column, and reading it back
    gives the field the parser built in the first place (the column is resolved again afterwards). -/
theorem sort_roundtrip_resolved (v : String) (sf : SortField) (h : parseSort v = .ok sf) (c : Option Column) :
    printSort { sf with col := c } = printSort sf ∧ parseSort (printSort { sf with col := c }) = .ok sf :=
  ⟨rfl, sort_roundtrip v sf h⟩

/-- Component-wise reading of the round trip: the field read back from the printed text has the
    same column name, the same direction and the same custom variable name as the original. -/
theorem sort_roundtrip_fields (v : String) (sf : SortField) (h : parseSort v = .ok sf) :
    ∃ sf', parseSort (printSort sf) = .ok sf' ∧
      sf'.name = sf.name ∧ sf'.desc = sf.desc ∧ sf'.args = sf.args :=
  ⟨sf, sort_roundtrip v sf h, rfl, rfl, rfl⟩

/-- Printing and reading back is stable: the text printed for the field read back is the text
    printed the first time. -/
theorem printSort_stable (v : String) (sf sf' : SortField) (h : parseSort v = .ok sf)
    (h' : parseSort (printSort sf) = .ok sf') : printSort sf' = printSort sf := by
  rw [sort_roundtrip v sf h] at h'
  cases h'
  rfl

/-- A parsed sort field carries a custom variable name only under the two custom variable
    columns; every other accepted header has an empty `args`. -/
theorem parsed_args_only_custom (v : String) (sf : SortField) (h : parseSort v = .ok sf)
    (ha : sf.args ≠ "") : sf.name = "custom_variables" ∨ sf.name = "host_custom_variables" := by
  have hv : v ≠ "" := by
    intro e; rw [e, parseSort_empty] at h; cases h
  rcases splitN3_spec v with ⟨_, hs⟩ | ⟨a, b, _, _, hs⟩ | ⟨a, b, c, _, _, hs⟩
  · rw [parseSort_one hv hs] at h
    cases h
    exact absurd rfl ha
  · rw [parseSort_two hv hs] at h
    obtain ⟨d, _, rfl⟩ := map_ok h
    exact absurd rfl ha
  · rw [parseSort_three hv hs] at h
    by_cases hc : a = "custom_variables" ∨ a = "host_custom_variables"
    · rw [if_pos hc] at h
      obtain ⟨d, _, rfl⟩ := map_ok h
      simpa [custom_name_lower hc] using hc
    · rw [if_neg hc] at h
      cases h

/-! ## the statements are about real headers -/

/-- `Sort: name asc` is accepted: column `name`, ascending, no variable name -/
example : parseSort "name asc" = .ok { name := "name", desc := false, args := "" } := by
  rw [parseSort_two (by decide) (show splitN ' ' 3 "name asc" = ["name", "asc"] by decide), dirOf_asc]
  rfl

/-- `Sort: custom_variables site desc` is accepted: the variable name is upper-cased -/
example : parseSort "custom_variables site desc"
    = .ok { name := "custom_variables", desc := true, args := "SITE" } := by
  rw [parseSort_three (by decide)
    (show splitN ' ' 3 "custom_variables site desc" = ["custom_variables", "site", "desc"] by decide),
    if_pos (Or.inl rfl), dirOf_desc]
  rfl

/-- `Sort: Host_Name DESC` is accepted: the column name is lower-cased, the direction word is
    read without regard to case -/
example : parseSort "Host_Name DESC" = .ok { name := "host_name", desc := true, args := "" } := by
  have hd : dirOf "DESC" = .ok true := by
    have h1 : equalFold "DESC" "asc" = false := by decide
    have h2 : equalFold "DESC" "desc" = true := by decide
    simp [dirOf, h1, h2, pure, Except.pure]
  rw [parseSort_two (by decide) (show splitN ' ' 3 "Host_Name DESC" = ["Host_Name", "DESC"] by decide), hd]
  rfl

/-- the custom variable field is printed with its variable name -/
example : printSort { name := "custom_variables", desc := true, args := "SITE" }
    = "custom_variables SITE desc" := by decide

example : printSort { name := "host_name", desc := true, args := "" } = "host_name desc" := by decide

/-- the round trip applies to these headers: a field exists and reads back as itself -/
example : ∃ sf, parseSort "custom_variables site desc" = .ok sf ∧ sf.args = "SITE" ∧
    printSort sf = "custom_variables SITE desc" ∧ parseSort (printSort sf) = .ok sf := by
  have h : parseSort "custom_variables site desc"
      = .ok { name := "custom_variables", desc := true, args := "SITE" } := by
    rw [parseSort_three (by decide)
      (show splitN ' ' 3 "custom_variables site desc" = ["custom_variables", "site", "desc"] by decide),
      if_pos (Or.inl rfl), dirOf_desc]
    rfl
  exact ⟨_, h, rfl, by decide, sort_roundtrip _ _ h⟩

example : ∃ sf, parseSort "Host_Name DESC" = .ok sf ∧ sf.name = "host_name" ∧
    printSort sf = "host_name desc" ∧ parseSort (printSort sf) = .ok sf := by
  have hd : dirOf "DESC" = .ok true := by
    have h1 : equalFold "DESC" "asc" = false := by decide
    have h2 : equalFold "DESC" "desc" = true := by decide
    simp [dirOf, h1, h2, pure, Except.pure]
  have h : parseSort "Host_Name DESC" = .ok { name := "host_name", desc := true, args := "" } := by
    rw [parseSort_two (by decide) (show splitN ' ' 3 "Host_Name DESC" = ["Host_Name", "DESC"] by decide), hd]
    rfl
  exact ⟨_, h, rfl, by decide, sort_roundtrip _ _ h⟩

/-- headers the parser refuses: an unknown direction word, a third word under an ordinary column -/
example : ∃ e, parseSort "name sideways" = .error e := by
  have hd : dirOf "sideways" = .error (ParseErr.bad "unrecognized sort direction") := by
    have h1 : equalFold "sideways" "asc" = false := by decide
    have h2 : equalFold "sideways" "desc" = false := by decide
    simp [dirOf, h1, h2, throw, throwThe, MonadExceptOf.throw]
  rw [parseSort_two (by decide) (show splitN ' ' 3 "name sideways" = ["name", "sideways"] by decide), hd]
  exact ⟨_, rfl⟩

example : ∃ e, parseSort "name site desc" = .error e := by
  rw [parseSort_three (by decide) (show splitN ' ' 3 "name site desc" = ["name", "site", "desc"] by decide),
    if_neg (by decide)]
  exact ⟨_, rfl⟩

end Lmd.C17
