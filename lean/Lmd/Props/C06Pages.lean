/-
  C06 (whole-query statements) — pages of one request tile its answer; large limits, `Limit: 0`
  and offsets beyond the result; asc / desc mirror; independence of `Columns:`.
  Helper lemmas live in `Lmd.Lemmas.PageLemmas`.
-/
import Lmd.Props.C06
import Lmd.Lemmas.PageLemmas
import Lmd.Lemmas.Select

namespace Lmd.C06Pages
open Lmd.Sort Lmd.Pages Lmd.Lemmas

/-! ## 1. pages tile the result -/

/-- Pages tile the answer.  Fix a request and a page size `k`; ask for `Offset: 0, k, 2k, …` with
    `Limit: k` until `n` pages cover the total.  The concatenation of the pages is exactly the
    answer of the same request without Limit and Offset (rows and their order; ties are broken
    the same way on every page because the model's sort is deterministic).
    Partial: stated for evaluations that apply no per-backend cut (`NoCut`: the specification
    mode, any mode with the cut switched off, or a sort order that is not the table's default
    order).  With the cut every page is only determined up to rows with equal keys, see
    `page_with_cut_matches_slice`. -/
theorem pages_tile_partial (m : EvalMode) (s : Schema) (ds : Dataset) (t : Table) (req : Request)
    (hcut : NoCut m req) (k n : Nat)
    (hn : (dataQuery m s ds t (unpaged req)).total ≤ n * k) :
    ((List.range n).flatMap fun i => (dataQuery m s ds t (pageReq req k i)).hits) =
      (dataQuery m s ds t (unpaged req)).hits := by
  have hu := dataQuery_of_fit m s ds t (unpaged req) (Or.inl (peerCut_unpaged m req))
  rw [hu.2, ← length_fullPool] at hn
  rw [hu.1, window_unpaged]
  have hp : ∀ i, (dataQuery m s ds t (pageReq req k i)).hits =
      ((fullPool m s ds t (unpaged req)).drop (i * k)).take k := by
    intro i
    have hc := peerCut_none_of_noCut (noCut_congr (sameSel_pageReq req k i) hcut)
    rw [(dataQuery_of_fit m s ds t (pageReq req k i) (Or.inl hc)).1, window_pageReq,
      fullPool_congr m s ds t (sameSel_page_unpaged req k i)]
  simp only [hp]
  exact flatMap_pages _ k n hn

/-- the specification mode never cuts, so the hypothesis of `pages_tile_partial` holds for every
    request there; and with page size 1 two pages cover a two-row answer -/
example (req : Request) : NoCut EvalMode.spec req := Or.inl rfl

example : NoCut (EvalMode.code Quirks.current)
    { table := "hosts", sort := [{ name := "state", desc := true }] } := Or.inr (by decide)

/-- Every page reports the same `total_count` as the request without Limit and Offset, when no
    per-backend cut is applied or the output format is wrapped_json (where the row loop keeps
    counting after the cut).
    Partial: for other formats with the cut `total_count` is only a lower bound that depends on
    Limit + Offset (`C06.total_count_cut_bounds`), so it may differ from page to page. -/
theorem pages_same_total_partial (m : EvalMode) (s : Schema) (ds : Dataset) (t : Table)
    (req : Request) (h : NoCut m req ∨ req.outFmt = .wrapped) (k i : Nat) :
    (dataQuery m s ds t (pageReq req k i)).total = (dataQuery m s ds t (unpaged req)).total := by
  rcases h with h | h
  · have hc := peerCut_none_of_noCut (noCut_congr (sameSel_pageReq req k i) h)
    rw [(dataQuery_of_fit m s ds t (pageReq req k i) (Or.inl hc)).2,
      (dataQuery_of_fit m s ds t (unpaged req) (Or.inl (peerCut_unpaged m req))).2,
      backendHits_congr m s ds t (sameSel_page_unpaged req k i)]
  · exact C06.total_count_indep m s ds t (unpaged req) (pageReq req k i) (Or.inr ⟨h, h⟩) rfl rfl rfl

example : ({ outFmt := .wrapped, limit := some 3 } : Request).outFmt = .wrapped := rfl

/-- a concrete instance: the demo backend has the hosts `B` and `a`; with page size 1 the request
    `GET hosts` has the pages `[B]`, `[a]` and an empty third page, each reporting the total 2 -/
example :
    (dataQuery EvalMode.spec Demo.cx.schema Demo.cx.ds Demo.hosts (unpaged { table := "hosts" })).total = 2 ∧
    ((List.range 3).map fun i =>
      ((dataQuery EvalMode.spec Demo.cx.schema Demo.cx.ds Demo.hosts (pageReq { table := "hosts" } 1 i)).hits.map
        (·.r.str Demo.hosts "name"),
       (dataQuery EvalMode.spec Demo.cx.schema Demo.cx.ds Demo.hosts (pageReq { table := "hosts" } 1 i)).total)) =
      [(["B"], 2), (["a"], 2), ([], 2)] := by decide

/-- No row appears on two pages: if the backends delivered no row twice, two different pages of
    the same request share no row.  (Together with `pages_tile_partial`: none is missing.)
    Partial: same restriction to evaluations without per-backend cut. -/
theorem pages_disjoint_partial (m : EvalMode) (s : Schema) (ds : Dataset) (t : Table)
    (req : Request) (hcut : NoCut m req) (hnd : (collected m s ds t (unpaged req)).Nodup)
    (k i j : Nat) (hij : i ≠ j) (x : Hit)
    (hi : x ∈ (dataQuery m s ds t (pageReq req k i)).hits)
    (hj : x ∈ (dataQuery m s ds t (pageReq req k j)).hits) : False := by
  have hp : ∀ i, (dataQuery m s ds t (pageReq req k i)).hits =
      ((fullPool m s ds t (unpaged req)).drop (i * k)).take k := by
    intro i
    have hc := peerCut_none_of_noCut (noCut_congr (sameSel_pageReq req k i) hcut)
    rw [(dataQuery_of_fit m s ds t (pageReq req k i) (Or.inl hc)).1, window_pageReq,
      fullPool_congr m s ds t (sameSel_page_unpaged req k i)]
  rw [hp] at hi hj
  have hndP : (fullPool m s ds t (unpaged req)).Nodup := by
    rw [fullPool, ← collected_of_cut_none m s ds t (unpaged req) (peerCut_unpaged m req)]
    exact (List.mergeSort_perm _ _).nodup_iff.mpr hnd
  rcases Nat.lt_or_gt_of_ne hij with h | h
  · exact pages_disjoint_list _ hndP k i j h x hi hj
  · exact pages_disjoint_list _ hndP k j i h x hj hi

/-- With the per-backend cut each page still is, position by position and up to rows with equal
    keys, the page computed without the cut - hence the corresponding slice of the full sorted
    answer - provided every backend delivers its rows already in the requested order (the
    situation in which lmd cuts). -/
theorem page_with_cut_matches_slice (m : EvalMode) (s : Schema) (ds : Dataset) (t : Table)
    (req : Request) (k i : Nat)
    (hord : ∀ A ∈ backendHits m s ds t req,
      A.Pairwise (fun a b => Hit.le (dirsOf req) a b = true)) :
    PosRel (C06.KeyEq (dirsOf req)) (dataQuery m s ds t (pageReq req k i)).hits
      (((fullPool m s ds t (unpaged req)).drop (i * k)).take k) := by
  have h := C06.earlyCut_sound m s ds t (pageReq req k i) (by
    rw [backendHits_congr m s ds t (sameSel_pageReq req k i)]; exact hord)
  have hc : peerCut (noCut m) (pageReq req k i) = none := peerCut_noCut m _
  rw [(dataQuery_of_fit (noCut m) s ds t (pageReq req k i) (Or.inl hc)).1, window_pageReq] at h
  have e : fullPool (noCut m) s ds t (pageReq req k i) = fullPool m s ds t (unpaged req) :=
    fullPool_congr m s ds t (sameSel_page_unpaged req k i)
  rw [e] at h
  exact h

/-! ## 2. large limits, `Limit: 0`, offsets beyond the result -/

/-- `Limit: n` with `n` at least the number of matching rows and no Offset gives the same rows
    in the same order and the same `total_count` as the request without Limit - in every
    evaluation mode, the per-backend cut included (it then cuts nothing). -/
theorem limit_ge_total_same (m : EvalMode) (s : Schema) (ds : Dataset) (t : Table) (req : Request)
    (n : Nat) (hl : req.limit = some n) (ho : req.offset = 0)
    (hn : (dataQuery m s ds t (unpaged req)).total ≤ n) :
    (dataQuery m s ds t req).hits = (dataQuery m s ds t (unpaged req)).hits ∧
    (dataQuery m s ds t req).total = (dataQuery m s ds t (unpaged req)).total := by
  have hu := dataQuery_of_fit m s ds t (unpaged req) (Or.inl (peerCut_unpaged m req))
  have hB := backendHits_congr m s ds t (sameSel_unpaged req)
  rw [hu.2, hB] at hn
  have hfit : peerCut m req = none ∨
      ∃ L, peerCut m req = some L ∧ ∀ A ∈ backendHits m s ds t req, A.length ≤ L := by
    cases hc : peerCut m req with
    | none => exact Or.inl rfl
    | some L =>
      refine Or.inr ⟨L, rfl, fun A hA => ?_⟩
      obtain ⟨l, hl', hL⟩ := peerCut_some m req L hc
      have : l = n := by rw [hl] at hl'; exact (Option.some.inj hl').symm
      have := length_le_flatten_of_mem hA
      omega
  have hr := dataQuery_of_fit m s ds t req hfit
  refine ⟨?_, by rw [hr.2, hu.2, hB]⟩
  rw [hr.1, hu.1, window_unpaged, fullPool_congr m s ds t (sameSel_unpaged req)]
  unfold window
  rw [hl, ho, List.drop_zero]
  exact List.take_of_length_le (by rw [length_fullPool]; exact hn)

example (m : EvalMode) (s : Schema) (ds : Dataset) (t : Table) (req : Request) :
    ∃ n, (dataQuery m s ds t (unpaged req)).total ≤ n := ⟨_, Nat.le_refl _⟩

/-- A request with `Offset: 0` or no Offset header is the same request: the model stores the
    absent Offset as 0, so both texts give one `Request`. -/
theorem offset_zero_is_absent (req : Request) (h : req.offset = 0) :
    { req with offset := 0 } = req := by
  cases req; simp_all

/-- `Limit: 0` (without Offset) returns no rows and still reports the `total_count` of the request
    without Limit. -/
theorem limit_zero_same_total (m : EvalMode) (s : Schema) (ds : Dataset) (t : Table)
    (req : Request) (hl : req.limit = some 0) (ho : req.offset = 0) :
    (dataQuery m s ds t req).hits = [] ∧
    (dataQuery m s ds t req).total = (dataQuery m s ds t (unpaged req)).total := by
  refine ⟨C06.window_limit_zero m s ds t req hl, ?_⟩
  rw [(dataQuery_of_fit m s ds t req (Or.inl (peerCut_none_of_limit_zero m req hl ho))).2,
    (dataQuery_of_fit m s ds t (unpaged req) (Or.inl (peerCut_unpaged m req))).2,
    backendHits_congr m s ds t (sameSel_unpaged req)]

example : ({ limit := some 0 } : Request).limit = some 0 ∧ ({ limit := some 0 } : Request).offset = 0 :=
  ⟨rfl, rfl⟩

/-- An Offset that is at least the number of matching rows (the `total_count` of the request
    without Limit and Offset) returns no rows, in every evaluation mode. -/
theorem offset_beyond_result (m : EvalMode) (s : Schema) (ds : Dataset) (t : Table) (req : Request)
    (h : (dataQuery m s ds t (unpaged req)).total ≤ req.offset) :
    (dataQuery m s ds t req).hits = [] := by
  rw [(dataQuery_of_fit m s ds t (unpaged req) (Or.inl (peerCut_unpaged m req))).2,
    backendHits_congr m s ds t (sameSel_unpaged req)] at h
  exact hits_nil_of_offset_ge m s ds t req h

example (m : EvalMode) (s : Schema) (ds : Dataset) (t : Table) (req : Request) :
    ∃ o, (dataQuery m s ds t (unpaged req)).total ≤ ({ req with offset := o } : Request).offset :=
  ⟨_, Nat.le_refl _⟩

/-! ## 3. asc / desc mirror -/

/-- One key: the descending comparison is the ascending one with the outcome exchanged. -/
theorem cmpKeys_single_mirror (d : Bool) (a b : SortKey) :
    cmpKeys [!d] [a] [b] = (cmpKeys [d] [a] [b]).swap :=
  cmpKeys_flip_all [d] [a] [b]

/-- Several keys: the comparison is lexicographic over the positions, each key compared in its
    own direction (`cmpDir`), for any split of the key tuple into a front and a rest. -/
theorem cmpKeys_lexicographic (p q : List Bool) (ap aq bp bq : List SortKey)
    (ha : ap.length = p.length) (hb : bp.length = p.length) :
    cmpKeys (p ++ q) (ap ++ aq) (bp ++ bq) = (cmpKeys p ap bp).then (cmpKeys q aq bq) :=
  cmpKeys_append p q ap aq bp bq ha hb

/-- Flipping the direction of the key at one position exchanges the outcome of that key's
    comparison only: the keys before it and after it are compared exactly as before. -/
theorem cmpKeys_flip_at (p q : List Bool) (d : Bool) (ap aq bp bq : List SortKey) (a b : SortKey)
    (ha : ap.length = p.length) (hb : bp.length = p.length) :
    cmpKeys (p ++ d :: q) (ap ++ a :: aq) (bp ++ b :: bq) =
      (cmpKeys p ap bp).then ((cmpDir d a b).then (cmpKeys q aq bq)) ∧
    cmpKeys (p ++ (!d) :: q) (ap ++ a :: aq) (bp ++ b :: bq) =
      (cmpKeys p ap bp).then ((cmpDir d a b).swap.then (cmpKeys q aq bq)) := by
  rw [cmpKeys_append _ _ _ _ _ _ ha hb, cmpKeys_append _ _ _ _ _ _ ha hb, cmpKeys_cons,
    cmpKeys_cons, cmpDir_flip]
  exact ⟨rfl, rfl⟩

example : cmpKeys ([false] ++ true :: [false]) ([.str "a"] ++ .num 1 :: [.num 5])
      ([.str "a"] ++ .num 2 :: [.num 5]) = .gt ∧
    cmpKeys ([false] ++ (!true) :: [false]) ([.str "a"] ++ .num 1 :: [.num 5])
      ([.str "a"] ++ .num 2 :: [.num 5]) = .lt := by decide

/-- Flipping all directions exchanges the outcome of the whole comparison. -/
theorem cmpKeys_all_mirror (ds : List Bool) (as bs : List SortKey) :
    cmpKeys (ds.map (!·)) as bs = (cmpKeys ds as bs).swap := cmpKeys_flip_all ds as bs

/-- On hits with pairwise different key tuples, sorting with every direction reversed yields the
    reverse of the sorted list (for one sort key: the desc answer is the asc answer reversed). -/
theorem sorted_mirror (dirs : List Bool) (sig : List Nat) (hits : List Hit)
    (hsig : ∀ h ∈ hits, HasSig sig h)
    (hd : hits.Pairwise (fun a b => cmpKeys dirs a.keys b.keys ≠ .eq)) :
    hits.mergeSort (Hit.le (dirs.map (!·))) = (hits.mergeSort (Hit.le dirs)).reverse :=
  mergeSort_flip_reverse dirs sig hits hsig hd

example : (∀ h ∈ [C06.exHits[0], C06.exHits[1]], HasSig [1, 0] h) ∧
    [C06.exHits[0], C06.exHits[1]].Pairwise
      (fun a b => cmpKeys [false, false] a.keys b.keys ≠ .eq) := by decide

/-- Whole query: for a request without Limit and Offset whose matching rows have pairwise
    different sort-key tuples, the request with every sort direction reversed (`asc` ↔ `desc`)
    returns the same rows in exactly the reverse order; `total_count` is the same.
    Partial: the hypothesis of pairwise different keys is necessary (tied rows keep their scan
    order in both directions), and paging is excluded (the mirror of a page is a page counted
    from the other end). -/
theorem desc_is_reverse_of_asc_partial (m : EvalMode) (s : Schema) (ds : Dataset) (t : Table)
    (req : Request) (hl : req.limit = none) (ho : req.offset = 0)
    (hd : (collected m s ds t req).Pairwise
      (fun a b => cmpKeys (dirsOf req) a.keys b.keys ≠ .eq)) :
    (dataQuery m s ds t (flipped req)).hits = (dataQuery m s ds t req).hits.reverse ∧
    (dataQuery m s ds t (flipped req)).total = (dataQuery m s ds t req).total := by
  have hc := peerCut_none_of_limit_none m req hl
  have hc' := peerCut_none_of_limit_none m (flipped req) hl
  have h1 := dataQuery_of_fit m s ds t req (Or.inl hc)
  have h2 := dataQuery_of_fit m s ds t (flipped req) (Or.inl hc')
  refine ⟨?_, by rw [h1.2, h2.2, backendHits_flipped]⟩
  rw [h1.1, h2.1, window_whole req _ hl ho, window_whole (flipped req) _ hl ho]
  unfold fullPool
  rw [backendHits_flipped, dirsOf_flipped]
  rw [collected_of_cut_none m s ds t req hc] at hd
  refine mergeSort_flip_reverse _ (sigOf req) _ ?_ hd
  rw [← collected_of_cut_none m s ds t req hc]
  exact hasSig_collected m s ds t req

/-- a concrete instance of the hypotheses: `GET hosts` sorted by `name` on the demo backend has
    two rows with different names -/
example :
    let req : Request := { table := "hosts", sort := [{ name := "name", desc := false, col := some Demo.nameCol }] }
    req.limit = none ∧ req.offset = 0 ∧
    (collected EvalMode.spec Demo.cx.schema Demo.cx.ds Demo.hosts req).length = 2 ∧
    (collected EvalMode.spec Demo.cx.schema Demo.cx.ds Demo.hosts req).Pairwise
      (fun a b => cmpKeys (dirsOf req) a.keys b.keys ≠ .eq) := by decide

/-! ## 4. `Columns:` does not influence which rows are returned, nor their order -/

/-- Two requests that differ only in their `Columns:` get the same rows in the same order, the
    same pool, total and failed backends: sorting uses the sort columns whether or not they are
    among the requested columns. -/
theorem columns_irrelevant (m : EvalMode) (s : Schema) (ds : Dataset) (t : Table) (req : Request)
    (cols : List String) :
    dataQuery m s ds t { req with columns := cols } = dataQuery m s ds t req := rfl

example : ({ sort := [{ name := "state", desc := false }], columns := ["name"] } : Request).columns
    ≠ ({ sort := [{ name := "state", desc := false }], columns := [] } : Request).columns := by
  decide

end Lmd.C06Pages
