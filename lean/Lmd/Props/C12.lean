/-
  C12 — comments and downtimes follow additions and removals.

  `maxIdOrSizeChanged` is `maxIDOrSizeChanged` (the cheap `Stats: count, max id` test that decides
  whether the id list is fetched at all), `syncEntries` is the diff of
  `updateDeltaCommentsOrDowntimes` (remove what is gone, append what is new), `rebuildLists` is
  `buildDowntimeCommentsList` for both tables.
-/
import Lmd.PeerLoop
import Lmd.Lemmas.SyncLemmas

namespace Lmd.C12
open Lean (Json JsonNumber)
open Lmd.SyncLemmas

/-! ## 0. concrete tables for the examples -/

def exComments : Table :=
  { name := "comments",
    cols := [{ name := "id", dtype := .int64, storage := .loc },
             { name := "host_name", dtype := .str, storage := .loc },
             { name := "service_description", dtype := .str, storage := .loc }],
    primaryKey := ["id"] }

def exC1 : ReplyRow := [("id", .num ⟨1, 0⟩), ("host_name", .str "alpha"), ("service_description", .str "")]
def exC300 : ReplyRow := [("id", .num ⟨300, 0⟩), ("host_name", .str "alpha"), ("service_description", .str "")]

/-- the cached form of a backend row -/
def exRow (r : ReplyRow) : Row := coerceRow exComments r

/-- the example table is a comments / downtimes table -/
theorem exEntryTable : EntryTable exComments :=
  ⟨⟨{ name := "id", dtype := .int64, storage := .loc }, by decide, rfl, rfl⟩,
   ⟨{ name := "host_name", dtype := .str, storage := .loc }, by decide, rfl, rfl⟩,
   ⟨{ name := "service_description", dtype := .str, storage := .loc }, by decide, rfl, rfl⟩⟩

/-! ## 1. the cheap change test -/

/-- The backend hands out ids in increasing order: its ids are pairwise different, and an id the
    cache does not know yet is larger than every cached id.  (Ids being positive is not needed:
    the maximum lmd computes starts at 0 and is only compared from below.) -/
structure MonotoneIds (cached : List Row) (backend : List ReplyRow) : Prop where
  backendNodup : (backend.map replyId).Nodup
  fresh : ∀ r ∈ backend, replyId r ∉ cached.map (·.int "id") → ∀ c ∈ cached, c.int "id" < replyId r

/-- `change_detected`: when the backend's ids increase monotonically, every difference between the
    set of backend ids and the set of cached ids is noticed by the `count / max id` test — although
    the test compares the backend's maximum with the id of the LAST cached row, not with the cached
    maximum.  This covers the empty cache, the emptied backend, the removal of the newest entry and
    a removal that is balanced by an addition. -/
theorem change_detected (cached : List Row) (backend : List ReplyRow)
    (hm : MonotoneIds cached backend)
    (hdiff : ¬ ∀ i, i ∈ backend.map replyId ↔ i ∈ cached.map (·.int "id")) :
    maxIdOrSizeChanged cached backend = true :=
  changed_of_ids_differ hm.backendNodup hm.fresh hdiff

/-- comment 300 was added to a cache holding comment 1 -/
example : MonotoneIds [exRow exC1] [exC1, exC300] ∧
    ¬ ∀ i, i ∈ [exC1, exC300].map replyId ↔ i ∈ [exRow exC1].map (·.int "id") :=
  ⟨⟨by decide, by decide⟩, fun h => absurd ((h 300).mp (by decide)) (by decide)⟩

/-- the newest comment 300 was removed, and the backend was emptied -/
example : MonotoneIds [exRow exC1, exRow exC300] [exC1] ∧ MonotoneIds [exRow exC1, exRow exC300] [] ∧
    maxIdOrSizeChanged [exRow exC1, exRow exC300] [exC1] = true ∧
    maxIdOrSizeChanged [exRow exC1, exRow exC300] [] = true :=
  ⟨⟨by decide, by decide⟩, ⟨by decide, by decide⟩, by decide, by decide⟩

/-- `no_monotone_counterexample`: without monotone ids the test misses a change: the cache holds
    the ids 2, 3, the backend now has 1, 3 — same size, and the backend maximum 3 equals the id of
    the last cached row, so nothing is fetched although comment 2 is gone and comment 1 is new. -/
theorem no_monotone_counterexample :
    ∃ (cached : List Row) (backend : List ReplyRow),
      (backend.map replyId).Nodup ∧ (cached.map (·.int "id")).Nodup ∧
      (¬ ∀ i, i ∈ backend.map replyId ↔ i ∈ cached.map (·.int "id")) ∧
      maxIdOrSizeChanged cached backend = false :=
  ⟨[{ cells := [("id", .i 2)] }, { cells := [("id", .i 3)] }],
    [[("id", .num ⟨1, 0⟩)], [("id", .num ⟨3, 0⟩)]],
    by decide, by decide, fun h => absurd ((h 1).mp (by decide)) (by decide), by decide⟩

/-! ## 2. the diff -/

/-- `sync_exact`: after `syncEntries` the table holds exactly the backend's ids — as a set, and as
    a list the kept cached ids in cache order followed by the new ids in reply order; the rows are
    the kept cached rows (unchanged) followed by the coerced new backend rows; a cached row whose id
    the backend no longer has is gone, one whose id the backend still has is still there. -/
theorem sync_exact (tab : Table) (cached : List Row) (backend : List ReplyRow)
    (hid : ∃ c, tab.col? "id" = some c ∧ c.storage = .loc ∧ c.dtype = .int64) :
    (∀ i, i ∈ (syncEntries tab cached backend).map (·.int "id") ↔ i ∈ backend.map replyId) ∧
    (syncEntries tab cached backend).map (·.int "id") =
      (cached.map (·.int "id")).filter (fun i => (backend.map replyId).contains i) ++
        (backend.map replyId).filter (fun i => !(cached.map (·.int "id")).contains i) ∧
    syncEntries tab cached backend =
      cached.filter (fun r => (backend.map replyId).contains (r.int "id")) ++
        (backend.filter (fun r => !(cached.map (·.int "id")).contains (replyId r))).map (coerceRow tab) ∧
    (∀ c ∈ cached, c.int "id" ∉ backend.map replyId → c ∉ syncEntries tab cached backend) ∧
    (∀ c ∈ cached, c.int "id" ∈ backend.map replyId → c ∈ syncEntries tab cached backend) ∧
    (∀ row ∈ syncEntries tab cached backend,
      row ∈ cached ∨ ∃ r ∈ backend, replyId r ∉ cached.map (·.int "id") ∧ row = coerceRow tab r) := by
  refine ⟨mem_syncEntries_ids hid cached backend, syncEntries_ids hid cached backend,
    syncEntries_eq tab cached backend, ?_, ?_, ?_⟩
  · intro c _ hn hc
    exact hn ((mem_syncEntries_ids hid cached backend _).mp (List.mem_map.mpr ⟨c, hc, rfl⟩))
  · intro c hc hb
    exact mem_syncEntries.mpr (Or.inl ⟨hc, hb⟩)
  · intro row hrow
    rcases mem_syncEntries.mp hrow with h | ⟨r, hr, hn, e⟩
    · exact Or.inl h.1
    · exact Or.inr ⟨r, hr, hn, e.symm⟩

example : ∃ c, exComments.col? "id" = some c ∧ c.storage = .loc ∧ c.dtype = .int64 :=
  exEntryTable.id

/-- comment 1 is removed and comment 300 is new: the table then holds exactly comment 300 -/
example : (syncEntries exComments [exRow exC1] [exC300]).map (·.int "id") = [300] := by decide

/-- An emptied backend table empties the cached table. -/
theorem sync_empty (tab : Table) (cached : List Row) : syncEntries tab cached [] = [] := by
  rw [syncEntries_eq]; simp

/-- Removing the newest entry: when the cache holds `old ++ [newest]`, the backend still has all
    ids of `old`, nothing new, and no longer the id of `newest`, the table afterwards is `old`. -/
theorem sync_remove_newest (tab : Table) (old : List Row) (newest : Row) (backend : List ReplyRow)
    (hold : ∀ c ∈ old, c.int "id" ∈ backend.map replyId)
    (hnew : ∀ r ∈ backend, replyId r ∈ old.map (·.int "id"))
    (hgone : newest.int "id" ∉ backend.map replyId) :
    syncEntries tab (old ++ [newest]) backend = old := by
  rw [syncEntries_eq]
  have h1 : (old ++ [newest]).filter (fun r => (backend.map replyId).contains (r.int "id")) = old := by
    have h0 : (backend.map replyId).contains (newest.int "id") = false := by simpa using hgone
    rw [List.filter_append, List.filter_eq_self.mpr (fun c hc => by simpa using hold c hc),
      List.filter_cons_of_neg (by
        show ¬ (backend.map replyId).contains (newest.int "id") = true
        rw [h0]; simp)]
    simp
  have h2 : backend.filter (fun r => !((old ++ [newest]).map (·.int "id")).contains (replyId r)) = [] := by
    rw [List.filter_eq_nil_iff]
    intro r hr
    have hm : replyId r ∈ (old ++ [newest]).map (·.int "id") := by
      rw [List.map_append]; exact List.mem_append_left _ (hnew r hr)
    have hc : ((old ++ [newest]).map (·.int "id")).contains (replyId r) = true := by simpa using hm
    show ¬ (!((old ++ [newest]).map (·.int "id")).contains (replyId r)) = true
    rw [hc]; simp
  rw [h1, h2]; simp

example : syncEntries exComments ([exRow exC1] ++ [exRow exC300]) [exC1] = [exRow exC1] :=
  sync_remove_newest exComments _ _ _ (by decide) (by decide) (by decide)

/-- If the cached ids are pairwise different and the backend's ids are pairwise different, the ids
    after the step are pairwise different again. -/
theorem sync_nodup (tab : Table) (cached : List Row) (backend : List ReplyRow)
    (hid : ∃ c, tab.col? "id" = some c ∧ c.storage = .loc ∧ c.dtype = .int64)
    (hc : (cached.map (·.int "id")).Nodup) (hb : (backend.map replyId).Nodup) :
    ((syncEntries tab cached backend).map (·.int "id")).Nodup := by
  rw [syncEntries_ids hid, List.nodup_append]
  refine ⟨hc.filter _, hb.filter _, ?_⟩
  intro a ha b hb' e
  subst e
  have h1 := (List.mem_filter.mp ha).1
  have h2 := (List.mem_filter.mp hb').2
  simp only [List.contains_eq_mem, Bool.not_eq_true', decide_eq_false_iff_not] at h2
  exact h2 h1

/-! ## 3. the id lists of hosts and services follow -/

/-- `lists_follow` on plain tables: after the comments (or downtimes) table was brought up to date
    with `syncEntries` and the id lists were rebuilt with `buildIdLists`, every host lists exactly
    the ids of the backend's current entries for that host with an empty service description, and
    every service with a non-empty description exactly the ids of the backend's current entries for
    that host and description.  `Faithful`: the entries already cached agree with the backend rows of
    the same id on host and service (entries never move). -/
theorem lists_follow_tables (name : String) (tab : Table) (cached : List Row) (backend : List ReplyRow)
    (hosts services : List Row) (ht : EntryTable tab) (hf : Faithful cached backend) :
    (∀ (k : Nat) (h : Row), hosts[k]? = some h →
      ∃ h' l, (buildIdLists name (syncEntries tab cached backend) hosts services).1[k]? = some h' ∧
        h'.cell? name = some (.il l) ∧
        ∀ i, i ∈ l ↔ ∃ r ∈ backend, replyId r = i ∧ replyStr r "host_name" = strCell h "name" ∧
          replyStr r "service_description" = "") ∧
    (∀ (k : Nat) (s : Row), services[k]? = some s → strCell s "description" ≠ "" →
      ∃ s' l, (buildIdLists name (syncEntries tab cached backend) hosts services).2[k]? = some s' ∧
        s'.cell? name = some (.il l) ∧
        ∀ i, i ∈ l ↔ ∃ r ∈ backend, replyId r = i ∧ replyStr r "host_name" = strCell s "host_name" ∧
          replyStr r "service_description" = strCell s "description") := by
  rw [buildIdLists_fst, buildIdLists_snd]
  constructor
  · intro k h hk
    exact ⟨_, _, by rw [List.getElem?_map, hk]; rfl, setCell_cell?_self _ _ _,
      fun i => mem_attachedIds_syncEntries ht hf _ _ i⟩
  · intro k s hk hd
    refine ⟨_, serviceIds (syncEntries tab cached backend) s,
      by rw [List.getElem?_map, hk]; rfl, setCell_cell?_self _ _ _, fun i => ?_⟩
    have hd' : (strCell s "description" == "") = false := by simpa using hd
    unfold serviceIds
    simp only [hd', Bool.false_eq_true, if_false]
    exact mem_attachedIds_syncEntries ht hf _ _ i

/-- `lists_follow`: the same on the peer's cache, as `updateDeltaCommentsOrDowntimes` does it for the
    comments table (`c.set "comments" (syncEntries …)` followed by `rebuildLists`): afterwards the
    `comments` list of every host holds exactly the ids of the backend's current host comments of
    that host, the `comments` list of every service (with a description) the ids of the backend's
    current comments of that service; the hosts and services keep their positions and all their
    other cells. -/
theorem lists_follow (c : Cache) (tab : Table) (backend : List ReplyRow)
    (ht : EntryTable tab) (hf : Faithful (c.get "comments") backend) :
    let c' := rebuildLists (c.set "comments" (syncEntries tab (c.get "comments") backend))
    (∀ (k : Nat) (h : Row), (c.get "hosts")[k]? = some h →
      ∃ h' l, (c'.get "hosts")[k]? = some h' ∧ h'.cell? "comments" = some (.il l) ∧
        (∀ i, i ∈ l ↔ ∃ r ∈ backend, replyId r = i ∧ replyStr r "host_name" = strCell h "name" ∧
          replyStr r "service_description" = "") ∧
        ∀ n, n ≠ "comments" → n ≠ "downtimes" → h'.cell? n = h.cell? n) ∧
    (∀ (k : Nat) (s : Row), (c.get "services")[k]? = some s → strCell s "description" ≠ "" →
      ∃ s' l, (c'.get "services")[k]? = some s' ∧ s'.cell? "comments" = some (.il l) ∧
        (∀ i, i ∈ l ↔ ∃ r ∈ backend, replyId r = i ∧ replyStr r "host_name" = strCell s "host_name" ∧
          replyStr r "service_description" = strCell s "description") ∧
        ∀ n, n ≠ "comments" → n ≠ "downtimes" → s'.cell? n = s.cell? n) := by
  intro c'
  have hH : c'.get "hosts" = _ := rebuildLists_hosts _
  have hS : c'.get "services" = _ := rebuildLists_services _
  rw [Cache.get_set_other c "comments" "hosts" _ (by decide),
    Cache.get_set_other c "comments" "downtimes" _ (by decide), Cache.get_set_self] at hH
  rw [Cache.get_set_other c "comments" "services" _ (by decide),
    Cache.get_set_other c "comments" "downtimes" _ (by decide), Cache.get_set_self] at hS
  constructor
  · intro k h hk
    refine ⟨_, _, by rw [hH, List.getElem?_map, hk]; rfl, ?_,
      fun i => mem_attachedIds_syncEntries ht hf _ _ i, fun n h1 h2 => ?_⟩
    · rw [setCell_cell?_other _ _ _ _ (by decide), setCell_cell?_self]; rfl
    · rw [setCell_cell?_other _ _ _ _ h2, setCell_cell?_other _ _ _ _ h1]
  · intro k s hk hd
    have hd' : (strCell s "description" == "") = false := by simpa using hd
    refine ⟨_, serviceIds (syncEntries tab (c.get "comments") backend) s,
      by rw [hS, List.getElem?_map, hk]; rfl, ?_, fun i => ?_, fun n h1 h2 => ?_⟩
    · rw [setCell_cell?_other _ _ _ _ (by decide), setCell_cell?_self]
    · unfold serviceIds
      simp only [hd', Bool.false_eq_true, if_false]
      exact mem_attachedIds_syncEntries ht hf _ _ i
    · rw [setCell_cell?_other _ _ _ _ h2, setCell_cell?_other _ _ _ _ h1]

/-- the same for the downtimes table -/
theorem lists_follow_downtimes (c : Cache) (tab : Table) (backend : List ReplyRow)
    (ht : EntryTable tab) (hf : Faithful (c.get "downtimes") backend) :
    let c' := rebuildLists (c.set "downtimes" (syncEntries tab (c.get "downtimes") backend))
    (∀ (k : Nat) (h : Row), (c.get "hosts")[k]? = some h →
      ∃ h' l, (c'.get "hosts")[k]? = some h' ∧ h'.cell? "downtimes" = some (.il l) ∧
        (∀ i, i ∈ l ↔ ∃ r ∈ backend, replyId r = i ∧ replyStr r "host_name" = strCell h "name" ∧
          replyStr r "service_description" = "")) ∧
    (∀ (k : Nat) (s : Row), (c.get "services")[k]? = some s → strCell s "description" ≠ "" →
      ∃ s' l, (c'.get "services")[k]? = some s' ∧ s'.cell? "downtimes" = some (.il l) ∧
        (∀ i, i ∈ l ↔ ∃ r ∈ backend, replyId r = i ∧ replyStr r "host_name" = strCell s "host_name" ∧
          replyStr r "service_description" = strCell s "description")) := by
  intro c'
  have hH : c'.get "hosts" = _ := rebuildLists_hosts _
  have hS : c'.get "services" = _ := rebuildLists_services _
  rw [Cache.get_set_other c "downtimes" "hosts" _ (by decide),
    Cache.get_set_other c "downtimes" "comments" _ (by decide), Cache.get_set_self] at hH
  rw [Cache.get_set_other c "downtimes" "services" _ (by decide),
    Cache.get_set_other c "downtimes" "comments" _ (by decide), Cache.get_set_self] at hS
  constructor
  · intro k h hk
    exact ⟨_, _, by rw [hH, List.getElem?_map, hk]; rfl, setCell_cell?_self _ _ _,
      fun i => mem_attachedIds_syncEntries ht hf _ _ i⟩
  · intro k s hk hd
    have hd' : (strCell s "description" == "") = false := by simpa using hd
    refine ⟨_, serviceIds (syncEntries tab (c.get "downtimes") backend) s,
      by rw [hS, List.getElem?_map, hk]; rfl, setCell_cell?_self _ _ _, fun i => ?_⟩
    unfold serviceIds
    simp only [hd', Bool.false_eq_true, if_false]
    exact mem_attachedIds_syncEntries ht hf _ _ i

/-- a cache with host "alpha" and comment 1; the backend now has the comments 1 and 300 -/
example : EntryTable exComments ∧ Faithful [exRow exC1] [exC1, exC300] := by
  refine ⟨exEntryTable, ?_⟩
  unfold Faithful
  decide

example :
    let c : Cache := [("hosts", [{ cells := [("name", .s "alpha")] }]), ("comments", [exRow exC1])]
    ((rebuildLists (c.set "comments" (syncEntries exComments (c.get "comments") [exC1, exC300]))).get
      "hosts").map (fun h => match h.cell? "comments" with | some (.il l) => l | _ => []) = [[1, 300]] := by
  decide

end Lmd.C12
