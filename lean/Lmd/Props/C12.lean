/- C12 — property theorems (under construction). -/
import Lmd.PeerLoop
namespace Lmd.C12
end Lmd.C12
