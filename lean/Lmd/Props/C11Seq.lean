/-
  C11 (sequence level) — a restarted or reconfigured backend is reloaded as a whole, over arbitrary
  histories of a peer.

  The events of a peer's life are those of C13 (`Lmd.C13.Event`): a rebuild (`initAllTables`), one pass
  of the update loop (`tick`), a client query (`clientQuery`); every event brings its own time and its
  own backend behaviour.  `InPlace w c c'` says that the table set `c'` is reached from `c` by update
  passes only (`updateDelta`, `updateFullList` — no table is built anew from the backend's object set).

  4. `step_old_or_new`, `query_never_rebuilds`, `run_served_one_build`, `run_served`,
     `inplace_keeps_object_counts`, `run_served_object_counts`:
       after every event the peer publishes nothing, the complete set built from the event's backend, or
       the set it published before (updated in place); hence at every point of every history the
       published set descends in place from the complete set of ONE completed rebuild — never a mixture
       of two builds.
  5. `status_restart_required`, `restart_required_serves_new_set`, `status_restart_serves_new_set`,
     `count_restart_serves_new_set`, `status_restart_persists`, `tick_restart_serves_new_set`:
       after a restart was detected the run rebuilds at once, and a run that then succeeds serves exactly
       the backend's new object set; a failed rebuild that still serves the old set is detected again.

  Helper lemmas live in `Lmd.Lemmas.ServedLemmas`.
-/
import Lmd.Props.C11
import Lmd.Props.C13
import Lmd.Lemmas.ServedLemmas
import Lmd.Lemmas.CountLemmas

namespace Lmd.C11Seq
open Lmd Lmd.PeerL Lmd.RunL Lmd.ServedL Lmd.CountL
open Lmd.C13 (Event step run)

/-- the backend an event runs against -/
def evBackend : Event → BackendSt
  | .init _ b => b
  | .tick _ b => b
  | .query _ b => b

/-! ## 4. what is served over a history -/

/-- `step_old_or_new`: after any event (rebuild, loop pass, client query; any time, any backend
    behaviour) the peer publishes nothing, or the complete set built from the object set of the event's
    backend (`rebuildLists (freshCache w b)`, table by table described by `C11.new_set_is_backend`), or
    the set it published before the event with update passes applied in place.  A half-built set is
    never published, and a new build never replaces only some tables. -/
theorem step_old_or_new (w : World) (p : PeerSt) (e : Event) :
    (step w p e).cache = none ∨
    (step w p e).cache = some (rebuildLists (freshCache w (evBackend e))) ∨
    ∃ c c', p.cache = some c ∧ (step w p e).cache = some c' ∧ InPlace w c c' := by
  cases e with
  | init now b => exact (Served.init now (served_self w b p.cache) rfl).1
  | tick now b => exact tick_served w now p b
  | query now b => exact (clientQuery_kept w now p b).served (b := b)

/-- non-vacuity: all three outcomes occur — a first pass that builds the set, a pass against a refusing
    backend long after that drops it, and (`PeerL.exTick_fields`) a later pass that updates the set in
    place -/
example : (step C11.exWorld {} (.tick 100 C11.exBackend)).cache.isSome = true := by decide
example : (step C11.exWorld (step C11.exWorld {} (.tick 100 C11.exBackend))
      (.tick 200 { C11.exBackend with mode := "refuse" })).cache = none := by decide
example : exPeer0.cache = some [] ∧ ∃ c', (step exWorld0 exPeer0 (.tick 130 exBackend0)).cache = some c' :=
  ⟨rfl, exTick_fields.2.2.2.2.2.2.2.1⟩

/-- `query_never_rebuilds`: a client query (including the immediate refresh of a peer woken from
    idling) never publishes a new build: afterwards the peer serves nothing or the previous set updated
    in place. -/
theorem query_never_rebuilds (w : World) (now : Int) (p : PeerSt) (b : BackendSt) :
    (clientQuery w now p b).1.cache = none ∨
    ∃ c c', p.cache = some c ∧ (clientQuery w now p b).1.cache = some c' ∧ InPlace w c c' :=
  clientQuery_kept w now p b

example : (clientQuery C11.exWorld 105 (step C11.exWorld {} (.tick 100 C11.exBackend)) C11.exBackend).1.cache.isSome = true := by
  decide

theorem run_cons (w : World) (p : PeerSt) (e : Event) (es : List Event) :
    run w p (e :: es) = run w (step w p e) es := rfl

/-- `run_served_one_build`: over any history `evs` from any peer state: the set served at the end
    descends in place from the set served at the start, or there is an event `e` of the history whose
    rebuild completed — right after `e` the peer published exactly the complete set built from `e`'s
    backend — and the set served at the end is that complete set with update passes applied in place.
    (Applied to every prefix of a history this holds at every point of it.) -/
theorem run_served_one_build (w : World) :
    ∀ (evs : List Event) (p : PeerSt) (c : Cache), (run w p evs).cache = some c →
      (∃ c0, p.cache = some c0 ∧ InPlace w c0 c) ∨
      ∃ pre e post, evs = pre ++ e :: post ∧
        (run w p (pre ++ [e])).cache = some (rebuildLists (freshCache w (evBackend e))) ∧
        InPlace w (rebuildLists (freshCache w (evBackend e))) c
  | [], p, c, h => .inl ⟨c, h, .refl c⟩
  | e :: es, p, c, h => by
    rw [run_cons] at h
    rcases run_served_one_build w es (step w p e) c h with ⟨c1, h1, hin⟩ | ⟨pre, e', post, he, hb, hin⟩
    · rcases step_old_or_new w p e with hn | hf | ⟨c0, c1', hp, hs, hin0⟩
      · rw [hn] at h1; exact absurd h1 (by simp)
      · rw [hf] at h1
        have e1 := Option.some.inj h1
        rw [← e1] at hin
        exact .inr ⟨[], e, es, rfl, hf, hin⟩
      · rw [hs] at h1
        have e1 := Option.some.inj h1
        rw [← e1] at hin
        exact .inl ⟨c0, hp, hin0.trans hin⟩
    · exact .inr ⟨e :: pre, e', post, by rw [he]; rfl, hb, hin⟩

/-- `run_served`: a peer that starts without data (a new peer) serves, after any history of rebuilds,
    loop passes and client queries at arbitrary times against arbitrary backend behaviour, either
    nothing or the complete set of ONE completed rebuild of that history with update passes applied in
    place: no history produces a set mixed from two builds or from a build that did not complete. -/
theorem run_served (w : World) (p0 : PeerSt) (evs : List Event) (h0 : p0.cache = none) :
    (run w p0 evs).cache = none ∨
    ∃ c pre e post, (run w p0 evs).cache = some c ∧ evs = pre ++ e :: post ∧
      (run w p0 (pre ++ [e])).cache = some (rebuildLists (freshCache w (evBackend e))) ∧
      InPlace w (rebuildLists (freshCache w (evBackend e))) c := by
  cases hc : (run w p0 evs).cache with
  | none => exact .inl rfl
  | some c =>
    rcases run_served_one_build w evs p0 c hc with ⟨c0, h, _⟩ | ⟨pre, e, post, h1, h2, h3⟩
    · rw [h0] at h; cases h
    · exact .inr ⟨c, pre, e, post, rfl, h1, h2, h3⟩

example : ({} : PeerSt).cache = none ∧
    (run C11.exWorld {} [.tick 100 C11.exBackend, .tick 110 C13.exRefusing]).cache.isSome = true := by
  decide

/-- `inplace_keeps_object_counts`: update passes (delta updates and full refreshes, completed or
    aborted at any request) never add or remove an object: a table set reached in place from `c` has, in
    every table other than comments and downtimes, exactly as many rows as `c`.  So a change of the
    backend's object set can only enter the served set through a complete rebuild. -/
theorem inplace_keeps_object_counts (w : World) (c c' : Cache) (h : InPlace w c c') (t : String)
    (h1 : t ≠ "comments") (h2 : t ≠ "downtimes") : (c'.get t).length = (c.get t).length :=
  (inPlace_counts h).eq t h1 h2

example : InPlace exWorld0 [] (updateDelta exWorld0 130 { exPeer0 with lastUpdate := 130 } exBackend0 [] 120).cache :=
  .delta _ _ _ _ (.refl _)

/-- `run_served_object_counts`: what a peer that started without data serves after any history is the
    set of ONE completed rebuild also by its object counts: there is an event `e` of the history such that
    every object table of the served set (all tables of `updateTables` but comments and downtimes, which
    follow their own diff, C12) has exactly as many rows as `e`'s backend had objects in that table.  No
    history leaves tables with the object counts of two different backend states. -/
theorem run_served_object_counts (w : World) (p0 : PeerSt) (evs : List Event) (h0 : p0.cache = none)
    (c : Cache) (hc : (run w p0 evs).cache = some c) :
    ∃ pre e post, evs = pre ++ e :: post ∧
      (run w p0 (pre ++ [e])).cache = some (rebuildLists (freshCache w (evBackend e))) ∧
      ∀ t, t ∈ updateTables → t ≠ "comments" → t ≠ "downtimes" →
        (c.get t).length = ((evBackend e).rows t).length := by
  rcases run_served_one_build w evs p0 c hc with ⟨c0, h, _⟩ | ⟨pre, e, post, h1, h2, h3⟩
  · rw [h0] at h; exact absurd h (by simp)
  · refine ⟨pre, e, post, h1, h2, fun t ht a b => ?_⟩
    rw [(inPlace_counts h3).eq t a b, fresh_counts w (evBackend e) t ht]

example : ({} : PeerSt).cache = none ∧
    (run C11.exWorld {} [.tick 100 C11.exBackend, .tick 110 C13.exRefusing]).cache.isSome = true := by
  decide

/-! ## 5. after a detected restart the next successful run serves the new object set -/

/-- `status_restart_required`: a delta update whose status refresh is answered with a single status row
    carrying another `program_start` or `nagios_pid` than the peer remembers stops there: it asks for a
    rebuild, has sent exactly that one request and has written nothing. -/
theorem status_restart_required (w : World) (now : Int) (p : PeerSt) (b : BackendSt) (c : Cache) (fromT : Int)
    (st : ReplyRow) (hdyn : (dynamicCols w.schema p.flags "status").isEmpty = false)
    (hq : (query w now p b).2.2 = none) (hrow : b.rows "status" = [st])
    (hps : p.programStart ≠ 0) (hpid : p.corePid ≠ 0)
    (hdiff : replyInt st "program_start" ≠ p.programStart ∨ replyInt st "nagios_pid" ≠ p.corePid) :
    updateDelta w now p b c fromT =
      { p := (query w now p b).1, b := (query w now p b).2.1, cache := c, err := .restartRequired } := by
  rw [updateDelta_eq, updateFullTable_restart_status w now p b c st hdyn hq hrow hps hpid hdiff]

/-- `restart_required_serves_new_set`: when the delta update of a loop pass asks for a rebuild and the
    pass then ends without error, the peer is `Up` without error text and publishes exactly the complete
    set built from the backend's object set as it was when the pass started (the requests of the pass
    do not change it): every table is the synchronised object set of the backend. -/
theorem restart_required_serves_new_set (w : World) (now : Int) (p : PeerSt) (b : BackendSt) (c : Cache) (fromT : Int)
    (h : (updateDelta w now p b c fromT).err = .restartRequired)
    (hok : (deltaRun w now p b c fromT).err = .none) :
    (deltaRun w now p b c fromT).p.cache = some (rebuildLists (freshCache w b)) ∧
    (deltaRun w now p b c fromT).p.status = .up ∧ (deltaRun w now p b c fromT).p.lastError = "" ∧
    ∀ t, t ∈ updateTables → t ≠ "hosts" → t ≠ "services" →
      (rebuildLists (freshCache w b)).get t = syncTable (tableOf w t) (b.rows t) := by
  obtain ⟨e1, e2⟩ := C11.restart_rebuilds w now p b c fromT h
  rw [e2] at hok
  obtain ⟨_, h2, _⟩ := initAllTables_spec w now (withCache (updateDelta w now p b c fromT))
    (updateDelta w now p b c fromT).b
  obtain ⟨a, b1, c1, _⟩ := h2 hok
  rw [e1, a, freshCache_congr w (updateDelta_tables w now p b c fromT)]
  exact ⟨rfl, b1, c1, (C11.new_set_is_backend w b).1⟩

/-- `status_restart_serves_new_set`: the two composed: a loop pass whose status refresh sees another
    core start or pid rebuilds at once, and if the pass ends without error the peer serves exactly the
    restarted backend's object set — nothing of the old set is left. -/
theorem status_restart_serves_new_set (w : World) (now : Int) (p : PeerSt) (b : BackendSt) (c : Cache) (fromT : Int)
    (st : ReplyRow) (hdyn : (dynamicCols w.schema p.flags "status").isEmpty = false)
    (hq : (query w now p b).2.2 = none) (hrow : b.rows "status" = [st])
    (hps : p.programStart ≠ 0) (hpid : p.corePid ≠ 0)
    (hdiff : replyInt st "program_start" ≠ p.programStart ∨ replyInt st "nagios_pid" ≠ p.corePid)
    (hok : (deltaRun w now p b c fromT).err = .none) :
    (deltaRun w now p b c fromT).p.cache = some (rebuildLists (freshCache w b)) ∧
    (deltaRun w now p b c fromT).p.status = .up ∧ (deltaRun w now p b c fromT).p.lastError = "" := by
  have h : (updateDelta w now p b c fromT).err = .restartRequired := by
    rw [status_restart_required w now p b c fromT st hdyn hq hrow hps hpid hdiff]
  obtain ⟨a, b1, c1, _⟩ := restart_required_serves_new_set w now p b c fromT h hok
  exact ⟨a, b1, c1⟩

/-- a peer that is `Up` with a (here: empty) published set, remembering core start 4 and pid 7; the
    backend `C11.exBackend` answers with core start 5 -/
def exPeer : PeerSt :=
  { status := .up, cache := some [], lastError := "", lastOnline := 100, lastQuery := 100, lastUpdate := 90,
    lastTpMinute := 1, programStart := 4, corePid := 7 }

/-- the status row of `C11.exBackend` -/
def exStatusRow : ReplyRow := [("program_start", Lean.Json.num 5), ("nagios_pid", Lean.Json.num 7)]

/-- non-vacuity: the hypotheses of `status_restart_serves_new_set` hold for this peer and backend … -/
theorem exDetect (p : PeerSt) (fromT : Int) (b : BackendSt) (hb : b.rows "status" = [exStatusRow])
    (hq : (query C11.exWorld2 100 p b).2.2 = none)
    (hf : p.flags = 0) (h1 : p.programStart = 4) (h2 : p.corePid = 7) :
    updateDelta C11.exWorld2 100 p b [] fromT =
      { p := (query C11.exWorld2 100 p b).1, b := (query C11.exWorld2 100 p b).2.1, cache := [],
        err := .restartRequired } :=
  status_restart_required C11.exWorld2 100 p b [] fromT exStatusRow (by rw [hf]; decide) hq hb
    (by rw [h1]; decide) (by rw [h2]; decide) (.inl (by rw [h1]; decide))

/-- … and the run ends without error -/
example : (query C11.exWorld2 100 exPeer C11.exBackend).2.2 = none ∧
    (deltaRun C11.exWorld2 100 exPeer C11.exBackend [] 90).err = .none := by
  refine ⟨by decide, ?_⟩
  simp only [deltaRun, exDetect exPeer 90 C11.exBackend rfl (by decide) rfl rfl rfl]
  decide

/-- `count_restart_serves_new_set`: the same for a restart detected by the object count: a full refresh
    of a table list whose first table is answered with another number of rows than the table holds asks
    for a rebuild without writing anything; `initTablesIfRestartRequiredError` (`finishStep`) rebuilds
    at once, and if that ends without error the peer serves exactly the backend's object set. -/
theorem count_restart_serves_new_set (w : World) (now : Int) (p : PeerSt) (b : BackendSt) (c : Cache)
    (t : String) (ts : List String) (ran : Bool)
    (hq : (query w now p b).2.2 = none) (hlen : (b.rows t).length ≠ (c.get t).length)
    (hdyn : (dynamicCols w.schema p.flags t).isEmpty = false) :
    updateFullList w now (t :: ts) p b c =
      { p := (query w now p b).1, b := (query w now p b).2.1, cache := c, err := .restartRequired } ∧
    ((finishStep w now (withCache (updateFullList w now (t :: ts) p b c)) (updateFullList w now (t :: ts) p b c).b ran
        (updateFullList w now (t :: ts) p b c).err).err = .none →
      (finishStep w now (withCache (updateFullList w now (t :: ts) p b c)) (updateFullList w now (t :: ts) p b c).b ran
        (updateFullList w now (t :: ts) p b c).err).p.cache = some (rebuildLists (freshCache w b))) := by
  have heq : updateFullList w now (t :: ts) p b c =
      { p := (query w now p b).1, b := (query w now p b).2.1, cache := c, err := .restartRequired } := by
    unfold updateFullList
    simp only []
    have hr : (if t == "timeperiods" then updateTimeperiods w now p b c
        else if t == "hosts" || t == "services" then updateFullObjects w now p b c t
        else updateFullTable w now p b c t) =
        { p := (query w now p b).1, b := (query w now p b).2.1, cache := c, err := .restartRequired } := by
      split
      · rename_i ht
        have : t = "timeperiods" := by simpa using ht
        subst this
        exact updateTimeperiods_restart_count w now p b c hq hlen
      · split
        · exact updateFullObjects_restart_count w now p b c t hq hlen
        · exact updateFullTable_restart_count w now p b c t hdyn hq hlen
    rw [hr]
  refine ⟨heq, ?_⟩
  rw [heq]
  intro hok
  have hfin : ∀ (p' : PeerSt) (b' : BackendSt), finishStep w now p' b' ran .restartRequired =
      { p := (initAllTables w now p' b').p, b := (initAllTables w now p' b').b, ran := ran,
        err := (initAllTables w now p' b').err } := fun _ _ => rfl
  rw [hfin] at hok ⊢
  obtain ⟨_, h2, _⟩ := initAllTables_spec w now
    (withCache { p := (query w now p b).1, b := (query w now p b).2.1, cache := c, err := .restartRequired })
    (query w now p b).2.1
  rw [(h2 hok).1, freshCache_congr w (query_tables w now p b true).1]

example : (query C11.exWorld 100 {} C11.exBackend).2.2 = none ∧
    (C11.exBackend.rows "status").length ≠ (Cache.get [] "status").length := by decide

/-- `status_restart_persists`: if the rebuild that follows a detected restart fails while the old set is
    still published, the peer keeps the core start and pid it remembered before; so every later delta
    run (any time, any backend behaviour, any table set) whose status refresh is answered with a single
    status row that still differs from those remembered values detects the restart again, rebuilds
    again, and — if that run ends without error — serves exactly that backend's object set.  The old
    set is never silently updated with values of the new core instance. -/
theorem status_restart_persists (w : World) (now : Int) (p : PeerSt) (b : BackendSt) (c : Cache) (fromT : Int)
    (st : ReplyRow) (hdyn : (dynamicCols w.schema p.flags "status").isEmpty = false)
    (hq : (query w now p b).2.2 = none) (hrow : b.rows "status" = [st])
    (hps : p.programStart ≠ 0) (hpid : p.corePid ≠ 0)
    (hdiff : replyInt st "program_start" ≠ p.programStart ∨ replyInt st "nagios_pid" ≠ p.corePid)
    (hfail : (deltaRun w now p b c fromT).err ≠ .none)
    (hdata : (deltaRun w now p b c fromT).p.cache.isSome = true) :
    ((deltaRun w now p b c fromT).p.programStart = p.programStart ∧
      (deltaRun w now p b c fromT).p.corePid = p.corePid) ∧
    ∀ (now' : Int) (b' : BackendSt) (c' : Cache) (fromT' : Int) (st' : ReplyRow),
      (dynamicCols w.schema (deltaRun w now p b c fromT).p.flags "status").isEmpty = false →
      (query w now' (deltaRun w now p b c fromT).p b').2.2 = none → b'.rows "status" = [st'] →
      (replyInt st' "program_start" ≠ p.programStart ∨ replyInt st' "nagios_pid" ≠ p.corePid) →
      (updateDelta w now' (deltaRun w now p b c fromT).p b' c' fromT').err = .restartRequired ∧
      ((deltaRun w now' (deltaRun w now p b c fromT).p b' c' fromT').err = .none →
        (deltaRun w now' (deltaRun w now p b c fromT).p b' c' fromT').p.cache =
          some (rebuildLists (freshCache w b'))) := by
  have hud := status_restart_required w now p b c fromT st hdyn hq hrow hps hpid hdiff
  have h : (updateDelta w now p b c fromT).err = .restartRequired := by rw [hud]
  obtain ⟨e1, e2⟩ := C11.restart_rebuilds w now p b c fromT h
  rw [e2] at hfail
  rw [e1] at hdata
  obtain ⟨r1, r2⟩ := initAllTables_failed_remembers hfail hdata
  have hwc : (withCache (updateDelta w now p b c fromT)).programStart = p.programStart ∧
      (withCache (updateDelta w now p b c fromT)).corePid = p.corePid := by
    rw [hud]
    unfold withCache
    split <;> exact query_programStart w now p b true
  have k1 : (deltaRun w now p b c fromT).p.programStart = p.programStart := by rw [e1, r1, hwc.1]
  have k2 : (deltaRun w now p b c fromT).p.corePid = p.corePid := by rw [e1, r2, hwc.2]
  refine ⟨⟨k1, k2⟩, fun now' b' c' fromT' st' hdyn' hq' hrow' hdiff' => ?_⟩
  have hud' := status_restart_required w now' (deltaRun w now p b c fromT).p b' c' fromT' st' hdyn' hq' hrow'
    (by rw [k1]; exact hps) (by rw [k2]; exact hpid) (by rw [k1, k2]; exact hdiff')
  have h' : (updateDelta w now' (deltaRun w now p b c fromT).p b' c' fromT').err = .restartRequired := by rw [hud']
  exact ⟨h', fun hok => (restart_required_serves_new_set w now' _ b' c' fromT' h' hok).1⟩

/-- non-vacuity: the rebuild after the detected restart fails (the backend closes the connection on a
    later request) with the old set still published -/
example : (query C11.exWorld2 100 exPeer C11.exFailing).2.2 = none ∧
    (deltaRun C11.exWorld2 100 exPeer C11.exFailing [] 90).err ≠ .none ∧
    (deltaRun C11.exWorld2 100 exPeer C11.exFailing [] 90).p.cache.isSome = true := by
  refine ⟨by decide, ?_⟩
  simp only [deltaRun, exDetect exPeer 90 C11.exFailing rfl (by decide) rfl rfl rfl]
  decide

/-- `tick_restart_serves_new_set`: on the level of the update loop: a pass over an awake peer that is
    `Up` with data and due for a delta update, whose status refresh sees another core start or pid, ends
    either with an error or with the peer `Up` and serving exactly the restarted backend's object set. -/
theorem tick_restart_serves_new_set (w : World) (now : Int) (p : PeerSt) (b : BackendSt) (c : Cache) (st : ReplyRow)
    (hc : p.cache = some c) (hs : p.status = .up) (hidle : idlesAt w now p = false)
    (hmin : p.lastTpMinute = (now / 60) % 60) (hdue : ¬ now < p.lastUpdate + w.cfg.updateInterval)
    (hfull : ¬ (w.cfg.fullUpdateInterval > 0 ∧ now > p.lastFullUpdate + w.cfg.fullUpdateInterval))
    (hforce : p.forceFull = false)
    (hdyn : (dynamicCols w.schema p.flags "status").isEmpty = false)
    (hq : (query w now { p with lastUpdate := now } b).2.2 = none) (hrow : b.rows "status" = [st])
    (hps : p.programStart ≠ 0) (hpid : p.corePid ≠ 0)
    (hdiff : replyInt st "program_start" ≠ p.programStart ∨ replyInt st "nagios_pid" ≠ p.corePid)
    (hok : (tick w now p b).err = .none) :
    (tick w now p b).p.cache = some (rebuildLists (freshCache w b)) ∧
    (tick w now p b).p.status = .up ∧ (tick w now p b).p.lastError = "" := by
  rw [tick_delta w now p b c hc hs hidle hmin hdue hfull hforce] at hok ⊢
  exact status_restart_serves_new_set w now { p with lastUpdate := now } b c p.lastUpdate st hdyn hq hrow hps hpid hdiff hok

example : exPeer.cache = some [] ∧ exPeer.status = .up ∧ idlesAt C11.exWorld2 100 exPeer = false ∧
    exPeer.lastTpMinute = ((100 : Int) / 60) % 60 ∧ ¬ (100 : Int) < exPeer.lastUpdate + C11.exWorld2.cfg.updateInterval ∧
    ¬ (C11.exWorld2.cfg.fullUpdateInterval > 0 ∧ (100 : Int) > exPeer.lastFullUpdate + C11.exWorld2.cfg.fullUpdateInterval) ∧
    exPeer.forceFull = false ∧
    (query C11.exWorld2 100 { exPeer with lastUpdate := 100 } C11.exBackend).2.2 = none ∧
    (tick C11.exWorld2 100 exPeer C11.exBackend).err = .none := by
  refine ⟨rfl, rfl, by decide, by decide, by decide, by decide, rfl, by decide, ?_⟩
  rw [tick_delta C11.exWorld2 100 exPeer C11.exBackend [] rfl rfl (by decide) (by decide) (by decide) (by decide) rfl]
  simp only [deltaRun, exDetect { exPeer with lastUpdate := 100 } exPeer.lastUpdate C11.exBackend rfl (by decide) rfl rfl rfl]
  decide

end Lmd.C11Seq
