/-
  C15 — commands reach exactly the selected backends, in order.

  Connection layer (`Lmd.processBatch`, `Lmd.sessionEvents`: pure functions from the requests read on a client
  connection to the list of events, among them `.flush q` = "hand the queue `q` to the peers"):

  1. `routing_exact`, `routing_with_multiplicity`, `sent_iff_selected`, `not_configured_gets_nothing`
                                what one batch hands to a peer: exactly the command lines whose `Backends`
                                selection contains it, in the order received, once each.
  2. `batch_together`, `batch_queue_entries`, `batch_no_flush_iff`, `flushed_queues_wellformed`
                                a batch of commands travels as one queue with one entry per peer.
  3. `expand_spec`, `expand_nodup`, `unknown_backend_selects_nothing`   the `Backends` header.
  4. `parse_error_sends_nothing`  a batch with a request that does not parse forwards nothing.
  5. `session_routing`, `session_routing_general`, `servedPrefix_prefix`, `session_prefix`   whole sessions.

  Peer layer (`Lmd.sendCommands`, `Lmd.sendWithRetry`, `Lmd.peerSend` on the peer state machine):

  6. `down_never_sent`, `peerSend_down`
  7. `at_most_one_delivery`, `attempts_bounded`, `retry_at_most_once`
  8. `delivery_complete`, `silent_backend_accepts`
  9. `reply_empty_ok`, `reply_blank_ok`, `reply_rejected`, `reply_garbage`, `rejection_returned`,
     `rejection_not_failure`
  10. `accepted_refreshes`, `sent_refreshes`, `accepted_is_due`, `accepted_next_pass_fetches_all`
  11. `waiting_sends_nothing`

  Helper lemmas live in `Lmd.Lemmas.CommandLemmas`.
-/
import Lmd.Lemmas.CommandLemmas

namespace Lmd.C15
open Lmd

/-! ## vocabulary -/

/-- the peers addressed by a queue, in queue order -/
def peersOf (q : Queue) : List String := q.map (·.1)

/-- everything a queue holds for peer `p`: the commands of every entry addressed to `p`, in queue order -/
def queueFor (q : Queue) (p : String) : List String :=
  q.flatMap fun e => if e.1 = p then e.2 else []

/-- everything a list of connection events hands to peer `p`: the concatenation over the flushes, in order -/
def sentTo (evs : List Event) (p : String) : List String :=
  evs.flatMap fun e =>
    match e with
    | .flush q => queueFor q p
    | _ => []

/-- the command lines of `reqs` whose `Backends` selection contains `p`, in the order received -/
def cmdsFor (peers : List String) (reqs : List CReq) (p : String) : List String :=
  reqs.flatMap fun r =>
    match r with
    | .cmd line bs _ => if p ∈ expandBackends peers bs then [line] else []
    | _ => []

/-- the same with multiplicity: a command line is listed as often as `p` occurs in the expanded selection (this only
    differs from `cmdsFor` when the configured peer list itself names a peer twice) -/
def cmdsForCount (peers : List String) (reqs : List CReq) (p : String) : List String :=
  reqs.flatMap fun r =>
    match r with
    | .cmd line bs _ => List.replicate ((expandBackends peers bs).count p) line
    | _ => []

/-- the part of a batch that is processed: everything up to and including the first GET without keep-alive
    (the connection is closed after its answer) -/
def processed : List CReq → List CReq
  | [] => []
  | .get i false :: _ => [.get i false]
  | r :: rest => r :: processed rest

/-- the requests a session without parse errors works on, read off the request list by a state machine whose state
    is the keep-alive flag the connection has if the current batch ends here (at the start: the flag the session
    starts with).  A command sets the state to its own keep-alive flag.  An empty line ends the batch: the session
    goes on only in state keep-alive.  A GET with keep-alive is answered and the session goes on; a GET without is
    answered and ends the session. -/
def servedPrefix : Bool → List CReq → List CReq
  | _, [] => []
  | ka, .blank :: rest => if ka then .blank :: servedPrefix true rest else []
  | _, .cmd l bs k :: rest => .cmd l bs k :: servedPrefix k rest
  | _, .get i k :: rest => if k then .get i true :: servedPrefix true rest else [.get i false]
  | _, .bad _ :: _ => []

/-- the queue the commands of a batch build up, starting empty -/
def batchQueue (peers : List String) (reqs : List CReq) : Queue :=
  reqs.foldl (fun q r =>
    match r with
    | .cmd line bs _ => q.addAll (expandBackends peers bs) line
    | _ => q) []

/-! ### the vocabulary above is the vocabulary of the lemma file -/

private theorem sentTo_eq (evs : List Event) (p : String) : sentTo evs p = CmdL.sentTo evs p := by
  rfl

private theorem cmdsFor_eq (peers : List String) (reqs : List CReq) (p : String) :
    cmdsFor peers reqs p = CmdL.cmdsFor peers reqs p := rfl

private theorem cmdsForCount_eq (peers : List String) (reqs : List CReq) (p : String) :
    cmdsForCount peers reqs p = CmdL.cmdsForCount peers reqs p := by
  rfl

private theorem processed_eq : ∀ (l : List CReq), processed l = CmdL.processed l
  | [] => rfl
  | .get i false :: rest => rfl
  | .get i true :: rest => by
    rw [processed, CmdL.processed_cons, processed_eq rest]
    · rfl
    · intro i' h; cases h
  | .cmd line bs k :: rest => by
    rw [processed, CmdL.processed_cons, processed_eq rest]
    · rfl
    · intro i' h; cases h
  | .bad j :: rest => by
    rw [processed, CmdL.processed_cons, processed_eq rest]
    · rfl
    · intro i' h; cases h
  | .blank :: rest => by
    rw [processed, CmdL.processed_cons, processed_eq rest]
    · rfl
    · intro i' h; cases h

private theorem servedPrefix_eq : ∀ (ka : Bool) (l : List CReq), servedPrefix ka l = CmdL.sessionDone ka l
  | _, [] => rfl
  | ka, .blank :: rest => by rw [servedPrefix, CmdL.sessionDone, servedPrefix_eq true rest]
  | _, .cmd l bs k :: rest => by rw [servedPrefix, CmdL.sessionDone, servedPrefix_eq k rest]
  | _, .get i k :: rest => by rw [servedPrefix, CmdL.sessionDone, servedPrefix_eq true rest]
  | _, .bad _ :: _ => rfl

private theorem batchQueue_eq (peers : List String) (reqs : List CReq) :
    batchQueue peers reqs = CmdL.queueOf peers reqs [] := rfl

/-! ## 1. one batch -/

/-- Routing of one batch, for configured peers that are pairwise different (lmd refuses a configuration with a
    duplicate peer id): what the flushes of `processRequests` hand to peer `p`, concatenated in order, is exactly
    the list of command lines — unchanged, in the order received, each once — of those commands among the
    processed requests whose `Backends` header (all peers if absent) selects `p`.  Nothing is lost, nothing is
    duplicated, nothing is reordered, and a peer that is not selected receives nothing. -/
theorem routing_exact (peers : List String) (reqs : List CReq) (ka : Bool) (p : String) (hn : peers.Nodup) :
    sentTo (processBatch peers reqs [] ka).1 p = cmdsFor peers (processed reqs) p := by
  rw [sentTo_eq, cmdsFor_eq, processed_eq, CmdL.processBatch_sentTo peers p reqs [] ka (by simp [CmdL.keys]),
    CmdL.cmdsForCount_eq_cmdsFor peers _ p hn]
  rfl

/-- Routing of one batch for an arbitrary configured peer list: as `routing_exact`, but a command is handed to `p`
    as often as `p` occurs in the expanded selection. -/
theorem routing_with_multiplicity (peers : List String) (reqs : List CReq) (ka : Bool) (p : String) :
    sentTo (processBatch peers reqs [] ka).1 p = cmdsForCount peers (processed reqs) p := by
  rw [sentTo_eq, cmdsForCount_eq, processed_eq, CmdL.processBatch_sentTo peers p reqs [] ka (by simp [CmdL.keys])]
  rfl

/-- the hypothesis of `routing_exact` is needed: with the peer "a" configured twice a command without header is
    queued twice for it -/
example : sentTo (processBatch ["a", "a"] [.cmd "x" [] true] [] true).1 "a" = ["x", "x"] ∧
    cmdsFor ["a", "a"] (processed [.cmd "x" [] true]) "a" = ["x"] := by decide

/-- non-vacuity of `routing_exact`: three commands with different headers and a GET in between on the peers a, b -/
example : (processBatch ["a", "b"] [.cmd "c1" ["a"] true, .cmd "c2" [] true, .get 7 true, .cmd "c3" ["b", "zz"] true] [] true).1
      = [.flush [("a", ["c1", "c2"]), ("b", ["c2"])], .answer 7, .flush [("b", ["c3"])]] ∧
    sentTo (processBatch ["a", "b"] [.cmd "c1" ["a"] true, .cmd "c2" [] true, .get 7 true, .cmd "c3" ["b", "zz"] true] [] true).1 "b"
      = ["c2", "c3"] ∧
    cmdsFor ["a", "b"] (processed [.cmd "c1" ["a"] true, .cmd "c2" [] true, .get 7 true, .cmd "c3" ["b", "zz"] true]) "b"
      = ["c2", "c3"] := by decide

/-- A command line is handed to peer `p` during a batch if and only if one of the processed commands carries that
    line and selects `p` (for every configured peer list). -/
theorem sent_iff_selected (peers : List String) (reqs : List CReq) (ka : Bool) (p line : String) :
    line ∈ sentTo (processBatch peers reqs [] ka).1 p ↔
      ∃ bs k, CReq.cmd line bs k ∈ processed reqs ∧ p ∈ expandBackends peers bs := by
  rw [routing_with_multiplicity]
  unfold cmdsForCount
  rw [List.mem_flatMap]
  constructor
  · rintro ⟨r, hr, hl⟩
    cases r with
    | cmd l bs k =>
      simp only [List.mem_replicate] at hl
      obtain ⟨hc, rfl⟩ := hl
      exact ⟨bs, k, hr, List.count_pos_iff.1 (Nat.pos_of_ne_zero hc)⟩
    | get i k => cases hl
    | bad i => cases hl
    | blank => cases hl
  · rintro ⟨bs, k, hr, hp⟩
    refine ⟨_, hr, ?_⟩
    simp only [List.mem_replicate, and_true]
    exact Nat.ne_of_gt (List.count_pos_iff.2 hp)

/-- A peer that is not configured never receives anything, whatever the headers say. -/
theorem not_configured_gets_nothing (peers : List String) (reqs : List CReq) (ka : Bool) (p : String)
    (h : p ∉ peers) : sentTo (processBatch peers reqs [] ka).1 p = [] := by
  apply List.eq_nil_iff_forall_not_mem.2
  intro line hl
  obtain ⟨bs, _, _, hp⟩ := (sent_iff_selected peers reqs ka p line).1 hl
  exact h ((CmdL.mem_expand peers bs p).1 hp).1

/-! ## 2. the commands of a batch travel together -/

/-- A batch that consists of commands only produces exactly one flush — of the queue built from all its commands —
    or no event at all when that queue is empty: the commands of one request batch reach each peer in one piece. -/
theorem batch_together (peers : List String) (reqs : List CReq) (ka : Bool) (h : ∀ r ∈ reqs, r.isCmd = true) :
    (processBatch peers reqs [] ka).1 =
      (if (batchQueue peers reqs).isEmpty then [] else [.flush (batchQueue peers reqs)]) := by
  rw [batchQueue_eq]
  exact CmdL.processBatch_cmds peers reqs [] ka h

/-- The queue of a batch has one entry per addressed peer: its peers are pairwise different, all of them are
    configured, no entry is empty, and (for pairwise different configured peers) the entry of `p` lists exactly the
    commands that select `p`, in the order received. -/
theorem batch_queue_entries (peers : List String) (reqs : List CReq) :
    (peersOf (batchQueue peers reqs)).Nodup ∧
    (∀ e ∈ batchQueue peers reqs, e.1 ∈ peers ∧ e.2 ≠ []) ∧
    (peers.Nodup → ∀ p cs, (p, cs) ∈ batchQueue peers reqs → cs = cmdsFor peers reqs p) := by
  rw [batchQueue_eq]
  have hwf := CmdL.wf_queueOf peers reqs [] (CmdL.wf_nil peers)
  refine ⟨hwf.1, fun e he => ⟨hwf.2.2 e.1 (List.mem_map.2 ⟨e, he, rfl⟩), hwf.2.1 e he⟩, fun hn p cs hm => ?_⟩
  have h1 := CmdL.queueFor_of_mem hwf.1 hm
  rw [CmdL.queueFor_queueOf peers p reqs [] (by simp [CmdL.keys]), CmdL.cmdsForCount_eq_cmdsFor peers reqs p hn] at h1
  rw [← h1]
  rfl

/-- A batch of commands flushes nothing exactly when none of its commands selects a configured peer. -/
theorem batch_no_flush_iff (peers : List String) (reqs : List CReq) :
    batchQueue peers reqs = [] ↔ ∀ line bs k, CReq.cmd line bs k ∈ reqs → expandBackends peers bs = [] := by
  rw [batchQueue_eq]
  have hk := fun x => CmdL.mem_keys_queueOf peers x reqs []
  constructor
  · intro h line bs k hm
    apply List.eq_nil_iff_forall_not_mem.2
    intro x hx
    have := (hk x).2 (.inr ⟨line, bs, k, hm, hx⟩)
    rw [h] at this
    cases this
  · intro h
    apply List.eq_nil_iff_forall_not_mem.2
    intro e he
    have : e.1 ∈ CmdL.keys (CmdL.queueOf peers reqs []) := List.mem_map.2 ⟨e, he, rfl⟩
    rcases (hk e.1).1 this with h1 | ⟨line, bs, k, hm, hx⟩
    · cases h1
    · rw [h line bs k hm] at hx; cases hx

/-- Every queue that is flushed during a session — any requests, any fuel — is non-empty, addresses pairwise
    different peers, only configured ones, and has no empty entry. -/
theorem flushed_queues_wellformed (peers : List String) (fuel : Nat) (reqs : List CReq) (ka : Bool) (q : Queue)
    (h : Event.flush q ∈ sessionEvents peers fuel reqs ka) :
    q ≠ [] ∧ (peersOf q).Nodup ∧ ∀ e ∈ q, e.1 ∈ peers ∧ e.2 ≠ [] := by
  obtain ⟨hwf, hne⟩ := CmdL.session_flush_wf peers fuel reqs ka q h
  exact ⟨hne, hwf.1, fun e he => ⟨hwf.2.2 e.1 (List.mem_map.2 ⟨e, he, rfl⟩), hwf.2.1 e he⟩⟩

/-- non-vacuity of `batch_together`: two commands, one flush with one entry per peer -/
example : (∀ r ∈ [CReq.cmd "c1" ["b"] true, .cmd "c2" [] false], r.isCmd = true) ∧
    (processBatch ["a", "b"] [.cmd "c1" ["b"] true, .cmd "c2" [] false] [] true).1 =
      [.flush [("b", ["c1", "c2"]), ("a", ["c2"])]] := by decide

/-! ## 3. the `Backends` header -/

/-- `ExpandRequestedBackends`: a peer is selected iff it is configured and the header is absent or names it. -/
theorem expand_spec (peers bs : List String) (p : String) :
    p ∈ expandBackends peers bs ↔ p ∈ peers ∧ (bs = [] ∨ p ∈ bs) := CmdL.mem_expand peers bs p

/-- The selection names no peer twice when the configured list does not (and never when a header is given). -/
theorem expand_nodup (peers bs : List String) (h : peers.Nodup ∨ bs ≠ []) : (expandBackends peers bs).Nodup := by
  rcases h with h | h
  · exact CmdL.expand_nodup peers bs h
  · exact CmdL.expand_nodup_of_header peers bs h

/-- A header that names only unknown backends selects nothing (it does not fall back to "all"). -/
theorem unknown_backend_selects_nothing (peers bs : List String) (hne : bs ≠ []) (h : ∀ b ∈ bs, b ∉ peers) :
    expandBackends peers bs = [] := by
  apply List.eq_nil_iff_forall_not_mem.2
  intro p hp
  obtain ⟨h1, h2⟩ := (expand_spec peers bs p).1 hp
  rcases h2 with h2 | h2
  · exact hne h2
  · exact h p h2 h1

example : expandBackends ["a", "b"] ["zz", "b", "b"] = ["b"] ∧ expandBackends ["a", "b"] [] = ["a", "b"] ∧
    expandBackends ["a", "b"] ["zz"] = [] := by decide

/-! ## 4. a request that does not parse -/

/-- If the batch read from the connection (`parseRequestsFromReader`) contains a request that does not parse, the
    session answers with the parse error of that request and nothing else happens: none of the commands read in
    that batch is forwarded to any peer. -/
theorem parse_error_sends_nothing (peers : List String) (fuel : Nat) (reqs : List CReq) (ka : Bool) (i : Nat)
    (h : CReq.bad i ∈ (readBatch reqs).1) :
    sessionEvents peers (fuel + 1) reqs ka = [.parseError i] ∧
      ∀ p, sentTo (sessionEvents peers (fuel + 1) reqs ka) p = [] := by
  have := CmdL.sessionEvents_bad peers fuel reqs ka i h
  exact ⟨this, fun p => by rw [this]; rfl⟩

/-- non-vacuity: two commands followed by a request that does not parse -/
example : CReq.bad 2 ∈ (readBatch [.cmd "c1" [] true, .cmd "c2" [] true, .bad 2, .cmd "c3" [] true]).1 ∧
    sessionEvents ["a"] 5 [.cmd "c1" [] true, .cmd "c2" [] true, .bad 2, .cmd "c3" [] true] false = [.parseError 2] := by
  decide

/-! ## 5. whole sessions -/

/-- A session in which every request (commands and GETs) asks for keep-alive, with enough fuel for all rounds of
    the connection loop: every peer is handed exactly the command lines that select it, in the order received,
    each once — across all batches of the session. -/
theorem session_routing (peers : List String) (fuel : Nat) (reqs : List CReq) (ka : Bool) (p : String)
    (hn : peers.Nodup) (hk : ∀ r ∈ reqs, r.keepAlive = true) (hf : reqs.length < fuel) :
    sentTo (sessionEvents peers fuel reqs ka) p = cmdsFor peers reqs p := by
  rw [sentTo_eq, cmdsFor_eq, CmdL.session_all peers p fuel reqs ka hk hf, CmdL.cmdsForCount_eq_cmdsFor peers reqs p hn]

/-- Any session — arbitrary requests (also ones that do not parse, empty lines, requests without keep-alive),
    arbitrary fuel, arbitrary configured peer list: there is a prefix of the request list such that every peer is
    handed exactly what the commands of that prefix owe it, in order.  So whatever ends a session, commands are
    never reordered, never duplicated, and never skipped in favour of a later one. -/
theorem session_prefix (peers : List String) (fuel : Nat) (reqs : List CReq) (ka : Bool) :
    ∃ n, ∀ p, sentTo (sessionEvents peers fuel reqs ka) p = cmdsForCount peers (reqs.take n) p := by
  obtain ⟨done, rest, h1, h2⟩ := CmdL.session_prefix peers fuel reqs ka
  refine ⟨done.length, fun p => ?_⟩
  rw [sentTo_eq, cmdsForCount_eq, h2 p, h1, List.take_left']
  rfl

/-- The general keep-alive semantics for sessions in which every request parses (commands, GETs, empty lines; any
    keep-alive flags; enough fuel): every peer is handed exactly the command lines of the served prefix that select
    it, in the order received, each once.  The served prefix ends after the first GET without keep-alive, or at the
    first empty line that follows a command without keep-alive (or that opens a connection which is not keep-alive);
    otherwise it is the whole request list. -/
theorem session_routing_general (peers : List String) (fuel : Nat) (reqs : List CReq) (ka : Bool) (p : String)
    (hn : peers.Nodup) (hb : ∀ i, CReq.bad i ∉ reqs) (hf : reqs.length < fuel) :
    sentTo (sessionEvents peers fuel reqs ka) p = cmdsFor peers (servedPrefix ka reqs) p := by
  have hb' : ∀ r ∈ reqs, CmdL.badReq r = false := by
    intro r hr
    cases r with
    | bad i => exact absurd hr (hb i)
    | _ => rfl
  rw [sentTo_eq, cmdsFor_eq, servedPrefix_eq, CmdL.session_done peers p fuel reqs ka hb' hf,
    CmdL.cmdsForCount_eq_cmdsFor peers _ p hn]

/-- The served prefix is a prefix of the request list. -/
theorem servedPrefix_prefix (ka : Bool) (reqs : List CReq) : servedPrefix ka reqs <+: reqs := by
  rw [servedPrefix_eq]; exact CmdL.sessionDone_prefix ka reqs

/-- non-vacuity of `session_routing_general`: a command without keep-alive followed by an empty line ends the
    session; the command after it is not forwarded -/
example : (∀ i, CReq.bad i ∉ [CReq.cmd "c1" [] true, .get 1 true, .blank, .cmd "c2" ["b"] false, .blank, .cmd "c3" [] true]) ∧
    servedPrefix false [.cmd "c1" [] true, .get 1 true, .blank, .cmd "c2" ["b"] false, .blank, .cmd "c3" [] true] =
      [.cmd "c1" [] true, .get 1 true, .blank, .cmd "c2" ["b"] false] ∧
    sessionEvents ["a", "b"] 7 [.cmd "c1" [] true, .get 1 true, .blank, .cmd "c2" ["b"] false, .blank, .cmd "c3" [] true] false =
      [.flush [("a", ["c1"]), ("b", ["c1"])], .answer 1, .flush [("b", ["c2"])]] := by
  refine ⟨?_, by decide, by decide⟩
  intro i h
  simp at h

/-- non-vacuity of `session_routing`: three commands with different `Backends` headers and a GET in between on the
    peers a, b; the flushed queues -/
example : (∀ r ∈ [CReq.cmd "c1" ["a"] true, .cmd "c2" [] true, .get 2 true, .cmd "c3" ["b"] true], r.keepAlive = true) ∧
    sessionEvents ["a", "b"] 6 [.cmd "c1" ["a"] true, .cmd "c2" [] true, .get 2 true, .cmd "c3" ["b"] true] false =
      [.flush [("a", ["c1", "c2"]), ("b", ["c2"])], .answer 2, .flush [("b", ["c3"])]] ∧
    sentTo (sessionEvents ["a", "b"] 6 [.cmd "c1" ["a"] true, .cmd "c2" [] true, .get 2 true, .cmd "c3" ["b"] true] false) "a" =
      ["c1", "c2"] := by decide

/-! ## 6. a backend that is down -/

/-- A peer that is `Down` or `Broken` is answered with its last error at once: the peer state, the backend and the
    backend's command record are untouched — nothing is sent. -/
theorem down_never_sent (w : World) (now : Int) (fuel : Nat) (env : List EnvStep) (retries : Nat) (p : PeerSt)
    (b : BackendSt) (cb : CmdBackend) (cmds : List String) (hf : 0 < fuel)
    (h : p.status = .down ∨ p.status = .broken) :
    sendWithRetry w now fuel env retries p b cb cmds = (p, b, cb, .lastError, env) := by
  obtain ⟨k, rfl⟩ : ∃ k, fuel = k + 1 := ⟨fuel - 1, by omega⟩
  exact CmdL.sendWithRetry_down w now k env retries p b cb cmds h

/-- The same through the entry point `SendCommandsWithRetry`: the outcome is the last error and the backend's
    command record is unchanged, whatever happens around the sender. -/
theorem peerSend_down (w : World) (now : Int) (env : List EnvStep) (p : PeerSt) (b : BackendSt) (cb : CmdBackend)
    (cmds : List String) (h : p.status = .down ∨ p.status = .broken) :
    (peerSend w now env p b cb cmds).2.2.2 = .lastError ∧ (peerSend w now env p b cb cmds).2.2.1 = cb := by
  unfold peerSend
  simp only []
  have e := CmdL.sendWithRetry_down w now (env.length + 2) env 0 { p with lastQuery := now, idling := false } b cb cmds h
  rw [show env.length + 3 = env.length + 2 + 1 from rfl, e]
  exact ⟨rfl, rfl⟩

/-! ## 7. at most one delivery, at most one retry -/

/-- Whatever the backend does and whatever happens around the sender: afterwards the backend's command record is
    the old one, or the old one with exactly one more connection on which it read a prefix of the commands given —
    in order and unchanged.  The reply script of the backend is not touched.  (A connection that cannot be opened
    delivers nothing; every connection that was opened ends the sender.) -/
theorem at_most_one_delivery (w : World) (now : Int) (fuel : Nat) (env : List EnvStep) (retries : Nat) (p : PeerSt)
    (b : BackendSt) (cb : CmdBackend) (cmds : List String) :
    let cb' := (sendWithRetry w now fuel env retries p b cb cmds).2.2.1
    cb'.reply = cb.reply ∧ (cb'.batches = cb.batches ∨ ∃ got, cb'.batches = cb.batches ++ [got] ∧ got <+: cmds) :=
  CmdL.sendWithRetry_delivered w now cmds fuel env retries p b cb

/-- The same for the entry point `SendCommandsWithRetry`. -/
theorem at_most_one_delivery_peerSend (w : World) (now : Int) (env : List EnvStep) (p : PeerSt) (b : BackendSt)
    (cb : CmdBackend) (cmds : List String) :
    let cb' := (peerSend w now env p b cb cmds).2.2.1
    cb'.reply = cb.reply ∧ (cb'.batches = cb.batches ∨ ∃ got, cb'.batches = cb.batches ++ [got] ∧ got <+: cmds) :=
  CmdL.sendWithRetry_delivered w now cmds (env.length + 3) env 0 { p with lastQuery := now, idling := false } b cb

/-- `SendCommandsWithRetry` instrumented with a counter of its `SendCommands` calls computes the same result, and
    the counter never exceeds two (one when a retry was already used). -/
theorem attempts_bounded (w : World) (now : Int) (fuel : Nat) (env : List EnvStep) (retries : Nat) (p : PeerSt)
    (b : BackendSt) (cb : CmdBackend) (cmds : List String) :
    (CmdL.sendWithRetryCount w now fuel env retries p b cb cmds).1 = sendWithRetry w now fuel env retries p b cb cmds ∧
    (CmdL.sendWithRetryCount w now fuel env retries p b cb cmds).2 ≤ (if retries = 0 then 2 else 1) :=
  ⟨CmdL.sendWithRetryCount_fst w now cmds fuel env retries p b cb, CmdL.sendWithRetryCount_le w now cmds fuel env retries p b cb⟩

/-- Once a retry was used, a connection error ends the sender with "retries exceeded" and the state `SendCommands`
    left — there is no second retry. -/
theorem retry_at_most_once (w : World) (now : Int) (fuel : Nat) (env : List EnvStep) (retries : Nat) (p : PeerSt)
    (b : BackendSt) (cb : CmdBackend) (cmds : List String) (hs : p.status = .up ∨ p.status = .syncing)
    (hr : 0 < retries) (he : (sendCommands w now p b cb cmds).2.2.2 = .connErr) :
    sendWithRetry w now (fuel + 1) env retries p b cb cmds =
      ((sendCommands w now p b cb cmds).1, (sendCommands w now p b cb cmds).2.1, cb, .retriesExceeded, env) := by
  rw [CmdL.sendWithRetry_ready w now fuel env retries p b cb cmds hs]
  simp only [he]
  rw [if_pos hr]
  rcases CmdL.sendCommands_cases w now p b cb cmds with ⟨_, h⟩ | ⟨_, _, hne, _⟩
  · rw [h]
  · exact absurd he hne

/-! ## 8. complete delivery -/

/-- If the backend stays in mode "ok" and the peer's current address is the backend's, `SendCommands` opens one
    connection on which the backend reads exactly the commands given — all of them, in order, unchanged; the
    result is what the backend's replies say. -/
theorem delivery_complete (w : World) (now : Int) (p : PeerSt) (b : BackendSt) (cb : CmdBackend) (cmds : List String)
    (hm : b.mode = "ok") (hf : b.failAfter = none) (ha : p.addr = .self) (hs : p.sources ≠ []) :
    (sendCommands w now p b cb cmds).2.2.1.batches = cb.batches ++ [cmds] ∧
    (sendCommands w now p b cb cmds).2.2.1.reply = cb.reply ∧
    (sendCommands w now p b cb cmds).2.1 = { b with hits := b.hits + cmds.length } ∧
    (sendCommands w now p b cb cmds).2.2.2 =
      parseCommandReply (String.join (List.replicate cmds.length (if cb.reply == "" then "" else cb.reply ++ "\n"))) := by
  have hq : (query w now p (CmdL.probeOf b)).2.2 = none := by
    rw [CmdL.query_self_ok w now p (CmdL.probeOf b) ha hs (CmdL.probeOf_mode_ne_refuse (by rw [hm]; decide)) rfl]
  rcases CmdL.sendCommands_cases w now p b cb cmds with ⟨h, _⟩ | ⟨_, h1, _, h2, h3⟩
  · exact absurd hq h
  · rw [CmdL.backendReads_ok cmds b [] 0 hm hf] at h1 h2 h3
    rw [h1, h2, h3]
    refine ⟨?_, rfl, rfl, ?_⟩
    · simp [CmdL.withBatch]
    · simp only [Nat.zero_add]; rfl

/-- A backend in mode "ok" that writes nothing back (the normal case: Livestatus commands have no reply) accepts:
    the result is `ok`. -/
theorem silent_backend_accepts (w : World) (now : Int) (p : PeerSt) (b : BackendSt) (cb : CmdBackend) (cmds : List String)
    (hm : b.mode = "ok") (hf : b.failAfter = none) (ha : p.addr = .self) (hs : p.sources ≠ []) (hr : cb.reply = "") :
    (sendCommands w now p b cb cmds).2.2.2 = .ok := by
  rw [(delivery_complete w now p b cb cmds hm hf ha hs).2.2.2]
  have := CmdL.replyText_silent cb cmds.length hr
  unfold CmdL.replyText at this
  rw [this]
  exact CmdL.parseCommandReply_empty

/-! ## 9. the backend's answer -/

/-- No reply means the commands were accepted. -/
theorem reply_empty_ok : parseCommandReply "" = .ok := CmdL.parseCommandReply_empty

/-- A reply of white space only means the commands were accepted. -/
theorem reply_blank_ok (resp : String) (h : ∀ c ∈ resp.toList, isGoSpace c = true) : parseCommandReply resp = .ok :=
  CmdL.parseCommandReply_of_trim_empty resp (CmdL.trimSpace_blank resp h)

/-- A reply that (trimmed) reads `code:msg` with no colon in `code` is a rejection with that code (0 if it is not a
    number) and the trimmed message. -/
theorem reply_rejected (resp code msg : String) (h : trimSpace resp = code ++ ":" ++ msg) (hc : ':' ∉ code.toList) :
    parseCommandReply resp = .rejected ((atoi? code).getD 0) (trimSpace msg) :=
  CmdL.parseCommandReply_rejected resp code msg h hc

/-- A non-empty reply without any colon is unusable. -/
theorem reply_garbage (resp : String) (h : trimSpace resp ≠ "") (hc : ':' ∉ (trimSpace resp).toList) :
    parseCommandReply resp = .garbage (trimSpace resp) := CmdL.parseCommandReply_garbage resp h hc

example : parseCommandReply "400: command not found\n" = .rejected 400 "command not found" ∧
    trimSpace "400: command not found\n" = "400" ++ ":" ++ " command not found" ∧ ':' ∉ "400".toList := by decide

/-- A rejection is handed back as the outcome: when `SendCommands` on an `Up`/`Syncing` peer answers
    `rejected code msg`, the sender ends at once with that outcome and the state `SendCommands` left; conversely
    an outcome `rejected code msg` always is the result of the sender's last `SendCommands` call. -/
theorem rejection_returned (w : World) (now : Int) (fuel : Nat) (env : List EnvStep) (retries : Nat) (p : PeerSt)
    (b : BackendSt) (cb : CmdBackend) (cmds : List String) (c : Int) (m : String) :
    ((p.status = .up ∨ p.status = .syncing) → (sendCommands w now p b cb cmds).2.2.2 = .rejected c m →
      sendWithRetry w now (fuel + 1) env retries p b cb cmds =
        ((sendCommands w now p b cb cmds).1, (sendCommands w now p b cb cmds).2.1, (sendCommands w now p b cb cmds).2.2.1,
          .rejected c m, env)) ∧
    ((sendWithRetry w now fuel env retries p b cb cmds).2.2.2.1 = .rejected c m →
      ∃ p0 b0 cb0, sendCommands w now p0 b0 cb0 cmds =
        ((sendWithRetry w now fuel env retries p b cb cmds).1, (sendWithRetry w now fuel env retries p b cb cmds).2.1,
         (sendWithRetry w now fuel env retries p b cb cmds).2.2.1, .rejected c m)) := by
  constructor
  · intro hs hr
    rw [CmdL.sendWithRetry_ready w now fuel env retries p b cb cmds hs]
    simp only [hr]
  · intro h
    obtain ⟨p0, b0, cb0, _, h0⟩ := CmdL.sendWithRetry_last w now cmds (.rejected c m) fuel env retries p b cb (by rw [h]; rfl)
    exact ⟨p0, b0, cb0, h0⟩

/-- A rejection is not a backend failure: when `SendCommands` answers `rejected`, the peer is left exactly as the
    connection attempt left it — and when its current address is the backend's, exactly as it was: status, data,
    last error, update times, everything. -/
theorem rejection_not_failure (w : World) (now : Int) (p : PeerSt) (b : BackendSt) (cb : CmdBackend) (cmds : List String)
    (c : Int) (m : String) (h : (sendCommands w now p b cb cmds).2.2.2 = .rejected c m) :
    (sendCommands w now p b cb cmds).1 =
        (query w now p { b with mode := (if b.mode == "refuse" then "refuse" else "ok"), failAfter := none }).1 ∧
    (p.addr = .self → (sendCommands w now p b cb cmds).1 = p) := by
  have h1 := CmdL.sendCommands_peer w now p b cb cmds
  rw [h] at h1
  simp only [] at h1
  refine ⟨h1, fun ha => ?_⟩
  rw [h1]
  rcases CmdL.sendCommands_cases w now p b cb cmds with ⟨_, h2⟩ | ⟨h2, _⟩
  · rw [h2] at h; cases h
  · exact CmdL.query_self w now p (CmdL.probeOf b) ha h2

/-! ## 10. an accepted command schedules an immediate refresh -/

/-- When `SendCommands` answers `ok`, the peer's update time and the times of the last full host / service scan are
    reset to 0 (`ScheduleImmediateUpdate`), and a backend without `last_update` column gets the force flag for a
    full delta.  Acceptance changes nothing else about the peer as the connection attempt left it: status, data,
    last error, flags, idle state are those after the connection attempt. -/
theorem accepted_refreshes (w : World) (now : Int) (p : PeerSt) (b : BackendSt) (cb : CmdBackend) (cmds : List String)
    (h : (sendCommands w now p b cb cmds).2.2.2 = .ok) :
    let p' := (sendCommands w now p b cb cmds).1
    p'.lastUpdate = 0 ∧ p'.lastFullHostUpdate = 0 ∧ p'.lastFullServiceUpdate = 0 ∧
    (p'.flags &&& flagBit w.schema "HasLastUpdateColumn" = 0 → p'.forceFull = true) ∧
    (p.addr = .self → p'.status = p.status ∧ p'.cache = p.cache ∧ p'.lastError = p.lastError ∧ p'.idling = p.idling) := by
  have h1 := CmdL.sendCommands_peer w now p b cb cmds
  rw [h] at h1
  simp only [] at h1 ⊢
  rw [h1]
  obtain ⟨a1, a2, a3, a4, _⟩ := CmdL.accepted_fields w (query w now p (CmdL.probeOf b)).1
  refine ⟨a1, a2, a3, a4, fun ha => ?_⟩
  rcases CmdL.sendCommands_cases w now p b cb cmds with ⟨_, h2⟩ | ⟨h2, _⟩
  · rw [h2] at h; cases h
  · rw [CmdL.query_self w now p (CmdL.probeOf b) ha h2]
    obtain ⟨_, _, _, _, _, b6, b7, b8, b9, _⟩ := CmdL.accepted_fields w p
    exact ⟨b6, b7, b8, b9⟩

/-- End to end: whenever `SendCommandsWithRetry` reports "sent" — after waiting, after a retry, whatever happened
    around it — the peer it hands back is scheduled for an immediate refresh. -/
theorem sent_refreshes (w : World) (now : Int) (fuel : Nat) (env : List EnvStep) (retries : Nat) (p : PeerSt)
    (b : BackendSt) (cb : CmdBackend) (cmds : List String)
    (h : (sendWithRetry w now fuel env retries p b cb cmds).2.2.2.1 = .sent) :
    let p' := (sendWithRetry w now fuel env retries p b cb cmds).1
    p'.lastUpdate = 0 ∧ p'.lastFullHostUpdate = 0 ∧ p'.lastFullServiceUpdate = 0 ∧
    (p'.flags &&& flagBit w.schema "HasLastUpdateColumn" = 0 → p'.forceFull = true) := by
  obtain ⟨p0, b0, cb0, _, h0⟩ := CmdL.sendWithRetry_last w now cmds .ok fuel env retries p b cb (by rw [h]; rfl)
  have hr : (sendCommands w now p0 b0 cb0 cmds).2.2.2 = .ok := by rw [h0]
  have hp : (sendCommands w now p0 b0 cb0 cmds).1 = (sendWithRetry w now fuel env retries p b cb cmds).1 := by rw [h0]
  obtain ⟨a1, a2, a3, a4, _⟩ := accepted_refreshes w now p0 b0 cb0 cmds hr
  simp only [] at a1 a2 a3 a4 ⊢
  rw [hp] at a1 a2 a3 a4
  exact ⟨a1, a2, a3, a4⟩

/-- A peer whose update time was reset to 0 and that does not idle is due at the very next pass of the update loop
    (the clock, in Unix seconds, is past one update interval): unless the once-a-minute refresh of timeperiods and
    groups ends the pass early with an error, the pass does not take the "not yet due" exit — it runs. -/
theorem accepted_is_due (w : World) (now : Int) (p : PeerSt) (b : BackendSt) (hlu : p.lastUpdate = 0)
    (hidle : PeerL.idlesAt w now p = false) (hnow : w.cfg.updateInterval ≤ now)
    (htp : (PeerL.tpStep w now (PeerL.idleStep w now p) b p.cache).1 = none) : (tick w now p b).ran = true :=
  CmdL.tick_due w now p b hlu hidle hnow htp

/-- In particular the pass runs when the minute refresh is not due (same minute as the last one) or the peer holds
    no data. -/
theorem accepted_is_due_same_minute (w : World) (now : Int) (p : PeerSt) (b : BackendSt) (hlu : p.lastUpdate = 0)
    (hidle : PeerL.idlesAt w now p = false) (hnow : w.cfg.updateInterval ≤ now)
    (h : p.cache = none ∨ p.lastTpMinute = (now / 60) % 60) : (tick w now p b).ran = true :=
  CmdL.tick_due w now p b hlu hidle hnow (CmdL.tpStep_none w now p b h)

/-- What that pass is for an awake `Up` peer with data (minute refresh and periodic full update not due): a delta
    update from time 0 — the window is not `[last update, now)` but everything, so every host and service is
    fetched — and the force flag is consumed. -/
theorem accepted_next_pass_fetches_all (w : World) (now : Int) (p : PeerSt) (b : BackendSt) (c : Cache)
    (hc : p.cache = some c) (hs : p.status = .up) (hidle : PeerL.idlesAt w now p = false)
    (hmin : p.lastTpMinute = (now / 60) % 60) (hlu : p.lastUpdate = 0) (hnow : w.cfg.updateInterval ≤ now)
    (hfull : ¬ (w.cfg.fullUpdateInterval > 0 ∧ now > p.lastFullUpdate + w.cfg.fullUpdateInterval)) :
    tick w now p b = PeerL.deltaRun w now { p with lastUpdate := now, forceFull := false } b c 0 :=
  CmdL.tick_after_accept w now p b c hc hs hidle hmin hlu hnow hfull

/-! ## 11. a waiting sender -/

/-- While the peer is `Warning` or `Pending` and nothing happens around the sender, it keeps waiting: the outcome is
    "still waiting" (the client runs into its timeout) and nothing was delivered or changed. -/
theorem waiting_sends_nothing (w : World) (now : Int) (fuel : Nat) (retries : Nat) (p : PeerSt) (b : BackendSt)
    (cb : CmdBackend) (cmds : List String) (h : p.status = .warning ∨ p.status = .pending) :
    sendWithRetry w now fuel [] retries p b cb cmds = (p, b, cb, .stillWaiting, []) := by
  cases fuel with
  | zero => rfl
  | succ k => rw [CmdL.sendWithRetry_wait w now k [] retries p b cb cmds h]

/-! ## non-vacuity of the peer layer -/

/-- a world without schema, default configuration -/
def exWorld : World := { cfg := {}, schema := { tables := [] }, mainRestart := 100 }

/-- a backend in mode "ok" without objects -/
def exBackend : BackendSt := { tables := [], cols := [] }

/-- an `Up` peer with an (empty) data set -/
def exPeer : PeerSt := { status := .up, cache := some [], lastError := "", lastOnline := 120, lastUpdate := 120 }

/-- a run of the sender on an `Up` peer: two commands are delivered on one connection, in order; the outcome is
    "sent" and the peer is scheduled for an immediate refresh (hypotheses of `delivery_complete`,
    `silent_backend_accepts`, `sent_refreshes` hold) -/
example :
    exBackend.mode = "ok" ∧ exBackend.failAfter = none ∧ exPeer.addr = .self ∧ exPeer.sources ≠ [] ∧
    (sendWithRetry exWorld 130 3 [] 0 exPeer exBackend {} ["[1] A", "[2] B"]).2.2.2.1 = .sent ∧
    (sendWithRetry exWorld 130 3 [] 0 exPeer exBackend {} ["[1] A", "[2] B"]).2.2.1.batches = [["[1] A", "[2] B"]] ∧
    (sendWithRetry exWorld 130 3 [] 0 exPeer exBackend {} ["[1] A", "[2] B"]).1.lastUpdate = 0 ∧
    (sendWithRetry exWorld 130 3 [] 0 exPeer exBackend {} ["[1] A", "[2] B"]).1.forceFull = true := by
  decide

/-- a backend that rejects: the outcome carries code and message, the peer is untouched -/
example :
    (sendWithRetry exWorld 130 3 [] 0 exPeer exBackend { reply := "400: bad command" } ["[1] A"]).2.2.2.1
      = .rejected 400 "bad command" ∧
    (sendWithRetry exWorld 130 3 [] 0 exPeer exBackend { reply := "400: bad command" } ["[1] A"]).1.lastUpdate = 120 ∧
    (sendWithRetry exWorld 130 3 [] 0 exPeer exBackend { reply := "400: bad command" } ["[1] A"]).1.status = .up := by
  decide

/-- a backend that refuses connections, a peer that stays `Up` (it holds no data yet): one retry, then "retries
    exceeded", nothing delivered, two `SendCommands` calls -/
example :
    (sendWithRetry exWorld 130 5 [] 0 { exPeer with cache := none } { exBackend with mode := "refuse" } {} ["[1] A"]).2.2.2.1
      = .retriesExceeded ∧
    (sendWithRetry exWorld 130 5 [] 0 { exPeer with cache := none } { exBackend with mode := "refuse" } {} ["[1] A"]).2.2.1.batches
      = [] ∧
    (CmdL.sendWithRetryCount exWorld 130 5 [] 0 { exPeer with cache := none } { exBackend with mode := "refuse" } {} ["[1] A"]).2
      = 2 := by
  decide

/-- a `Down` peer and a `Pending` peer: hypotheses of `down_never_sent` and `waiting_sends_nothing` -/
example :
    (sendWithRetry exWorld 130 3 [] 0 { exPeer with status := .down } exBackend {} ["[1] A"]).2.2.2.1 = .lastError ∧
    (sendWithRetry exWorld 130 3 [] 0 { exPeer with status := .pending } exBackend {} ["[1] A"]).2.2.2.1 = .stillWaiting := by
  decide

/-- a peer after an accepted command at a time past one update interval: hypotheses of `accepted_is_due_same_minute` -/
example :
    ({ exPeer with lastUpdate := 0, lastQuery := 125, lastTpMinute := 2 } : PeerSt).lastUpdate = 0 ∧
    PeerL.idlesAt exWorld 130 { exPeer with lastUpdate := 0, lastQuery := 125, lastTpMinute := 2 } = false ∧
    exWorld.cfg.updateInterval ≤ 130 ∧
    ({ exPeer with lastUpdate := 0, lastQuery := 125, lastTpMinute := 2 } : PeerSt).lastTpMinute = ((130 : Int) / 60) % 60 := by
  decide

end Lmd.C15
