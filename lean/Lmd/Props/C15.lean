/-
  C15 — commands reach exactly the selected backends, in order.  (theorems: see below)
-/
import Lmd.Commands

namespace Lmd.C15

end Lmd.C15
