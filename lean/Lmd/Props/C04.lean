/-
  C04 — a result is the union of exactly the selected, available backends.

  `selectBackends` mirrors ExpandRequestedBackends + prepareResponse, `backendAvailable` mirrors
  Peer.GetDataStore, `dataQuery` builds the response from the per-backend `gatherRows`.
  Property theorems only; helper lemmas live in Lmd/Lemmas/Auth.lean.
-/
import Lmd.Props.C01
import Lmd.Lemmas.Auth

namespace Lmd.C04

/-! ## The specification -/

/-- the request selects backend `b`: no `Backends:` header, or the header names its id -/
def selected (req : Request) (b : Backend) : Bool := req.backends.isEmpty || req.backends.contains b.id

/-- tables answered per backend (`tables` / `columns` are answered once, from the first backend) -/
def Ordinary (t : Table) : Prop := t.name ≠ "tables" ∧ t.name ≠ "columns"

/-- the error entry for a requested id that names no backend -/
def unknownEntry (id : String) : String × String := (id, s!"bad request: backend {id} does not exist")

/-- the error entry for a selected backend whose data is not available -/
def downEntry (b : Backend) : String × String := (b.id, s!"peer is down: {b.err}")

/-! ## 5. which backends are asked -/

/-- The selected peers are the configured backends filtered by the `Backends:` header: configuration
    order is kept and the order and multiplicity of the ids in the header play no role. -/
theorem peers_eq_filter (ds : Dataset) (t : Table) (req : Request) (ht : Ordinary t) :
    (selectBackends ds t req).peers = ds.backends.filter (selected req) := by
  obtain ⟨h1, h2⟩ := ht
  have hc : (t.name == "tables" || t.name == "columns") = false := by simp [h1, h2]
  simp only [selectBackends, hc, Bool.false_eq_true, if_false]
  apply List.filter_congr
  intro b hb
  unfold selected
  cases hbs : req.backends with
  | nil => simpa using ⟨b, hb, rfl⟩
  | cons x xs =>
    simp only [List.isEmpty_cons, Bool.false_eq_true, if_false, Bool.false_or]
    have hk : (ds.backends.any fun x => x.id == b.id) = true := by simpa using ⟨b, hb, rfl⟩
    cases hc : (x :: xs).contains b.id
    · simp only [List.contains_eq_mem, decide_eq_false_iff_not] at hc
      simp [List.mem_filter, hc]
    · simp only [List.contains_eq_mem, decide_eq_true_eq] at hc
      simpa [List.mem_filter, hc] using hk

/-- A backend is asked iff it is configured and (there is no `Backends:` header or the header lists
    its id). -/
theorem selected_exact (ds : Dataset) (t : Table) (req : Request) (ht : Ordinary t) (b : Backend) :
    b ∈ (selectBackends ds t req).peers ↔ b ∈ ds.backends ∧ (req.backends = [] ∨ b.id ∈ req.backends) := by
  rw [peers_eq_filter ds t req ht]
  simp [selected, List.mem_filter]

/-- For every table the selected peers are a sub-list of the configured backends: configuration
    order is kept and no backend occurs more often than it is configured. -/
theorem peers_sublist (ds : Dataset) (t : Table) (req : Request) :
    (selectBackends ds t req).peers.Sublist ds.backends := by
  unfold selectBackends
  simp only
  split
  · exact List.take_sublist _ _
  · exact List.filter_sublist

/-- with distinct configured backends no peer is asked twice -/
theorem peers_nodup (ds : Dataset) (t : Table) (req : Request) (hn : ds.backends.Nodup) :
    (selectBackends ds t req).peers.Nodup := (peers_sublist ds t req).nodup hn

/-- with distinct configured ids no id is asked twice -/
theorem peer_ids_nodup (ds : Dataset) (t : Table) (req : Request) (hn : (ds.backends.map (·.id)).Nodup) :
    ((selectBackends ds t req).peers.map (·.id)).Nodup := ((peers_sublist ds t req).map _).nodup hn

/-- Two `Backends:` headers that name the same set of ids - in whatever order and however often -
    select the same peers. -/
theorem dup_header (ds : Dataset) (t : Table) (req req' : Request)
    (hs : ∀ id, id ∈ req.backends ↔ id ∈ req'.backends) :
    (selectBackends ds t req).peers = (selectBackends ds t req').peers := by
  have he : req.backends.isEmpty = req'.backends.isEmpty := by
    cases h1 : req.backends <;> cases h2 : req'.backends <;> simp_all
    · rename_i a _; exact absurd (hs a) (by simp)
    · rename_i a _; exact absurd (hs a) (by simp)
  have hf : ∀ k : String → Bool, ∀ x, (req.backends.filter k).contains x = (req'.backends.filter k).contains x := by
    intro k x
    rw [Bool.eq_iff_iff]
    simp [List.mem_filter, hs]
  unfold selectBackends
  simp only [he]
  split
  · rfl
  · congr 1
    funext b
    cases req'.backends.isEmpty
    · simp only [Bool.false_eq_true, if_false, hf]
    · rfl

/-- in particular, repeating an id in the header does not repeat the peer -/
theorem dup_header_cons (ds : Dataset) (t : Table) (req : Request) (id : String) (rest : List String) :
    (selectBackends ds t { req with backends := id :: id :: rest }).peers =
      (selectBackends ds t { req with backends := id :: rest }).peers :=
  dup_header ds t _ _ (by simp)

/-! ## 6. which backends are reported as failed -/

/-- The `failed` list of the selection holds exactly the requested ids that name no configured
    backend, each exactly once, each with the message "bad request: backend <id> does not exist". -/
theorem failed_exact (ds : Dataset) (t : Table) (req : Request) :
    (∀ p : String × String, p ∈ (selectBackends ds t req).failed ↔
        p.1 ∈ req.backends ∧ (∀ b ∈ ds.backends, b.id ≠ p.1) ∧ p = unknownEntry p.1) ∧
    ((selectBackends ds t req).failed.map (·.1)).Nodup := by
  have hf : (selectBackends ds t req).failed =
      ((req.backends.filter (fun id => !ds.backends.any (·.id == id))).eraseDups).map unknownEntry := rfl
  constructor
  · intro p
    rw [hf]
    simp only [List.mem_map, List.mem_eraseDups, List.mem_filter]
    constructor
    · rintro ⟨id, ⟨hid, hk⟩, rfl⟩
      refine ⟨hid, ?_, rfl⟩
      intro b hb hbe
      simp only [Bool.not_eq_true', List.any_eq_false, beq_iff_eq] at hk
      exact hk b hb hbe
    · rintro ⟨hid, hk, hp⟩
      refine ⟨p.1, ⟨hid, ?_⟩, hp.symm⟩
      simp only [Bool.not_eq_true', List.any_eq_false, beq_iff_eq]
      exact hk
  · rw [hf, List.map_map]
    have : ((fun x : String × String => x.1) ∘ unknownEntry) = id := rfl
    rw [this, List.map_id]
    exact Lemmas.nodup_eraseDups _ _ (Nat.le_refl _)

/-- The `failed` list of the response is the list above followed by exactly the selected peers whose
    data is not available, in configuration order, each with "peer is down: <its last error>" -
    whatever the request's offset, limit or sort. -/
theorem failed_down_exact (m : EvalMode) (s : Schema) (ds : Dataset) (t : Table) (req : Request) :
    (dataQuery m s ds t req).failed =
      (selectBackends ds t req).failed ++
        ((selectBackends ds t req).peers.filter (fun b => !backendAvailable b t)).map downEntry := by
  unfold dataQuery
  simp only
  split <;> rfl

/-- membership form: an entry is reported iff it is an unknown requested id or a configured,
    selected, unavailable backend -/
theorem mem_failed_iff (m : EvalMode) (s : Schema) (ds : Dataset) (t : Table) (req : Request)
    (ht : Ordinary t) (p : String × String) :
    p ∈ (dataQuery m s ds t req).failed ↔
      (p.1 ∈ req.backends ∧ (∀ b ∈ ds.backends, b.id ≠ p.1) ∧ p = unknownEntry p.1) ∨
      (∃ b ∈ ds.backends, selected req b = true ∧ backendAvailable b t = false ∧ p = downEntry b) := by
  rw [failed_down_exact, List.mem_append, (failed_exact ds t req).1 p, peers_eq_filter ds t req ht]
  simp only [List.mem_map, List.mem_filter, Bool.not_eq_true']
  constructor
  · rintro (h | ⟨b, ⟨⟨hb, hs⟩, ha⟩, rfl⟩)
    · exact Or.inl h
    · exact Or.inr ⟨b, hb, hs, ha, rfl⟩
  · rintro (h | ⟨b, hb, hs, ha, rfl⟩)
    · exact Or.inl h
    · exact Or.inr ⟨b, ⟨⟨hb, hs⟩, ha⟩, rfl⟩

/-! ## 7. the rows of the response -/

/-- every row a backend contributes carries that backend (so `peer_key` / `peer_name` name the source) -/
theorem hit_source (m : EvalMode) (cx : Ctx) (t : Table) (req : Request) (h : Hit)
    (hh : h ∈ (gatherRows m cx t req).hits) : h.b = cx.b := by
  have key : ∀ (l : List Row) (g : Row → Hit), (∀ r, (g r).b = cx.b) → ∀ x ∈ l.map g, x.b = cx.b := by
    intro l g hg x hx
    simp only [List.mem_map] at hx
    obtain ⟨r, _, rfl⟩ := hx
    exact hg r
  unfold gatherRows at hh
  simp only at hh
  split at hh
  · exact key _ _ (fun _ => rfl) h hh
  · exact key _ _ (fun _ => rfl) h (List.mem_of_mem_take hh)

/-- Without Sort, Limit and Offset the rows of the response are the concatenation, in configuration
    order, of what each selected and available backend contributes: nothing is lost, nothing is
    duplicated, nothing comes from a backend that was not selected or is down. -/
theorem rows_partition (m : EvalMode) (s : Schema) (ds : Dataset) (t : Table) (req : Request)
    (hs : req.sort = []) (hl : req.limit = none) (ho : req.offset = 0) :
    (dataQuery m s ds t req).hits =
      ((selectBackends ds t req).peers.filter (fun b => backendAvailable b t)).flatMap
        (fun b => (gatherRows m { schema := s, ds := ds, b := b } t req).hits) := by
  simp [dataQuery, hs, hl, ho, List.flatMap_map]

/-- the same with the selection spelled out (per-backend tables) -/
theorem rows_partition_filter (m : EvalMode) (s : Schema) (ds : Dataset) (t : Table) (req : Request)
    (ht : Ordinary t) (hs : req.sort = []) (hl : req.limit = none) (ho : req.offset = 0) :
    (dataQuery m s ds t req).hits =
      (ds.backends.filter (fun b => selected req b && backendAvailable b t)).flatMap
        (fun b => (gatherRows m { schema := s, ds := ds, b := b } t req).hits) := by
  rw [rows_partition m s ds t req hs hl ho, peers_eq_filter ds t req ht, List.filter_filter]
  congr 2
  funext b
  exact Bool.and_comm _ _

/-- every row of such a response was contributed by a configured, selected, available backend, and is
    attributed to it -/
theorem hit_from_selected (m : EvalMode) (s : Schema) (ds : Dataset) (t : Table) (req : Request)
    (ht : Ordinary t) (hs : req.sort = []) (hl : req.limit = none) (ho : req.offset = 0) (h : Hit)
    (hh : h ∈ (dataQuery m s ds t req).hits) :
    h.b ∈ ds.backends ∧ selected req h.b = true ∧ backendAvailable h.b t = true ∧
      h ∈ (gatherRows m { schema := s, ds := ds, b := h.b } t req).hits := by
  rw [rows_partition_filter m s ds t req ht hs hl ho] at hh
  simp only [List.mem_flatMap, List.mem_filter, Bool.and_eq_true] at hh
  obtain ⟨b, ⟨hb, hsel, hav⟩, hin⟩ := hh
  have := hit_source m _ t req h hin
  simp only at this
  subst this
  exact ⟨hb, hsel, hav, hin⟩

/-! ## 8. backends do not influence each other -/

/-- What backend `b` contributes depends on `b`, the schema, the request and the two authorisation
    switches only: any other list of backends in the dataset gives the same result for `b`. -/
theorem others_unaffected (m : EvalMode) (s : Schema) (b : Backend) (t : Table) (req : Request)
    (ds ds' : Dataset) (h1 : ds.serviceAuthLoose = ds'.serviceAuthLoose)
    (h2 : ds.groupAuthLoose = ds'.groupAuthLoose) :
    gatherRows m { schema := s, ds := ds, b := b } t req = gatherRows m { schema := s, ds := ds', b := b } t req :=
  Lemmas.gatherRows_congr (cx := { schema := s, ds := ds, b := b }) (cx' := { schema := s, ds := ds', b := b })
    ⟨rfl, rfl, h1, h2⟩ m t req

/-- hence removing other backends, or replacing them by copies that are down, leaves the rows
    attributed to `b` unchanged -/
theorem others_changed_unaffected (m : EvalMode) (s : Schema) (b : Backend) (t : Table) (req : Request)
    (ds : Dataset) (f : List Backend → List Backend) :
    gatherRows m { schema := s, ds := { ds with backends := f ds.backends }, b := b } t req =
      gatherRows m { schema := s, ds := ds, b := b } t req :=
  others_unaffected m s b t req _ _ rfl rfl

/-! ## non-vacuity on the demo dataset (Lmd.Demo: backend "a" up with hosts h1, h2; backend "b" down) -/

section Examples
open Lmd.Demo

example : Ordinary hostsT := by unfold Ordinary; decide
example : ((ds false).backends.map (·.id)).Nodup := by decide
/-- no header: both backends are asked; "b" is down and is reported, the rows come from "a" only -/
example :
    let res := dataQuery EvalMode.spec schema (ds false) hostsT { table := "hosts" }
    ((selectBackends (ds false) hostsT { table := "hosts" }).peers.map (·.id) = ["a", "b"]) ∧
    res.hits.map (fun h => (h.b.id, h.r.str hostsT "name")) = [("a", "h1"), ("a", "h2")] ∧
    res.failed = [("b", "peer is down: connection refused")] := by decide
/-- a header with an unknown id twice and the down backend twice: one entry each, no rows -/
example :
    let req : Request := { table := "hosts", backends := ["zzz", "b", "zzz", "b"] }
    let res := dataQuery EvalMode.spec schema (ds false) hostsT req
    ((selectBackends (ds false) hostsT req).peers.map (·.id) = ["b"]) ∧
    res.hits.length = 0 ∧
    res.failed = [("zzz", "bad request: backend zzz does not exist"), ("b", "peer is down: connection refused")] := by
  decide
/-- the hypotheses of `rows_partition` hold for these requests -/
example : ({ table := "hosts" } : Request).sort = [] ∧ ({ table := "hosts" } : Request).limit = none ∧
    ({ table := "hosts" } : Request).offset = 0 := by decide
/-- `others_unaffected`: dropping the down backend from the dataset leaves "a"'s two rows as they are -/
example : (gatherRows EvalMode.spec { schema := schema, ds := { ds false with backends := [backendA] }, b := backendA }
    hostsT { table := "hosts" }).hits.length = 2 := by decide

end Examples

end Lmd.C04
