/- C04 — property theorems (under construction). -/
import Lmd.Props.C01
namespace Lmd.C04
end Lmd.C04
